#!/usr/bin/env python3
"""Regenerate /verif/MANIFEST.json from the table below (one entry per property that has a working check)."""
import json, os

V = os.path.dirname(os.path.dirname(os.path.abspath(__file__)))

E1 = "E1-seqx"
E2 = "E2-shapes"
E3 = "E3-vsched"

# id -> dict(engine, technique, text, note, design_ref)
CHECKS = {
    "C19": dict(
        engine=E2,
        technique="exhaustive enumeration of every flag-octet pattern (2^16 / 2^24 / 2^22 / 2^6) against bit tables transcribed from TS 29.244",
        text="Bounded-exhaustive model checking of a pure codec: every bit pattern of every permitted IE length is run through the real decode/encode functions and compared with an independent (octet,bit)->name table; the input space is finite and enumerated completely, so within the stated domain this is a decision, not a sample.",
        note="Trusted: the hand-transcribed TS 29.244 tables in harness/internal/verif/c19; go-pfcp's ie constructors copying payload octets unchanged.",
        design_ref="DESIGN.md section 5, C19",
    ),
}

CHECKS["C14"] = dict(
    engine=E2,
    technique="exhaustive enumeration of the emitted header form (QFI 0..63 x PDU type 0..15 x ext x TEIDs x payload lengths 0..MTU) and of the end-to-end BUFF->FORW re-injection of two PDRs with own QFIs in {none,0..63}, decoded by an independent GTP-U / TS 38.415 decoder",
    text="Bounded-exhaustive model checking of the G-PDU encoder: the full product of the finite field domains is encoded by the real gtpv1.Message.Encode and by Gtp5g.WritePacket through a real UDP socket; in addition the real PfcpServer + gtp5g driver over the simulated kernel re-inject one buffered packet for each of two PDRs of one FAR for all pairs of own QFIs (quick: each value against 7 representatives in both roles; thorough: full 65x65 product); every packet is parsed by a reference decoder written from TS 29.281/38.415 that shares no code with the encoder.",
    note="Trusted: the reference decoder in harness/internal/verif/c14; only the header form the UPF emits (flags 0x34) is covered, as the property states.",
    design_ref="DESIGN.md section 5, C14",
)

E1_NOTE = "Trusted: the model data plane (EEXIST/ENOENT semantics) standing for the gtp5g module; events reach the event loop one at a time (quiescence = queues empty and loop goroutine parked in select, read from a goroutine dump); go-pfcp as the SMF-side encoder; the in-harness PFCP decoder."

CHECKS["C04"] = dict(
    engine=E1,
    technique="explicit-state BFS over all event histories (Assoc/Est/Del/Report/ReportRsp on two peers) of the real PfcpServer to a depth bound, with a probe sweep of every SEID class (0, live, released, beyond table, 2^32, 2^63-1, 2^63, 2^63+1, 2^64-1) after each transition, against a reference live-session set",
    text="Model checking of the implementation itself: every reachable canonical state within the bound is visited, the oracle (unique non-zero SEID, exact addressing, 'context not found' without side effect for every other class, re-issue only after complete removal) is evaluated on every transition.",
    note=E1_NOTE + " States are canonical up to renaming of SEID values (free-list order after a node reset follows Go map iteration).",
    design_ref="DESIGN.md section 5, C04",
)

CHECKS["C01"] = dict(
    engine=E1,
    technique="explicit-state BFS over all histories of Assoc/Est/Mod(single rule IE: every verb x kind, created and never-created ids)/Del/Report/SEID-0 response on two peers, crossed with data-plane fault positions (a fault armed at every offset of the call stream, failing before or after taking effect), deviation-bounded (<=1 quick, <=2 thorough faults)",
    text="Model checking of the implementation with fault enumeration: after every transition the model data plane's table must only hold rules of live sessions that a Create IE requested, every Update/Remove/Query call must address a created rule, and a session end must leave no rule behind - also for creates that failed after taking effect.",
    note=E1_NOTE,
    design_ref="DESIGN.md section 5, C01",
)
CHECKS["C05"] = dict(
    engine=E1,
    technique="explicit-state BFS over histories with deliberately colliding rule ids and CP SEIDs on two peers (Est/Mod/Del/re-association/SEID-0 responses/buffered-packet pushes/takeover by a fresh node id), differential isolation oracle on every transition",
    text="Model checking of the implementation with a differential oracle that needs no hand-written expectation: for an event addressed to session X (or node N) the dumps and data-plane rows of every other session must be bit-identical before and after, and every data-plane call must be tagged with X's SEID.",
    note=E1_NOTE + " Takeover only onto a fresh node id, as the quantifier says.",
    design_ref="DESIGN.md section 5, C05",
)

CHECKS["C11"] = dict(
    engine=E1,
    technique="explicit-state BFS over histories of kernel/periodic reports, Query/Update/Remove/re-Create URR, PDR removal and re-pointing, two-report messages, Deletion and SEID re-use on two sessions; the simulated SMF collects UR-SEQN per URR incarnation across all three carrier messages",
    text="Model checking of the implementation: on every transition each usage-report IE received by the simulated SMF must carry the next number 0,1,2,... of its URR incarnation (IE order inside a message), other sessions' counters untouched.",
    note=E1_NOTE + " Well-formed histories only (no id created twice).",
    design_ref="DESIGN.md section 5, C11",
)
CHECKS["C12"] = dict(
    engine=E1,
    technique="explicit-state BFS over all histories of Create/Update/Remove PDR with every URR list, Create/Remove/Query URR, two-IE messages and Deletion within one session, against a reference PDR->URR reference relation",
    text="Model checking of the implementation: on every transition the multiset of (URR, TERMR, IMMER) usage reports in the response must equal what the reference derives from the PDR lists (final report exactly once when a URR is removed, the session deleted, or its last referring PDR removed or re-pointed), with the volumes the data plane handed out.",
    note=E1_NOTE + " Update PDR always carries an explicit non-empty URR list; PDR lists name existing URRs.",
    design_ref="DESIGN.md section 5, C12",
)

CHECKS["C06"] = dict(
    engine=E1,
    technique="explicit-state BFS over all interleavings of first copies, byte-identical duplicates and retention-timer expiries (incl. stale) of heartbeat/association/session requests from peers using equal sequence numbers, against a reference retained-request map",
    text="Model checking of the implementation: on every transition a duplicate must cause no data-plane call and no state change and be answered with exactly one byte-identical copy of the original response (or nothing), a request differing in source or sequence number must be executed, and an expired entry must be released; timers are checked after stopping the server in every explored state.",
    note=E1_NOTE + " Timer expiry is an injected event (real timers are configured far in the future and stopped by the harness before the expiry is posted through NotifyTransTimeout).",
    design_ref="DESIGN.md section 5, C06",
)
CHECKS["C09"] = dict(
    engine=E1,
    technique="explicit-state BFS, per (MaxRetrans 0..3, transmit-counter position incl. 2^24-1, 2^24, 2^32-1), over all interleavings of report generation, retransmission-timer expiries (incl. stale) and matching / SEID-0 / wrong-peer / unknown-sequence / duplicated responses, against a reference table of outstanding requests",
    text="Model checking of the implementation: wire sequence numbers stay below 2^24 and distinct among outstanding requests, each expiry yields one byte-identical retransmission up to the configured count and then abandonment, a response from the right peer retires the request, everything else is without effect, and the transaction table equals the reference after every transition.",
    note=E1_NOTE + " The counter is positioned by the in-package harness.",
    design_ref="DESIGN.md section 5, C09",
)

CHECKS["C08"] = dict(
    engine=E1,
    technique="explicit-state BFS over all request histories from two peers with equal CP SEIDs and sequence numbers plus an unassociated peer (Heartbeat, Association with/without Node ID, six Establishment variants, Modification/Deletion of live, released and never-issued SEIDs), correlation oracle on every transition",
    text="Model checking of the implementation: every datagram of a step must go to the request's source with its sequence number and the right type; session responses carry the peer's SEID or 0 with cause 65; an accepted Establishment returns node id and a UP F-SEID that a follow-up Modification reaches; Created PDR exactly for PDRs with UE IPv4; an unsuccessful or unanswered request leaves session and data-plane state bit-identical; all recovery time stamps of a history are equal.",
    note=E1_NOTE,
    design_ref="DESIGN.md section 5, C08",
)

E2_XL = "Trusted: the simulated gtp5g endpoint (harness/internal/verif/simk) and the attribute schema transcribed from the gtp5g UAPI (xlate/canon.go); go-pfcp as the IE encoder of the SMF side."
CHECKS["C02"] = dict(
    engine=E2,
    technique="bounded-exhaustive enumeration of Create/Update PDR and FAR IE shapes (presence subsets x child orders at both nesting levels x boundary values x 64-bit SEIDs) through the real gtp5g driver over a simulated netlink kernel, decoded by an independent attribute walker",
    text="Every shape of the stated finite space is translated by the real driver and the netlink request the simulated kernel received is decoded by a walker that shares no code with the driver or go-gtp5gnl; each attribute must be present iff its IE was, with the IE's value and width, under the right (SEID, id), independent of child order.",
    note=E2_XL,
    design_ref="DESIGN.md section 5, C02",
)
CHECKS["C03"] = dict(
    engine=E2,
    technique="bounded-exhaustive enumeration of Create/Update QER, URR, BAR IE shapes (presence subsets, orders, all gate values, 40-bit rate pairs, every trigger bit and threshold/quota flag subset, BAR fields 0..255) through the real driver over the simulated kernel, plus a tick-and-read-back probe of the periodic registration on the real perio server",
    text="As C02 for QER/URR/BAR; the periodic registration is decided by posting ticks to the real periodic server and reading the GET_MULTI_REPORTS requests the simulated kernel receives, for every PERIO x other-trigger x octet-form combination and the four Update URR transitions.",
    note=E2_XL + " The netlink measurement-period attribute is not compared. Known finding: Update URR does not re-register (recorded in known_findings.json).",
    design_ref="DESIGN.md section 5, C03",
)
CHECKS["C16"] = dict(
    engine=E2,
    technique="grammar-bounded exhaustive enumeration of flow-description strings (all protocols, all prefix lengths, port-list shapes, spacing) plus single-token mutations and all short byte strings, against an independent reference parser and decoder of the packed netlink form",
    text="Each generated rule is parsed by the real ParseFlowDesc and packed by the real newFlowDesc/newSdfFilter with and without the uplink swap; results must equal the reference parser's filter field by field, also after decoding the packed attributes with an independent walker and with go-gtp5gnl's decoder; every other string must be rejected or handled without a fault.",
    note="Trusted: the reference parser in harness/internal/verif/c16 (what a rule denotes). Strings beyond the grammar that the implementation accepts are listed in evidence, not judged.",
    design_ref="DESIGN.md section 5, C16",
)
CHECKS["C20"] = dict(
    engine=E2,
    technique="exhaustive single and pairwise faults (delete / null / empty / wrong YAML type / out-of-range) of a valid configuration document against a reference validity predicate, and a grid of gtp5g version strings through the real checkVersion against the simulated kernel",
    text="Every single fault at every path and every pair of faults is written to a file and read by the real ReadConfig: an accepted document must satisfy every condition of the property and appear unchanged in the returned struct, a rejected one must yield an error and no configuration, and the valid document and its benign variations must be accepted. Version strings around both bounds are answered by the simulated GET_VERSION.",
    note="Trusted: the reference predicate in harness/internal/verif/c20; node ids limited to IPv4 literals and localhost (no DNS).",
    design_ref="DESIGN.md section 5, C20",
)

FULL = "Trusted: the simulated gtp5g kernel (harness/internal/verif/simk) standing for the kernel module; events (datagrams, kernel notifications, ticks) reach the goroutines one at a time with quiescence of the PFCP loop and the periodic server read from goroutine dumps; the reference G-PDU decoder of C14."
CHECKS["C10"] = dict(
    engine=E1,
    technique="explicit-state BFS over the full stack (real PfcpServer + real gtp5g driver + real buffnetlink/perio servers over a simulated kernel): ticks, Query/Remove/Update URR, deletion, re-establishment; in every reached state an exhaustive sweep of kernel REPORT batch shapes (1..3 reports over live/unknown/ended sessions x known/unknown URRs in every arrangement, 17 single-cause triggers, boundary counters)",
    text="Model checking of the implementation: every usage report the simulated kernel hands out for a live session and known URR must arrive exactly once at the owning peer, in the right carrier message with the peer's SEID, the trigger of the same name, times and counters as measured and the measurement IEs selected by method/MNOP; reports for unknown sessions or URRs produce nothing and do not disturb the rest of the batch.",
    note=FULL,
    design_ref="DESIGN.md section 5, C10",
)
CHECKS["C13"] = dict(
    engine=E1,
    technique="explicit-state BFS over the full stack: BUFFER notifications (live / unknown / ended sessions, with and without NOCP, bursts across the 512 capacity), FAR apply-action transitions among BUFF/FORW/DROP/NOCP combinations, PDR removal, deletion and SEID re-use, against reference bounded FIFOs with globally unique payloads",
    text="Model checking of the implementation: after every transition the real per-session queues must equal the reference FIFOs (capacity 512, newest dropped), a BUFF->FORW transition must emit exactly the queued payloads, each once, in order per PDR, as well-formed G-PDUs with the FAR's TEID and the session's QFI at the simulated gNB, BUFF->DROP and everything else emits nothing, and a downlink data report goes to the owner exactly when NOCP was set.",
    note=FULL,
    design_ref="DESIGN.md section 5, C13",
)
CHECKS["C15"] = dict(
    engine=E1,
    technique="explicit-state search over the complete registration state space of the real perio.Server goroutine (2 sessions x 2 URRs x 2 periods; Add/Del/Tick incl. stale ticks/Close) plus exhaustive batch-boundary enumeration of queryMultiURR over the simulated kernel",
    text="Model checking of the implementation: on every tick the argument of the query callback must equal the reference set of that period exactly, every returned report must be notified once, flagged PERIO, under its own SEID, and the number of live ticker goroutines must equal the number of non-empty groups (0 and no server goroutine after Close); batching: every GET_MULTI_REPORTS request carries at most the limit, their disjoint union is the input, the result regroups each report under its SEID once.",
    note="Trusted: ticks are injected events (real tickers run with hour-long periods); goroutines counted from runtime.Stack dumps; the simulated kernel. The schedule part (E3) is reported separately when built.",
    design_ref="DESIGN.md section 5, C15",
)

CHECKS["C07"] = dict(
    engine=E1,
    technique="reached states (quick: eight representative histories; thorough: explicit-state BFS over Assoc/Est/Del/Report/Push to depth 4) x exhaustive mutation sweep of 14 valid base datagrams (every octet x replacement values, every truncation/extension, every structure-aware TLV mutation at every nesting level, header fields, SEID classes; thorough: pairs), each mutant sent twice through the real UDP socket and followed by a heartbeat probe, with the model data plane and with the real gtp5g driver over the simulated kernel",
    text="Bounded-exhaustive exploration of the stated finite mutation space in every explored state on the real server (receiver goroutine and socket included): no fatal exit or panic, the loop and the receiver keep running, a Heartbeat Request from another peer is answered after every mutant, and the session of the other peer is bit-identical unless the datagram names it. The literal quantifier 'all byte strings' is infinite; what is decided is this finite space.",
    note=FULL + " A panic in any other goroutine kills the worker process and is reported with its stack.",
    design_ref="DESIGN.md section 5, C07",
)

E3_NOTE = "Trusted: the vsched scheduler's channel/timer semantics (differential self-tests run before every exploration) and the source rewriter (construct inventory in the evidence; exits 2 on anything it cannot translate); the simulated kernel; OS-blocking reads are bracketed as external operations completed only by harness actions."
CHECKS["C18"] = dict(
    engine=E3,
    technique="stateless exploration of all thread schedules (iterative preemption bounding 0,1,2 with global-state-key pruning) of the real PFCP loop, periodic-report server, ticker goroutines and peers over the real gtp5g driver and a simulated kernel, with the two bounded queues scaled to virtual capacities 1..3; deadlock = no enabled transition while a thread is blocked in a send, identified by its wait-for cycle",
    text="Model checking of the implementation under a controlled scheduler: every schedule within the preemption bound of each scaled scenario (bulk re-association / deletion / establishment against ticks, report batches and a heartbeat) is executed on the rewritten real code; a schedule ending with a thread blocked forever in a send is a wedge, and at the end of every other schedule each request must have its response. The known loop<->periodic-server cycle is reproduced on every run and recorded; any other cycle or stall fails the check.",
    note=E3_NOTE + " Scaled capacities stand for the real 512/128 (parameter map in DESIGN.md); data-plane latency is not modelled.",
    design_ref="DESIGN.md section 5, C18",
)

CHECKS["C17"] = dict(
    engine=E3,
    technique="stateless exploration of all thread schedules (iterative preemption bounding, global-state-key pruning) of the real PFCP loop with 2-3 peers, 1-3 concurrent report producers, scheduler-fired transaction timers and a Stop thread, and of the real periodic server with its ticker goroutines; per schedule: (a) happens-before data-race oracle - vector clocks over go/channel/close/AfterFunc edges, every field, map and slice-element access of internal/pfcp and internal/forwarder/perio reported by inserted instrumentation - (b) no panic, no deadlock, every notification/timeout handled exactly once, (c) after Stop no thread left and no timer armed",
    text="Model checking of the implementation under a controlled scheduler. Stop, producers, timer callbacks, tickers and peers are threads whose every interleaving within the preemption bound is executed on the mechanically rewritten real code. Data-race freedom is decided on each of those schedules by a happens-before oracle inside the scheduler (a race is two accesses to one location, one a write, with no synchronisation path between them - independent of how the schedule happened to order them), so a single added access from a timer callback, producer or the Stop path is flagged in every schedule in which both accesses occur. The two shutdown panics (send on a channel closed by the exiting loop) and the unsynchronised s.conn read in Stop are reproduced on every run and recorded as known findings; anything else fails the check. A free-running go -race pass of the same kind of scenario on the unrewritten code is kept as a sampled complement (evidence key race_pass); it decides nothing.",
    note=E3_NOTE + " The property's own quantifier text speaks of randomised stress; the deciding step here is exhaustive schedule enumeration with the race oracle, within the stated bounds. Accesses made inside other packages (gtp5g driver, go-pfcp message objects, logrus) are outside the instrumented set.",
    design_ref="DESIGN.md section 5, C17",
)

NOT_YET = "check not built yet (work in progress in this round; design in DESIGN.md section 5)"

def main():
    props = [json.loads(l) for l in open(os.path.join(V, "properties.jsonl"))]
    checks, na = [], []
    for p in props:
        pid = p["id"]
        c = CHECKS.get(pid)
        if not c:
            na.append({"property_id": pid, "reason": NOT_YET})
            continue
        checks.append({
            "property_id": pid,
            "quick_cmd": "./check %s quick" % pid,
            "thorough_cmd": "./check %s thorough" % pid,
            "evidence_file": "/verif/evidence/%s.json" % pid,
            "replay_cmd_template": "./check replay {path}",
            "engine": c["engine"],
            "level_claimed": {"category": "model_checking", "text": c["text"], "design_ref": c["design_ref"]},
            "level_note": c["note"],
            "technique": c["technique"],
        })
    m = {
        "version": 1,
        "setup_cmd": "./setup.sh",
        "hooks": {
            "guard": "verif",
            "enable": "no hook commit in /repo: harness files under /verif/harness (all carrying //go:build verif) are compiled into the repository's packages with `go build -tags verif -overlay <generated>` run in /repo; every flavour additionally overlays mechanically rewritten copies generated at check time from the working tree (tools/rewrite): in all flavours the range-over-map statements of the repository's packages iterate in a harness-chosen order (-maponly); in the E3 flavours the channel / timer / go constructs of internal/pfcp and internal/forwarder/perio are also routed through the scheduler",
            "baseline_off_cmd": "for m in $(cat /w/out/gomods.txt); do MF=$(cd /repo/$m && . /w/out/goenv.sh && gomodflag); (cd /repo/$m && go test $MF -json -vet=off -count=1 -timeout 25m ./...); done",
            "source_commits": [],
            "add_only": True,
        },
        "engines": [
            {"name": E1, "path": "harness/internal/verif/seqx", "serves_properties": sorted(k for k, c in CHECKS.items() if c["engine"] == E1),
             "kind_free_text": "explicit-state breadth-first search over event histories of the real PfcpServer event loop (replay from scratch on a fresh server per successor, canonical state key, reference model + oracle on every transition, worker processes; map iteration order inside the implementation is owned by the harness and enumerated: each scenario is explored with ascending and, as <scenario>@desc, with descending key order)"},
            {"name": E2, "path": "harness/internal/verif", "serves_properties": sorted(k for k, c in CHECKS.items() if c["engine"] == E2),
             "kind_free_text": "bounded-exhaustive enumeration of input shapes through the real translation/codec functions, decoded by independent reference decoders"},
            {"name": E3, "path": "harness/internal/verif/vsched", "serves_properties": sorted(set(k for k, c in CHECKS.items() if c["engine"] == E3) | {"C15"}),
             "kind_free_text": "controlled cooperative scheduler over mechanically rewritten channel / timer / go / map-range constructs of the real goroutines (tools/rewrite); iterative preemption-bounded depth-first exploration of all schedules with global-state-key pruning, wait-for-cycle deadlock identification, happens-before data-race oracle (vector clocks + inserted access reports), schedule replay"},
        ],
        "checks": checks,
        "not_applicable": na,
        "notes": "All checks run the implementation itself (no separate model to keep in sync): states/transitions are executions of /repo's current working tree. exit 2 + 'INFRA' = infrastructure error (never a VIOLATION line). known_findings.json lists recorded and fixed defects (replay artefacts of the recorded ones under known_finding_replays/). ./check replay <path> re-executes a stored history (E1) or schedule (E3) without the explorer. /verif/seeded/ holds independently written property-breaking changes with demonstrations; tools/mutest.sh applies one, runs the repository's tests and a check, and reverts. DESIGN.md section 11 describes the machinery as built.",
    }
    with open(os.path.join(V, "MANIFEST.json"), "w") as fh:
        json.dump(m, fh, indent=1)
        fh.write("\n")

if __name__ == "__main__":
    main()
