#!/bin/bash
# tools/regress_seeds.sh [seed-id...] : run every stored seeded change (or the given ones) against the check of
# its property and print one line per seed. Meant to be run from a copy of /verif with VERIF_REPO pointing at a
# scratch clone of the repository, so that it does not disturb work in /repo.
V=$(cd "$(dirname "$0")/.." && pwd)
ids=${@:-$(ls "$V/seeded")}
for s in $ids; do
	p=${s%-*}
	out=$("$V/tools/mutest.sh" "$V/seeded/$s/patch.diff" "$p" quick 2>&1)
	n=$(echo "$out" | grep -c '^VIOLATION')
	infra=$(echo "$out" | grep -c '^INFRA')
	tests=$(echo "$out" | grep -o 'repo tests: [0-9]/4' | head -1)
	sig=$(echo "$out" | grep 'signature:' | head -1 | cut -c1-120)
	echo "$s violations=$n infra=$infra [$tests] $sig"
done
