package main

import (
	"fmt"
	"go/ast"
	"go/token"
	"go/types"
	"path/filepath"
	"strings"

	"golang.org/x/tools/go/ast/astutil"
)

// -races: memory-access instrumentation for the happens-before race oracle of vsched (race.go).
//
// For every statement that sits in a statement list, calls are inserted that report the shared locations the
// statement's own expressions read (before it) or write (after it: the write happens after everything the
// right-hand side did, including channel operations):
//     field of a struct type of this package reached through a pointer   vsched.Acc(&x.f)
//     element of a slice                                                 vsched.Acc(&s[i])
//     map index, range over a map, len(map), delete(map, k)              vsched.AccMap(m)
// Only side-effect-free operand expressions are reported (identifiers, field selections, indexing by such,
// dereferences); the address is computed in a closure under recover, so hoisting it in front of a statement
// that guards or faults on the same dereference changes nothing. Harness files (zz_verif*) are not instrumented.

var racesOn bool

type access struct {
	e     ast.Expr
	isMap bool
	write bool
	label string
}

type raceCollector struct {
	r      *rewriter
	st     ast.Stmt
	before []access
	after  []access
}

func (r *rewriter) racesPass(f *ast.File) {
	if !racesOn || strings.HasPrefix(filepath.Base(r.file), "zz_verif") {
		return
	}
	n := 0
	astutil.Apply(f, func(c *astutil.Cursor) bool {
		st, ok := c.Node().(ast.Stmt)
		if !ok || c.Index() < 0 {
			return true
		}
		col := &raceCollector{r: r, st: st}
		col.stmt(st, true)
		if len(col.before)+len(col.after) == 0 {
			return true
		}
		fn := r.enclosingFull(st)
		seen := map[string]bool{}
		for _, a := range col.before {
			k := fmt.Sprintf("b%v%v%s", a.isMap, a.write, types.ExprString(a.e))
			if seen[k] {
				continue
			}
			seen[k] = true
			c.InsertBefore(r.accStmt(a, fn))
			n++
		}
		for i := len(col.after) - 1; i >= 0; i-- {
			a := col.after[i]
			k := fmt.Sprintf("a%v%v%s", a.isMap, a.write, types.ExprString(a.e))
			if seen[k] {
				continue
			}
			seen[k] = true
			c.InsertAfter(r.accStmt(a, fn))
			n++
		}
		return true
	}, nil)
	if n > 0 {
		r.inv["race-oracle access reports"] += n
		r.changed = true
		astutil.AddImport(r.fset, f, "unsafe")
	}
}

func (r *rewriter) enclosingFull(n ast.Node) string {
	for _, d := range r.cur.Decls {
		if fd, ok := d.(*ast.FuncDecl); ok && fd.Pos() <= n.Pos() && n.End() <= fd.End() {
			name := fd.Name.Name
			if fd.Recv != nil && len(fd.Recv.List) > 0 {
				name = "(" + types.ExprString(fd.Recv.List[0].Type) + ")." + name
			}
			// inside a function literal?
			lit := false
			ast.Inspect(fd.Body, func(x ast.Node) bool {
				if fl, ok := x.(*ast.FuncLit); ok && fl.Pos() <= n.Pos() && n.End() <= fl.End() {
					lit = true
				}
				return !lit
			})
			if lit {
				name += ".func"
			}
			return r.pkgName() + "." + name
		}
	}
	return r.pkgName() + ".?"
}

func (r *rewriter) pkgName() string { return r.cur.Name.Name }

func (r *rewriter) accStmt(a access, fn string) ast.Stmt {
	lit := func(s string) ast.Expr { return &ast.BasicLit{Kind: token.STRING, Value: fmt.Sprintf("%q", s)} }
	w := ast.NewIdent("false")
	if a.write {
		w = ast.NewIdent("true")
	}
	e := copyExpr(a.e)
	if a.isMap {
		body := &ast.FuncLit{Type: &ast.FuncType{Params: &ast.FieldList{}, Results: &ast.FieldList{List: []*ast.Field{{Type: &ast.InterfaceType{Methods: &ast.FieldList{}}}}}},
			Body: &ast.BlockStmt{List: []ast.Stmt{&ast.ReturnStmt{Results: []ast.Expr{e}}}}}
		return &ast.ExprStmt{X: call(vs("AccMap"), body, lit(a.label), lit(fn), w)}
	}
	up := &ast.SelectorExpr{X: ast.NewIdent("unsafe"), Sel: ast.NewIdent("Pointer")}
	body := &ast.FuncLit{Type: &ast.FuncType{Params: &ast.FieldList{}, Results: &ast.FieldList{List: []*ast.Field{{Type: up}}}},
		Body: &ast.BlockStmt{List: []ast.Stmt{&ast.ReturnStmt{Results: []ast.Expr{call(up, &ast.UnaryExpr{Op: token.AND, X: e})}}}}}
	return &ast.ExprStmt{X: call(vs("Acc"), body, lit(a.label), lit(fn), w)}
}

func copyExpr(e ast.Expr) ast.Expr {
	switch x := e.(type) {
	case *ast.Ident:
		return ast.NewIdent(x.Name)
	case *ast.BasicLit:
		return &ast.BasicLit{Kind: x.Kind, Value: x.Value}
	case *ast.SelectorExpr:
		return &ast.SelectorExpr{X: copyExpr(x.X), Sel: ast.NewIdent(x.Sel.Name)}
	case *ast.IndexExpr:
		return &ast.IndexExpr{X: copyExpr(x.X), Index: copyExpr(x.Index)}
	case *ast.StarExpr:
		return &ast.StarExpr{X: copyExpr(x.X)}
	case *ast.ParenExpr:
		return &ast.ParenExpr{X: copyExpr(x.X)}
	}
	panic(fmt.Sprintf("copyExpr: %T", e))
}

// ---- classification --------------------------------------------------------------------------------------

func (c *raceCollector) typeOf(e ast.Expr) types.Type {
	if tv, ok := c.r.info.Types[e]; ok && tv.Type != nil {
		return tv.Type
	}
	if id, ok := e.(*ast.Ident); ok {
		if o := c.r.info.Uses[id]; o != nil {
			return o.Type()
		}
	}
	return nil
}

func under(t types.Type) types.Type {
	if t == nil {
		return nil
	}
	return t.Underlying()
}

// pure: evaluating e has no side effect and involves no call; every identifier is declared outside the statement.
func (c *raceCollector) pure(e ast.Expr) bool {
	switch x := e.(type) {
	case *ast.Ident:
		if x.Name == "_" {
			return false
		}
		o := c.r.info.Uses[x]
		if o == nil {
			return false
		}
		switch o.(type) {
		case *types.Var, *types.Const, *types.PkgName, *types.Nil:
		default:
			return false
		}
		if o.Pos().IsValid() && c.st.Pos() <= o.Pos() && o.Pos() < c.st.End() && o.Pkg() == c.r.pkg {
			return false // declared by the statement itself (if/for/switch initialiser, := ...)
		}
		return true
	case *ast.BasicLit:
		return true
	case *ast.SelectorExpr:
		if id, ok := x.X.(*ast.Ident); ok {
			if _, isPkg := c.r.info.Uses[id].(*types.PkgName); isPkg {
				_, isVar := c.r.info.Uses[x.Sel].(*types.Var)
				_, isConst := c.r.info.Uses[x.Sel].(*types.Const)
				return isVar || isConst
			}
		}
		if sel := c.r.info.Selections[x]; sel == nil || sel.Kind() != types.FieldVal {
			return false
		}
		return c.pure(x.X)
	case *ast.IndexExpr:
		return c.pure(x.X) && c.pure(x.Index)
	case *ast.StarExpr:
		return c.pure(x.X)
	case *ast.ParenExpr:
		return c.pure(x.X)
	}
	return false
}

// shared: the location e denotes can be reached by another goroutine (heap through a pointer, slice backing
// array, package-level variable).
func (c *raceCollector) shared(e ast.Expr) bool {
	switch x := e.(type) {
	case *ast.Ident:
		if v, ok := c.r.info.Uses[x].(*types.Var); ok && v.Parent() == v.Pkg().Scope() {
			return true
		}
		return false
	case *ast.SelectorExpr:
		if _, isPtr := under(c.typeOf(x.X)).(*types.Pointer); isPtr {
			return true
		}
		return c.shared(x.X)
	case *ast.IndexExpr:
		switch under(c.typeOf(x.X)).(type) {
		case *types.Slice:
			return true
		case *types.Array:
			return c.shared(x.X)
		case *types.Pointer: // pointer to array
			return true
		}
		return false
	case *ast.StarExpr:
		return true
	case *ast.ParenExpr:
		return c.shared(x.X)
	}
	return false
}

// addressable (as far as needed here: pure expressions only)
func (c *raceCollector) addressable(e ast.Expr) bool {
	switch x := e.(type) {
	case *ast.Ident:
		_, ok := c.r.info.Uses[x].(*types.Var)
		return ok
	case *ast.SelectorExpr:
		if sel := c.r.info.Selections[x]; sel == nil || sel.Kind() != types.FieldVal {
			_, isVar := c.r.info.Uses[x.Sel].(*types.Var) // pkg.Var
			return isVar
		}
		if _, isPtr := under(c.typeOf(x.X)).(*types.Pointer); isPtr {
			return true
		}
		return c.addressable(x.X)
	case *ast.IndexExpr:
		switch under(c.typeOf(x.X)).(type) {
		case *types.Slice:
			return true
		case *types.Array:
			return c.addressable(x.X)
		case *types.Pointer:
			return true
		}
		return false
	case *ast.StarExpr:
		return true
	case *ast.ParenExpr:
		return c.addressable(x.X)
	}
	return false
}

func (c *raceCollector) fieldLabel(x *ast.SelectorExpr) (string, bool) {
	sel := c.r.info.Selections[x]
	if sel == nil || sel.Kind() != types.FieldVal {
		return "", false
	}
	if sel.Obj().Pkg() != c.r.pkg {
		return "", false // fields of other packages' types: their own business
	}
	t := sel.Recv()
	if p, ok := t.(*types.Pointer); ok {
		t = p.Elem()
	}
	name := t.String()
	if i := strings.LastIndex(name, "/"); i >= 0 {
		name = name[i+1:]
	}
	return name + "." + x.Sel.Name, true
}

func (c *raceCollector) mapLabel(e ast.Expr) string {
	if sx, ok := e.(*ast.SelectorExpr); ok {
		if l, ok := c.fieldLabel(sx); ok {
			return l
		}
	}
	return types.ExprString(e)
}

func (c *raceCollector) add(a access, after bool) {
	if after {
		c.after = append(c.after, a)
	} else {
		c.before = append(c.before, a)
	}
}

// loc reports an access to the location e (field / element), if it qualifies.
func (c *raceCollector) loc(e ast.Expr, write, after bool) {
	for {
		p, ok := e.(*ast.ParenExpr)
		if !ok {
			break
		}
		e = p.X
	}
	switch x := e.(type) {
	case *ast.SelectorExpr:
		label, ok := c.fieldLabel(x)
		if ok && c.pure(x) && c.shared(x) && c.addressable(x) {
			c.add(access{e: x, write: write, label: label}, after)
		}
	case *ast.IndexExpr:
		switch under(c.typeOf(x.X)).(type) {
		case *types.Map:
			if c.pure(x.X) {
				c.add(access{e: x.X, isMap: true, write: write, label: c.mapLabel(x.X)}, after)
			}
		case *types.Slice, *types.Array, *types.Pointer:
			if c.pure(x) && c.shared(x) && c.addressable(x) {
				c.add(access{e: x, write: write, label: "element of " + types.ExprString(x.X)}, after)
			}
		}
	case *ast.StarExpr:
		if c.pure(x) {
			c.add(access{e: x, write: write, label: "*" + types.ExprString(x.X)}, after)
		}
	case *ast.Ident:
		if v, ok := c.r.info.Uses[x].(*types.Var); ok && v.Pkg() == c.r.pkg && v.Parent() == v.Pkg().Scope() {
			c.add(access{e: x, write: write, label: "package variable " + x.Name}, after)
		}
	}
}

// path: e is the operand of a selection / index / address-of: only the loads needed to reach it are reads.
func (c *raceCollector) path(e ast.Expr) {
	switch x := e.(type) {
	case *ast.ParenExpr:
		c.path(x.X)
	case *ast.SelectorExpr:
		switch under(c.typeOf(x)).(type) {
		case *types.Struct, *types.Array:
			if sel := c.r.info.Selections[x]; sel != nil && sel.Kind() == types.FieldVal {
				c.path(x.X) // address arithmetic only
				return
			}
		}
		c.read(x)
	case *ast.IndexExpr:
		c.read(x)
	case *ast.Ident:
	default:
		c.read(e)
	}
}

// read: e is evaluated for its value.
func (c *raceCollector) read(e ast.Expr) {
	switch x := e.(type) {
	case nil:
	case *ast.ParenExpr:
		c.read(x.X)
	case *ast.Ident:
		c.loc(x, false, false)
	case *ast.SelectorExpr:
		if sel := c.r.info.Selections[x]; sel != nil && sel.Kind() == types.FieldVal {
			c.loc(x, false, false)
			c.path(x.X)
		} else if sel != nil { // method value / call receiver
			c.path(x.X)
		}
	case *ast.IndexExpr:
		c.loc(x, false, false)
		c.path(x.X)
		c.read(x.Index)
	case *ast.SliceExpr:
		c.path(x.X)
		c.read(x.Low)
		c.read(x.High)
		c.read(x.Max)
	case *ast.StarExpr:
		c.loc(x, false, false)
		c.read(x.X)
	case *ast.UnaryExpr:
		if x.Op == token.AND {
			c.path(x.X)
		} else {
			c.read(x.X)
		}
	case *ast.BinaryExpr:
		c.read(x.X)
		c.read(x.Y)
	case *ast.TypeAssertExpr:
		c.read(x.X)
	case *ast.KeyValueExpr:
		c.read(x.Value)
	case *ast.CompositeLit:
		for _, el := range x.Elts {
			if kv, ok := el.(*ast.KeyValueExpr); ok {
				if _, isStruct := under(c.typeOf(x)).(*types.Struct); !isStruct {
					c.read(kv.Key)
				}
				c.read(kv.Value)
			} else {
				c.read(el)
			}
		}
	case *ast.CallExpr:
		if id, ok := x.Fun.(*ast.Ident); ok {
			if b, isB := c.r.info.Uses[id].(*types.Builtin); isB {
				switch b.Name() {
				case "delete":
					if len(x.Args) == 2 && c.pure(x.Args[0]) {
						c.add(access{e: x.Args[0], isMap: true, write: true, label: c.mapLabel(x.Args[0])}, false)
					}
					c.read(x.Args[0])
					c.read(x.Args[1])
					return
				case "len", "cap":
					if _, isMap := under(c.typeOf(x.Args[0])).(*types.Map); isMap && c.pure(x.Args[0]) {
						c.add(access{e: x.Args[0], isMap: true, label: c.mapLabel(x.Args[0])}, false)
					}
				case "new", "make":
					for _, a := range x.Args[1:] {
						c.read(a)
					}
					return
				}
				for _, a := range x.Args {
					c.read(a)
				}
				return
			}
		}
		if tv, ok := c.r.info.Types[x.Fun]; ok && tv.IsType() {
			for _, a := range x.Args { // conversion
				c.read(a)
			}
			return
		}
		c.read(x.Fun)
		for _, a := range x.Args {
			c.read(a)
		}
	case *ast.FuncLit, *ast.BasicLit:
	}
}

// write: e is assigned to.
func (c *raceCollector) write(e ast.Expr, alsoRead, after bool) {
	for {
		p, ok := e.(*ast.ParenExpr)
		if !ok {
			break
		}
		e = p.X
	}
	switch x := e.(type) {
	case *ast.Ident:
		c.loc(x, true, after)
	case *ast.SelectorExpr:
		c.loc(x, true, after)
		if alsoRead {
			c.loc(x, false, false)
		}
		c.path(x.X)
	case *ast.IndexExpr:
		c.loc(x, true, after)
		if alsoRead {
			c.loc(x, false, false)
		}
		c.path(x.X)
		c.read(x.Index)
	case *ast.StarExpr:
		c.loc(x, true, after)
		c.read(x.X)
	}
}

// stmt collects the accesses of the statement's OWN expressions (nested statement lists are visited on their own).
func (c *raceCollector) stmt(s ast.Stmt, top bool) {
	switch x := s.(type) {
	case *ast.ExprStmt:
		c.read(x.X)
	case *ast.AssignStmt:
		for _, r := range x.Rhs {
			c.read(r)
		}
		for _, l := range x.Lhs {
			if x.Tok == token.DEFINE {
				if id, ok := l.(*ast.Ident); ok && c.r.info.Defs[id] != nil {
					continue
				}
			}
			c.write(l, x.Tok != token.ASSIGN && x.Tok != token.DEFINE, top)
		}
	case *ast.IncDecStmt:
		c.write(x.X, true, top)
	case *ast.SendStmt:
		c.read(x.Chan)
		c.read(x.Value)
	case *ast.ReturnStmt:
		for _, r := range x.Results {
			c.read(r)
		}
	case *ast.IfStmt:
		if x.Init != nil {
			c.stmt(x.Init, false)
		}
		c.read(x.Cond)
	case *ast.ForStmt:
		if x.Init != nil {
			c.stmt(x.Init, false)
		}
		c.read(x.Cond)
	case *ast.RangeStmt:
		if _, isMap := under(c.typeOf(x.X)).(*types.Map); isMap && c.pure(x.X) {
			c.add(access{e: x.X, isMap: true, label: c.mapLabel(x.X)}, false)
		}
		c.read(x.X)
	case *ast.SwitchStmt:
		if x.Init != nil {
			c.stmt(x.Init, false)
		}
		c.read(x.Tag)
	case *ast.TypeSwitchStmt:
		if x.Init != nil {
			c.stmt(x.Init, false)
		}
		switch a := x.Assign.(type) {
		case *ast.ExprStmt:
			c.read(a.X)
		case *ast.AssignStmt:
			for _, r := range a.Rhs {
				c.read(r)
			}
		}
	case *ast.DeferStmt:
		c.read(x.Call)
	case *ast.GoStmt:
		c.read(x.Call)
	case *ast.DeclStmt:
		if gd, ok := x.Decl.(*ast.GenDecl); ok && gd.Tok == token.VAR {
			for _, sp := range gd.Specs {
				if vsp, ok := sp.(*ast.ValueSpec); ok {
					for _, v := range vsp.Values {
						c.read(v)
					}
				}
			}
		}
	case *ast.LabeledStmt:
		c.stmt(x.Stmt, top)
	}
}
