module verif/rewrite

go 1.22.0

toolchain go1.23.5

require golang.org/x/tools v0.29.0
