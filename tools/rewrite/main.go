// rewrite: mechanical redirection of channel, goroutine, timer and ticker operations of go-upf packages to the
// vsched cooperative scheduler (engine E3). Purely syntactic-plus-types; fails loudly (exit 2) on a construct it
// cannot translate. Everything else is printed unchanged.
//
// usage: rewrite -repo /repo -overlay overlay.json -out DIR -inventory FILE pkgdir...
// For every package directory the non-test .go files of the repository and the overlay-added files of that
// directory are type-checked together and written, rewritten, to DIR/<pkgdir>/<file>.
package main

import (
	"bytes"
	"encoding/json"
	"flag"
	"fmt"
	"go/ast"
	"go/format"
	"go/importer"
	"go/parser"
	"go/token"
	"go/types"
	"io"
	"os"
	"os/exec"
	"path/filepath"
	"sort"
	"strings"

	"golang.org/x/tools/go/ast/astutil"
)

const vsPath = "github.com/free5gc/go-upf/internal/verif/vsched"

var mapOnly bool

func die(f string, a ...interface{}) {
	fmt.Fprintf(os.Stderr, "rewrite: "+f+"\n", a...)
	os.Exit(2)
}

type inventory map[string]int

func main() {
	repo := flag.String("repo", "/repo", "repository root")
	overlayPath := flag.String("overlay", "", "go build overlay (harness files)")
	out := flag.String("out", "", "output root")
	invPath := flag.String("inventory", "", "write the construct inventory here")
	tags := flag.String("tags", "verif,vsched", "build tags")
	flag.BoolVar(&racesOn, "races", false, "insert memory-access reports for the happens-before race oracle")
	accessOnly := flag.String("accessonly", "", "comma-separated packages that get ONLY the access reports of -races (their channel / go / timer constructs stay as they are: their goroutines are not managed)")
	flag.BoolVar(&mapOnly, "maponly", false, "rewrite ONLY range-over-map statements (deterministic, harness-chosen iteration order for the free-running flavours)")
	flag.Parse()
	if *out == "" || flag.NArg() == 0 {
		die("usage")
	}
	overlay := map[string]string{}
	if *overlayPath != "" {
		b, err := os.ReadFile(*overlayPath)
		if err != nil {
			die("%v", err)
		}
		var o struct{ Replace map[string]string }
		if err := json.Unmarshal(b, &o); err != nil {
			die("%v", err)
		}
		overlay = o.Replace
	}
	// export data of all dependencies (built with the overlay so that harness-only packages resolve)
	args := []string{"list", "-export", "-deps", "-json=ImportPath,Export", "-tags", *tags}
	if *overlayPath != "" {
		args = append(args, "-overlay", *overlayPath)
	}
	for _, p := range flag.Args() {
		args = append(args, "./"+p)
	}
	cmd := exec.Command("go", args...)
	cmd.Dir = *repo
	cmd.Env = append(os.Environ(), "GOFLAGS=-mod=readonly")
	var stderr bytes.Buffer
	cmd.Stderr = &stderr
	outb, err := cmd.Output()
	if err != nil {
		die("go list: %v\n%s", err, stderr.String())
	}
	exports := map[string]string{}
	dec := json.NewDecoder(bytes.NewReader(outb))
	for {
		var p struct{ ImportPath, Export string }
		if err := dec.Decode(&p); err == io.EOF {
			break
		} else if err != nil {
			die("go list output: %v", err)
		}
		exports[p.ImportPath] = p.Export
	}
	fset := token.NewFileSet()
	imp := importer.ForCompiler(fset, "gc", func(path string) (io.ReadCloser, error) {
		f, ok := exports[path]
		if !ok || f == "" {
			return nil, fmt.Errorf("no export data for %s", path)
		}
		return os.Open(f)
	})
	inv := inventory{}
	for _, pkgdir := range flag.Args() {
		rewritePkg(fset, imp, *repo, pkgdir, overlay, *out, strings.Split(*tags, ","), inv, false)
	}
	if racesOn && *accessOnly != "" {
		for _, pkgdir := range strings.Split(*accessOnly, ",") {
			rewritePkg(fset, imp, *repo, pkgdir, overlay, *out, strings.Split(*tags, ","), inv, true)
		}
	}
	if *invPath != "" {
		b, _ := json.MarshalIndent(inv, "", " ")
		_ = os.WriteFile(*invPath, b, 0o644)
	}
	var keys []string
	for k := range inv {
		keys = append(keys, k)
	}
	sort.Strings(keys)
	for _, k := range keys {
		fmt.Printf("rewrite: %-28s %d\n", k, inv[k])
	}
}

func tagOK(src []byte, tags []string) bool {
	// minimal //go:build evaluation for the forms used here: "verif", "verif && !vsched", "verif && vsched"
	for _, l := range strings.Split(string(src), "\n") {
		l = strings.TrimSpace(l)
		if strings.HasPrefix(l, "package ") {
			break
		}
		if !strings.HasPrefix(l, "//go:build ") {
			continue
		}
		expr := strings.TrimPrefix(l, "//go:build ")
		has := func(t string) bool {
			for _, x := range tags {
				if x == t {
					return true
				}
			}
			return false
		}
		ok := true
		for _, term := range strings.Split(expr, "&&") {
			term = strings.TrimSpace(term)
			if strings.HasPrefix(term, "!") {
				if has(strings.TrimPrefix(term, "!")) {
					ok = false
				}
			} else if !has(term) {
				ok = false
			}
		}
		return ok
	}
	return true
}

func rewritePkg(fset *token.FileSet, imp types.Importer, repo, pkgdir string, overlay map[string]string, out string, tags []string, inv inventory, accessOnly bool) {
	dir := filepath.Join(repo, pkgdir)
	srcs := map[string]string{} // logical path -> real path
	ents, err := os.ReadDir(dir)
	if err != nil {
		die("%v", err)
	}
	for _, e := range ents {
		n := e.Name()
		if strings.HasSuffix(n, ".go") && !strings.HasSuffix(n, "_test.go") {
			srcs[filepath.Join(dir, n)] = filepath.Join(dir, n)
		}
	}
	for logical, real := range overlay {
		if filepath.Dir(logical) == dir && strings.HasSuffix(logical, ".go") && !strings.HasSuffix(logical, "_test.go") {
			srcs[logical] = real
		}
	}
	var files []*ast.File
	var names []string
	for logical, real := range srcs {
		b, err := os.ReadFile(real)
		if err != nil {
			die("%v", err)
		}
		if !tagOK(b, tags) {
			continue
		}
		f, err := parser.ParseFile(fset, logical, b, parser.ParseComments)
		if err != nil {
			die("parse %s: %v", real, err)
		}
		files = append(files, f)
		names = append(names, logical)
	}
	info := &types.Info{Types: map[ast.Expr]types.TypeAndValue{}, Uses: map[*ast.Ident]types.Object{}, Defs: map[*ast.Ident]types.Object{},
		Selections: map[*ast.SelectorExpr]*types.Selection{}}
	conf := types.Config{Importer: imp, Error: func(err error) {}}
	tpkg, err := conf.Check(pkgdir, fset, files, info)
	if err != nil {
		die("type-check %s: %v", pkgdir, err)
	}
	for i, f := range files {
		rw := &rewriter{fset: fset, info: info, inv: inv, file: names[i], pkg: tpkg}
		if mapOnly {
			rw.skip = map[ast.Node]bool{}
			rw.cur = f
			astutil.Apply(f, nil, func(c *astutil.Cursor) bool {
				if x, ok := c.Node().(*ast.RangeStmt); ok {
					rw.mapRange(x)
				}
				return true
			})
			if !rw.changed {
				continue
			}
			astutil.AddNamedImport(fset, f, "vsched", vsPath)
		} else if accessOnly {
			rw.skip = map[ast.Node]bool{}
			rw.cur = f
			rw.racesPass(f)
			if !rw.changed {
				continue // untouched file: the original is compiled
			}
			astutil.AddNamedImport(fset, f, "vsched", vsPath)
		} else {
			rw.file2(f)
		}
		var buf bytes.Buffer
		if err := format.Node(&buf, fset, f); err != nil {
			die("print %s: %v", names[i], err)
		}
		rel, _ := filepath.Rel(repo, names[i])
		dst := filepath.Join(out, rel)
		_ = os.MkdirAll(filepath.Dir(dst), 0o755)
		if err := os.WriteFile(dst, buf.Bytes(), 0o644); err != nil {
			die("%v", err)
		}
	}
}

type rewriter struct {
	fset    *token.FileSet
	info    *types.Info
	inv     inventory
	file    string
	changed bool
	cur     *ast.File
	skip    map[ast.Node]bool // comm-clause operations handled by the select rewrite
	pkg     *types.Package
	n       int
}

func (r *rewriter) isChan(e ast.Expr) bool {
	tv, ok := r.info.Types[e]
	if !ok || tv.Type == nil {
		return false
	}
	_, ok = tv.Type.Underlying().(*types.Chan)
	return ok
}

func (r *rewriter) pos(n ast.Node) string {
	p := r.fset.Position(n.Pos())
	return fmt.Sprintf("%s:%d", filepath.Base(p.Filename), p.Line)
}

func vs(name string) ast.Expr {
	return &ast.SelectorExpr{X: ast.NewIdent("vsched"), Sel: ast.NewIdent(name)}
}

func call(fn ast.Expr, args ...ast.Expr) *ast.CallExpr { return &ast.CallExpr{Fun: fn, Args: args} }

func isRecv(e ast.Expr) (*ast.UnaryExpr, bool) {
	for {
		if p, ok := e.(*ast.ParenExpr); ok {
			e = p.X
			continue
		}
		break
	}
	u, ok := e.(*ast.UnaryExpr)
	return u, ok && u.Op == token.ARROW
}

func (r *rewriter) timePkgObj(e ast.Expr, names ...string) (string, bool) {
	sel, ok := e.(*ast.SelectorExpr)
	if !ok {
		return "", false
	}
	obj := r.info.Uses[sel.Sel]
	if obj == nil || obj.Pkg() == nil || obj.Pkg().Path() != "time" {
		return "", false
	}
	// package-level objects only (time.After the function, not the method time.Time.After)
	if id, isID := sel.X.(*ast.Ident); !isID {
		return "", false
	} else if _, isPkg := r.info.Uses[id].(*types.PkgName); !isPkg {
		return "", false
	}
	for _, n := range names {
		if obj.Name() == n {
			return n, true
		}
	}
	return "", false
}

func (r *rewriter) file2(f *ast.File) {
	r.skip = map[ast.Node]bool{}
	r.cur = f
	r.racesPass(f)
	// pass 1: mark comm-clause operations, reject what cannot be translated
	ast.Inspect(f, func(n ast.Node) bool {
		switch x := n.(type) {
		case *ast.SelectStmt:
			for _, c := range x.Body.List {
				cc := c.(*ast.CommClause)
				switch s := cc.Comm.(type) {
				case nil:
				case *ast.SendStmt:
					r.skip[s] = true
				case *ast.ExprStmt:
					if u, ok := isRecv(s.X); ok {
						r.skip[u] = true
					} else {
						die("%s: select case is not a channel operation", r.pos(s))
					}
				case *ast.AssignStmt:
					if u, ok := isRecv(s.Rhs[0]); ok && len(s.Rhs) == 1 {
						r.skip[u] = true
						r.skip[s] = true
					} else {
						die("%s: select case is not a receive", r.pos(s))
					}
				}
			}
		case *ast.CallExpr:
			if sel, ok := x.Fun.(*ast.SelectorExpr); ok {
				if id, ok := sel.X.(*ast.Ident); ok && id.Name == "reflect" && sel.Sel.Name == "Select" {
					die("%s: reflect.Select cannot be translated", r.pos(x))
				}
			}
		}
		return true
	})
	astutil.Apply(f, nil, func(c *astutil.Cursor) bool {
		n := c.Node()
		switch x := n.(type) {
		case *ast.SendStmt:
			if r.skip[x] {
				return true
			}
			r.inv["send"]++
			c.Replace(&ast.ExprStmt{X: call(vs("Send"), x.Chan, x.Value)})
			r.changed = true
		case *ast.UnaryExpr:
			if x.Op != token.ARROW || r.skip[x] {
				return true
			}
			// receive in a single-value context (two-value forms are rewritten at their statement)
			if as, ok := c.Parent().(*ast.AssignStmt); ok && len(as.Lhs) == 2 && len(as.Rhs) == 1 {
				r.inv["recv2"]++
				c.Replace(call(vs("Recv2"), x.X))
			} else if vsp, ok := c.Parent().(*ast.ValueSpec); ok && len(vsp.Names) == 2 && len(vsp.Values) == 1 {
				r.inv["recv2"]++
				c.Replace(call(vs("Recv2"), x.X))
			} else {
				r.inv["recv"]++
				c.Replace(call(vs("Recv1"), x.X))
			}
			r.changed = true
		case *ast.GoStmt:
			r.inv["go"]++
			r.n++
			var list []ast.Stmt
			fn := ast.NewIdent(fmt.Sprintf("vs_f%d", r.n))
			list = append(list, &ast.AssignStmt{Lhs: []ast.Expr{fn}, Tok: token.DEFINE, Rhs: []ast.Expr{x.Call.Fun}})
			var args []ast.Expr
			for i, a := range x.Call.Args {
				id := ast.NewIdent(fmt.Sprintf("vs_a%d_%d", r.n, i))
				list = append(list, &ast.AssignStmt{Lhs: []ast.Expr{id}, Tok: token.DEFINE, Rhs: []ast.Expr{a}})
				args = append(args, id)
			}
			if x.Call.Ellipsis.IsValid() {
				die("%s: go statement with a variadic spread", r.pos(x))
			}
			name := exprName(x.Call.Fun)
			if name == "func" {
				name = "goroutine-in-" + r.enclosing(x)
			}
			body := &ast.FuncLit{Type: &ast.FuncType{Params: &ast.FieldList{}}, Body: &ast.BlockStmt{List: []ast.Stmt{&ast.ExprStmt{X: call(fn, args...)}}}}
			list = append(list, &ast.ExprStmt{X: call(vs("Go"), &ast.BasicLit{Kind: token.STRING, Value: fmt.Sprintf("%q", name)}, body)})
			c.Replace(&ast.BlockStmt{List: list})
			r.changed = true
		case *ast.RangeStmt:
			if r.mapRange(x) {
				return true
			}
			if !r.isChan(x.X) {
				return true
			}
			r.inv["range-over-chan"]++
			key := x.Key
			if key == nil {
				key = ast.NewIdent("_")
			}
			ok := ast.NewIdent("vs_ok")
			tok := token.DEFINE
			recv := &ast.AssignStmt{Lhs: []ast.Expr{key, ok}, Tok: tok, Rhs: []ast.Expr{call(vs("Recv2"), x.X)}}
			brk := &ast.IfStmt{Cond: &ast.UnaryExpr{Op: token.NOT, X: ok}, Body: &ast.BlockStmt{List: []ast.Stmt{&ast.BranchStmt{Tok: token.BREAK}}}}
			body := &ast.BlockStmt{List: append([]ast.Stmt{recv, brk}, x.Body.List...)}
			c.Replace(&ast.ForStmt{Body: body})
			r.changed = true
		case *ast.SelectStmt:
			r.inv["select"]++
			c.Replace(r.selectStmt(x))
			r.changed = true
		case *ast.CallExpr:
			if id, ok := x.Fun.(*ast.Ident); ok && len(x.Args) == 1 && r.isChan(x.Args[0]) {
				if obj, isB := r.info.Uses[id].(*types.Builtin); isB {
					switch obj.Name() {
					case "close":
						r.inv["close"]++
						x.Fun = vs("Close")
						r.changed = true
					case "len":
						r.inv["len(chan)"]++
						x.Fun = vs("Len")
						r.changed = true
					case "cap":
						r.inv["cap(chan)"]++
						x.Fun = vs("Cap")
						r.changed = true
					}
				}
			}
			if n, ok := r.timePkgObj(x.Fun, "AfterFunc", "NewTicker", "NewTimer", "After"); ok {
				if n == "NewTimer" {
					die("%s: time.NewTimer is not supported by the scheduler", r.pos(x))
				}
				r.inv["time."+n]++
				x.Fun = vs(n)
				r.changed = true
			}
		case *ast.SelectorExpr:
			if n, ok := r.timePkgObj(x, "Timer", "Ticker"); ok {
				if _, isType := r.info.Uses[x.Sel].(*types.TypeName); isType {
					r.inv["time."+n+" type"]++
					c.Replace(vs(n))
					r.changed = true
				}
			}
		}
		return true
	})
	// OS-blocking reads: bracket the statement with ExtBegin / ExtEnd
	astutil.Apply(f, nil, func(c *astutil.Cursor) bool {
		st, ok := c.Node().(ast.Stmt)
		if !ok || c.Index() < 0 {
			return true
		}
		switch st.(type) {
		case *ast.AssignStmt, *ast.ExprStmt:
		default:
			return true
		}
		found := false
		ast.Inspect(st, func(n ast.Node) bool {
			if _, isLit := n.(*ast.FuncLit); isLit {
				return false
			}
			if ce, ok := n.(*ast.CallExpr); ok {
				if sel, ok := ce.Fun.(*ast.SelectorExpr); ok && (sel.Sel.Name == "ReadFrom" || sel.Sel.Name == "ReadFromUDP") {
					if tv, ok := r.info.Types[sel.X]; ok && tv.Type != nil && strings.Contains(tv.Type.String(), "net.") {
						found = true
					}
				}
			}
			return true
		})
		if found {
			r.inv["os-blocking read"]++
			c.InsertBefore(&ast.ExprStmt{X: call(vs("ExtBegin"))})
			c.InsertAfter(&ast.ExprStmt{X: call(vs("ExtEnd"))})
			r.changed = true
		}
		return true
	})
	if r.changed {
		astutil.AddNamedImport(r.fset, f, "vsched", vsPath)
		// "time" may have lost its only uses
		for _, im := range f.Imports {
			if im.Path.Value == `"time"` && im.Name == nil {
				f.Decls = append(f.Decls, &ast.GenDecl{Tok: token.VAR, Specs: []ast.Spec{&ast.ValueSpec{Names: []*ast.Ident{ast.NewIdent("_")}, Values: []ast.Expr{&ast.SelectorExpr{X: ast.NewIdent("time"), Sel: ast.NewIdent("Now")}}}}})
			}
		}
	}
}

// mapRange rewrites  for k, v := range m  (m a map) into an iteration over vsched.MapEntries(m).
func (r *rewriter) mapRange(x *ast.RangeStmt) bool {
	if tv, ok := r.info.Types[x.X]; ok && tv.Type != nil {
		if _, isMap := tv.Type.Underlying().(*types.Map); isMap && !strings.HasPrefix(filepath.Base(r.file), "zz_verif") {
			// for k, v := range m  ->  for _, e := range vsched.MapEntries(m) { if !e.Live() { continue }; k, v := e.K, e.Val(); ... }
			r.inv["range-over-map"]++
			r.n++
			e := ast.NewIdent(fmt.Sprintf("vs_e%d", r.n))
			pre := []ast.Stmt{&ast.IfStmt{Cond: &ast.UnaryExpr{Op: token.NOT, X: call(&ast.SelectorExpr{X: e, Sel: ast.NewIdent("Live")})},
				Body: &ast.BlockStmt{List: []ast.Stmt{&ast.BranchStmt{Tok: token.CONTINUE}}}}}
			named := func(ex ast.Expr) bool {
				if ex == nil {
					return false
				}
				id, isID := ex.(*ast.Ident)
				return !isID || id.Name != "_"
			}
			var lhs, rhs []ast.Expr
			if named(x.Key) {
				lhs = append(lhs, x.Key)
				rhs = append(rhs, &ast.SelectorExpr{X: e, Sel: ast.NewIdent("K")})
			}
			if named(x.Value) {
				lhs = append(lhs, x.Value)
				rhs = append(rhs, call(&ast.SelectorExpr{X: e, Sel: ast.NewIdent("Val")}))
			}
			if len(lhs) > 0 {
				pre = append(pre, &ast.AssignStmt{Lhs: lhs, Tok: x.Tok, Rhs: rhs})
				if x.Tok == token.DEFINE {
					// the loop variables may be unused in the body only if they were "_": nothing to do
				}
			}
			x.Body.List = append(pre, x.Body.List...)
			x.Key, x.Value, x.Tok = ast.NewIdent("_"), e, token.DEFINE
			x.X = call(vs("MapEntries"), x.X)
			r.changed = true
			return true
		}
	}
	return false
}

// enclosing returns the name of the function declaration that contains n.
func (r *rewriter) enclosing(n ast.Node) string {
	for _, d := range r.cur.Decls {
		if fd, ok := d.(*ast.FuncDecl); ok && fd.Pos() <= n.Pos() && n.End() <= fd.End() {
			return fd.Name.Name
		}
	}
	return "?"
}

func exprName(e ast.Expr) string {
	switch x := e.(type) {
	case *ast.Ident:
		return x.Name
	case *ast.SelectorExpr:
		return exprName(x.X) + "." + x.Sel.Name
	case *ast.FuncLit:
		return "func"
	}
	return "call"
}

func (r *rewriter) selectStmt(s *ast.SelectStmt) ast.Stmt {
	r.n++
	iv, vv, okv := ast.NewIdent(fmt.Sprintf("vs_i%d", r.n)), ast.NewIdent(fmt.Sprintf("vs_v%d", r.n)), ast.NewIdent(fmt.Sprintf("vs_ok%d", r.n))
	hasDef := false
	var cases []ast.Expr
	var clauses []ast.Stmt
	idx := 0
	use := &ast.AssignStmt{Lhs: []ast.Expr{ast.NewIdent("_"), ast.NewIdent("_")}, Tok: token.ASSIGN, Rhs: []ast.Expr{vv, okv}}
	for _, c := range s.Body.List {
		cc := c.(*ast.CommClause)
		var body []ast.Stmt
		body = append(body, use)
		switch cm := cc.Comm.(type) {
		case nil:
			hasDef = true
			clauses = append(clauses, &ast.CaseClause{List: nil, Body: append(body, cc.Body...)})
			continue
		case *ast.SendStmt:
			cases = append(cases, call(vs("SendCase"), cm.Chan, cm.Value))
		case *ast.ExprStmt:
			u, _ := isRecv(cm.X)
			cases = append(cases, call(vs("RecvCase"), u.X))
		case *ast.AssignStmt:
			u, _ := isRecv(cm.Rhs[0])
			cases = append(cases, call(vs("RecvCase"), u.X))
			rhs := []ast.Expr{call(vs("As"), u.X, vv)}
			if len(cm.Lhs) == 2 {
				rhs = append(rhs, okv)
			}
			body = append(body, &ast.AssignStmt{Lhs: cm.Lhs, Tok: cm.Tok, Rhs: rhs})
			// a receive whose value is not used afterwards must not trip "declared and not used"
			if cm.Tok == token.DEFINE {
				for _, l := range cm.Lhs {
					if id, ok := l.(*ast.Ident); ok && id.Name != "_" {
						body = append(body, &ast.AssignStmt{Lhs: []ast.Expr{ast.NewIdent("_")}, Tok: token.ASSIGN, Rhs: []ast.Expr{ast.NewIdent(id.Name)}})
					}
				}
			}
		}
		clauses = append(clauses, &ast.CaseClause{List: []ast.Expr{&ast.BasicLit{Kind: token.INT, Value: fmt.Sprint(idx)}}, Body: append(body, cc.Body...)})
		idx++
	}
	def := "false"
	if hasDef {
		def = "true"
	}
	args := append([]ast.Expr{ast.NewIdent(def)}, cases...)
	init := &ast.AssignStmt{Lhs: []ast.Expr{iv, vv, okv}, Tok: token.DEFINE, Rhs: []ast.Expr{call(vs("Select"), args...)}}
	return &ast.SwitchStmt{Init: init, Tag: iv, Body: &ast.BlockStmt{List: clauses}}
}
