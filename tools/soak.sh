#!/bin/bash
# tools/soak.sh [rounds] [ids...] : run the quick tier of every (or the given) property repeatedly on the unchanged
# tree and list every run that did not end with exit 0 and no VIOLATION line. A check that alarms here is broken.
cd "$(dirname "$0")/.." || exit 2
rounds=${1:-3}; shift
ids=${@:-$(python3 -c 'import json;print(" ".join(c["property_id"] for c in json.load(open("MANIFEST.json"))["checks"]))')}
log=.build/soak.$(date +%H%M%S).log
bad=0
for r in $(seq 1 "$rounds"); do
	for id in $ids; do
		t0=$(date +%s)
		out=$(./check "$id" quick 2>&1); rc=$?
		t1=$(date +%s)
		v=$(echo "$out" | grep -c '^VIOLATION')
		echo "round=$r $id rc=$rc violations=$v wall=$((t1-t0))s" | tee -a "$log"
		if [ $rc -ne 0 ] || [ "$v" -ne 0 ]; then bad=$((bad+1)); echo "$out" | tail -20 >> "$log"; fi
	done
done
echo "soak: $bad bad runs (log $log)"
[ $bad -eq 0 ]
