#!/bin/bash
# tools/confirm_seed.sh <name> <worktree> <patch> <demo-file-relative> <go test args...>
# Confirms in the scratch worktree that the demonstration fails with the change and passes without it, and
# that the repository's own tests still pass with the change; then stores it under /verif/seeded/<name>/.
set -u
name=$1; wt=$2; patch=$3; demo=$4; shift 4
export GOFLAGS=-mod=mod GOPROXY=off GOSUMDB=off GOTOOLCHAIN=local
cd "$wt" || exit 2
cp "$demo" /var/tmp/demo.$$.go
# the patch may live (untracked) inside the worktree that is cleaned next
cp "$patch" /var/tmp/patch.$$.diff; patch=/var/tmp/patch.$$.diff
git checkout -q -- . ; git clean -fdq
git apply "$patch" || { echo "patch does not apply"; exit 2; }
cp /var/tmp/demo.$$.go "$demo"
go build ./... || { echo "BUILD FAILS with change"; exit 1; }
with=$(go test -vet=off -count=1 "$@" 2>&1 | tail -3)
echo "$with" | grep -q "^FAIL" && wres=FAIL || wres=PASS
mv "$demo" /var/tmp/demo.$$.go
suite=$(go test -vet=off -count=1 ./internal/pfcp/ ./internal/report/ ./internal/gtpv1/ ./internal/forwarder/perio/ 2>&1 | grep -c "^ok")
fsub=$(go test -vet=off -count=1 -run 'TestParseFlowDesc|Test_convertSlice' ./internal/forwarder/ 2>&1 | grep -c "^ok")
git checkout -q -- .
cp /var/tmp/demo.$$.go "$demo"
without=$(go test -vet=off -count=1 "$@" 2>&1 | tail -3)
echo "$without" | grep -q "^ok" && ores=PASS || ores=FAIL
echo "$name: demo with change=$wres without=$ores; repo tests with change: $suite/4 packages ok, forwarder subset ok=$fsub"
if [ "$wres" = FAIL ] && [ "$ores" = PASS ] && [ "$suite" = 4 ] && [ "$fsub" = 1 ]; then
	mkdir -p /verif/seeded/$name
	cp "$patch" /verif/seeded/$name/patch.diff
	cp "$demo" /verif/seeded/$name/$(basename "$demo")
	echo CONFIRMED
else
	echo NOT-CONFIRMED; echo "$with"; echo "$without"
fi
rm -f /var/tmp/demo.$$.go /var/tmp/patch.$$.diff "$demo"
