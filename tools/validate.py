#!/usr/bin/env python3
"""Validate MANIFEST.json and every evidence file against the schemas in /root/.vp (run with python3-vt)."""
import json, sys, glob, os
import jsonschema
ok = True
def check(path, schema):
    global ok
    try:
        jsonschema.validate(json.load(open(path)), json.load(open(schema)))
        print("ok   ", path)
    except Exception as e:
        ok = False
        print("FAIL ", path, str(e).splitlines()[0])
check("/verif/MANIFEST.json", "/root/.vp/MANIFEST.schema.json")
for p in sorted(glob.glob("/verif/evidence/*.json")):
    check(p, "/root/.vp/EVIDENCE.schema.json")
m = json.load(open("/verif/MANIFEST.json"))
claimed = {c["property_id"] for c in m["checks"]}
na = {c["property_id"] for c in m.get("not_applicable", [])}
props = [json.loads(l)["id"] for l in open("/verif/properties.jsonl")]
for p in props:
    if p not in claimed and p not in na:
        ok = False; print("FAIL  property", p, "neither claimed nor not_applicable")
    if p in claimed and p in na:
        ok = False; print("FAIL  property", p, "both claimed and not_applicable")
sys.exit(0 if ok else 1)
