#!/bin/bash
# tools/mutest.sh <patch.diff> <Cnn> [tier] : apply a property-breaking change to the repository (VERIF_REPO, default
# /repo), run the repository's own tests (they must still pass), run the check (it must report a VIOLATION), and
# undo the change.
set -u
patch=$1; id=$2; tier=${3:-quick}
V=$(cd "$(dirname "$0")/.." && pwd)
R=${VERIF_REPO:-/repo}
export GOFLAGS=-mod=mod GOPROXY=off GOSUMDB=off GOTOOLCHAIN=local
cd "$R" || exit 2
if ! git diff --quiet; then echo "repo dirty"; exit 2; fi
git apply "$patch" || { echo "patch does not apply"; exit 2; }
trap 'git -C "$R" checkout -- . ' EXIT
tests=$( (go build ./... && go test -vet=off -count=1 ./internal/pfcp/ ./internal/report/ ./internal/gtpv1/ ./internal/forwarder/perio/ 2>&1 | grep -c "^ok") )
ft=$(go test -vet=off -count=1 -run 'TestParseFlowDesc|Test_convertSlice' ./internal/forwarder/ 2>&1 | grep -c "^ok")
echo "repo tests: $tests/4 packages ok, forwarder subset ok=$ft"
cd "$V" && VERIF_REPO=$R ./check "$id" "$tier" 2>&1 | grep -E "^(VIOLATION|KNOWN|INFRA|C[0-9]+ )|signature" | cut -c1-300
