#!/usr/bin/env python3
"""Generate a go build overlay mapping /verif/harness/<rel> -> /repo/<rel>.
Extra "generated" trees (e.g. vsched-rewritten sources) can be layered on top:
  gen_overlay.py OUT.json [EXTRA_ROOT ...]
Files under an EXTRA_ROOT map to /repo/<rel> as well and take precedence."""
import json, os, sys
REPO = os.environ.get("VERIF_REPO", "/repo")
out = sys.argv[1]
roots = [os.path.join(os.path.dirname(os.path.dirname(os.path.abspath(__file__))), "harness")] + sys.argv[2:]
repl = {}
for root in roots:
    for d, _, fs in os.walk(root):
        for f in fs:
            if not (f.endswith(".go") or f.endswith(".s")):
                continue
            p = os.path.join(d, f)
            rel = os.path.relpath(p, root)
            repl[os.path.join(REPO, rel)] = p
tmp = out + ".%d.tmp" % os.getpid()
with open(tmp, "w") as fh:
    json.dump({"Replace": repl}, fh, indent=1, sort_keys=True)
os.replace(tmp, out)
