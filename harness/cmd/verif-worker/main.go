//go:build verif && !vsched

// verif-worker: entry point of all checks; compiled into /repo's module by -overlay (nothing is written to /repo).
package main

import (
	"fmt"
	"os"
	"strings"

	"github.com/free5gc/go-upf/internal/verif/c07"
	"github.com/free5gc/go-upf/internal/verif/c14"
	"github.com/free5gc/go-upf/internal/verif/c16"
	"github.com/free5gc/go-upf/internal/verif/c19"
	"github.com/free5gc/go-upf/internal/verif/c20"
	"github.com/free5gc/go-upf/internal/verif/e3host"
	"github.com/free5gc/go-upf/internal/verif/fworld"
	"github.com/free5gc/go-upf/internal/verif/pworld"
	"github.com/free5gc/go-upf/internal/verif/racepass"
	"github.com/free5gc/go-upf/internal/verif/seqx"
	"github.com/free5gc/go-upf/internal/verif/sworld"
	"github.com/free5gc/go-upf/internal/verif/xlate"
)

var checks = map[string]func(tier string){
	"C01": sworld.RunC01,
	"C02": xlate.RunC02,
	"C03": xlate.RunC03,
	"C04": sworld.RunC04,
	"C05": sworld.RunC05,
	"C06": sworld.RunC06,
	"C07": c07.RunC07,
	"C08": sworld.RunC08,
	"C09": sworld.RunC09,
	"C11": sworld.RunC11,
	"C12": sworld.RunC12,
	"C10": fworld.RunC10,
	"C13": fworld.RunC13,
	"C14": c14.Run,
	"C15": pworld.Run,
	"C16": c16.Run,
	"C17": e3host.RunC17,
	"C18": e3host.RunC18,
	"C19": c19.Run,
	"C20": c20.Run,
}

func main() {
	// the check script hands us a private copy of the binary; remove it as soon as we run
	if strings.Contains(os.Args[0], ".run.") {
		_ = os.Remove(os.Args[0])
	}
	if len(os.Args) < 2 {
		fmt.Println("usage: verif-worker check <id> <tier> | replay <path> | <internal sub-commands>")
		os.Exit(2)
	}
	switch os.Args[1] {
	case "check":
		if len(os.Args) < 4 {
			fmt.Println("usage: verif-worker check <id> <tier>")
			os.Exit(2)
		}
		f, ok := checks[os.Args[2]]
		if !ok {
			fmt.Printf("INFRA no check registered for %s\n", os.Args[2])
			os.Exit(2)
		}
		f(os.Args[3])
	case "replay":
		n := 1
		if len(os.Args) > 3 {
			fmt.Sscan(os.Args[3], &n)
		}
		os.Exit(seqx.ReplayMain(os.Args[2], n))
	case "diverge":
		n := 20
		if len(os.Args) > 3 {
			fmt.Sscan(os.Args[3], &n)
		}
		os.Exit(seqx.DivergeMain(os.Args[2], n))
	case "racepass":
		n, seed := 50, int64(1)
		if len(os.Args) > 2 {
			fmt.Sscan(os.Args[2], &n)
		}
		if len(os.Args) > 3 {
			fmt.Sscan(os.Args[3], &seed)
		}
		os.Exit(racepass.Main(n, seed))
	case "seqx":
		seqx.WorkerMain(os.Args[2:])
	default:
		fmt.Printf("INFRA unknown sub-command %q\n", os.Args[1])
		os.Exit(2)
	}
}
