//go:build verif && vsched

// verif-worker (vsched flavour): runs the E3 explorations on the rewritten sources.
package main

import (
	"fmt"
	"os"
	"strings"

	"github.com/free5gc/go-upf/internal/verif/e3"
)

func main() {
	if strings.Contains(os.Args[0], ".run.") {
		_ = os.Remove(os.Args[0])
	}
	if len(os.Args) < 2 {
		fmt.Println("usage: verif-worker(vs) selftest | e3 <scenario> <tier> [args]")
		os.Exit(2)
	}
	switch os.Args[1] {
	case "selftest":
		os.Exit(e3.SelfTest())
	case "e3":
		if len(os.Args) < 4 {
			fmt.Println("usage: e3 <property> <tier>")
			os.Exit(2)
		}
		only := -1
		if len(os.Args) > 4 {
			fmt.Sscan(os.Args[4], &only)
		}
		os.Exit(e3.Main(os.Args[2], os.Args[3], only))
	case "e3replay":
		if len(os.Args) < 3 {
			fmt.Println("INFRA usage: e3replay <path>")
			os.Exit(2)
		}
		os.Exit(e3.Replay(os.Args[2]))
	default:
		fmt.Printf("INFRA unknown sub-command %q\n", os.Args[1])
		os.Exit(2)
	}
}
