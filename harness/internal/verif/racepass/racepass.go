//go:build verif && !vsched

// Package racepass: the free-running complement of C17. The cooperative scheduler of engine E3 orders every
// access through its hand-offs and thereby blinds the race detector; the same kind of scenario is therefore run
// on the UNREWRITTEN code with real goroutines under `go build -race`. This is not model checking (schedules are
// whatever the runtime produces); it does not decide the property and is reported separately.
package racepass

import (
	"fmt"
	"math/rand"
	"os"
	"sync"
	"time"

	"github.com/free5gc/go-upf/internal/pfcp"
	"github.com/free5gc/go-upf/internal/verif/mdp"
	"github.com/free5gc/go-upf/internal/verif/netx"
	"github.com/free5gc/go-upf/internal/verif/smf"
	"github.com/free5gc/go-upf/internal/verif/sworldlite"
	"github.com/free5gc/go-upf/pkg/factory"
)

// Main: worker-race racepass <iterations> <seed>
func Main(iters int, seed int64) int {
	rng := rand.New(rand.NewSource(seed))
	blk := netx.Get()
	var socks [4]*netx.Sock
	for i := range socks {
		socks[i] = netx.Listen(blk.IP(2+i), 8805)
	}
	upf := &netAddr{blk.IP(1).String() + ":8805"}
	_ = upf
	for it := 0; it < iters; it++ {
		shortTimers := it%3 == 0
		cfg := &factory.Config{Version: "1.0.3", Pfcp: &factory.Pfcp{Addr: blk.IP(1).String(), NodeID: blk.IP(1).String(), RetransTimeout: time.Hour, MaxRetrans: 1},
			Gtpu: &factory.Gtpu{Forwarder: "gtp5g"}, Logger: &factory.Logger{Level: "fatal"}}
		if shortTimers {
			cfg.Pfcp.RetransTimeout = 2 * time.Millisecond
		}
		v, err := pfcp.VStart(cfg, mdp.New())
		if err != nil {
			fmt.Println("INFRA", err)
			return 2
		}
		var wg sync.WaitGroup
		nPeers := 2 + rng.Intn(3)
		for p := 0; p < nPeers; p++ {
			wg.Add(1)
			go func(p int, r *rand.Rand) {
				defer wg.Done()
				ip := blk.IP(2 + p).String()
				send := func(b []byte) {
					_, _ = socks[p].Conn.WriteToUDP(b, v.Addr())
					time.Sleep(time.Duration(r.Intn(300)) * time.Microsecond)
				}
				seq := uint32(1)
				next := func() uint32 { seq++; return seq }
				send(smf.Assoc(next(), ip))
				est := smf.Est(next(), ip, true, 0x10, ip, smf.RuleOp{Verb: 'C', Kind: 'F', ID: 1, MInfo: -1}, smf.RuleOp{Verb: 'C', Kind: 'U', ID: 1, MInfo: -1},
					smf.RuleOp{Verb: 'C', Kind: 'P', ID: 1, FAR: 1, URRs: []uint32{1}, MInfo: -1})
				send(est)
				send(est) // duplicate
				for k := 0; k < 3; k++ {
					send(smf.Mod(next(), uint64(1+r.Intn(3)), "", smf.RuleOp{Verb: 'Q', Kind: 'U', ID: 1, MInfo: -1}))
					send(smf.Heartbeat(next()))
				}
				send(smf.Del(next(), uint64(1+r.Intn(3))))
			}(p, rand.New(rand.NewSource(rng.Int63())))
		}
		nProd := 2 + rng.Intn(7)
		stopProd := make(chan struct{})
		for k := 0; k < nProd; k++ {
			wg.Add(1)
			go func(r *rand.Rand) {
				defer wg.Done()
				defer func() { _ = recover() }() // a post racing the shutdown panics on the closed channel: E3's finding, not this pass's
				for i := 0; i < 6; i++ {
					select {
					case <-stopProd:
						return
					default:
					}
					v.S.NotifySessReport(sworldlite.UsageReportFor(uint64(1+r.Intn(3)), 2, 1))
					time.Sleep(time.Duration(r.Intn(200)) * time.Microsecond)
				}
			}(rand.New(rand.NewSource(rng.Int63())))
		}
		if shortTimers {
			// let every transaction timer run off before stopping: a timer callback racing the shutdown is E3's
			// business and would kill this process
			wg.Wait()
			time.Sleep(30 * time.Millisecond)
		} else {
			time.Sleep(time.Duration(rng.Intn(3000)) * time.Microsecond) // the stop request lands at a random point
		}
		close(stopProd)
		v.Stop()
		wg.Wait()
		for _, s := range socks {
			s.Drain()
		}
	}
	fmt.Fprintf(os.Stderr, "RACEPASS iterations=%d seed=%d done\n", iters, seed)
	return 0
}

type netAddr struct{ s string }
