//go:build verif && vsched

package e3

import (
	"fmt"

	"github.com/free5gc/go-upf/internal/report"
	"github.com/free5gc/go-upf/internal/verif/smf"
	"github.com/free5gc/go-upf/internal/verif/sworldlite"
	"github.com/free5gc/go-upf/internal/verif/vsched"
)

// C17 (ordering / termination half) — concurrent peers, report producers, transaction timers and Stop.
//
// Set-up (unrecorded): peer A associates and establishes a session with URR 1. Concurrently then:
//   peer-A     a Modification (Query URR 1) followed by a byte-identical duplicate
//   peer-B     a Heartbeat Request
//   producer-k k report producers, each posting one usage report for the session through NotifySessReport
//              (as the buffering listener and the periodic server do); each forwarded report starts a
//              retransmission timer whose expiry is a scheduler transition (fire budget)
//   stop       (variant "stop") Stop(), as app.go does, at whatever point the schedule puts it
// Oracle: no panic in any thread (e.g. a send on a channel the loop closed while shutting down), no deadlock,
// after Stop every thread of the UPF has terminated and no transaction timer is left armed, and no notification
// is served twice.

type c17Params struct {
	Name      string
	Producers int
	Peers     int // 0: none, 1: peer A (Modification + duplicate), 2: also peer B (Heartbeat)
	Stop      bool
	Fire      int  // timer expiries the scheduler may take
	PreReport bool // a report has already been forwarded during set-up (its retransmission timer is armed)
	Rsp       bool // peer A answers that outstanding Session Report Request (needs PreReport): response vs. expiry
}

func (p c17Params) String() string {
	if p.Rsp {
		return fmt.Sprintf("%s: producers=%d peers=%d stop=%v timer-fires=%d pre-report=%v report-response=true", p.Name, p.Producers, p.Peers, p.Stop, p.Fire, p.PreReport)
	}
	return fmt.Sprintf("%s: producers=%d peers=%d stop=%v timer-fires=%d pre-report=%v", p.Name, p.Producers, p.Peers, p.Stop, p.Fire, p.PreReport)
}

// peerSend delivers a datagram as the receiver goroutine would. A datagram "arriving" after the loop has shut
// down is simply never read in reality (the receiver has exited by then), so that case is dropped here.
func peerSend(w *world, i int, b []byte) {
	defer func() {
		if p := recover(); p != nil {
			if fmt.Sprint(p) != "send on closed channel" {
				panic(p)
			}
		}
	}()
	w.send(i, b)
}

func c17Body(p c17Params) func(x *vsched.Exec) {
	return func(x *vsched.Exec) {
		w := newWorld(x, false, 1)
		x.V["w"] = w
		x.V["p"] = p
		var up uint64
		vsched.Setup(func() {
			w.send(0, smf.Assoc(w.nextSeq(0), w.peerIP(0)))
			w.send(0, smf.Est(w.nextSeq(0), w.peerIP(0), true, 0x10, w.peerIP(0),
				smf.RuleOp{Verb: 'C', Kind: 'F', ID: 1, MInfo: -1}, smf.RuleOp{Verb: 'C', Kind: 'U', ID: 1, MInfo: -1},
				smf.RuleOp{Verb: 'C', Kind: 'P', ID: 1, FAR: 1, URRs: []uint32{1}, MInfo: -1}))
		})
		for _, m := range w.repliesWait(0, 2)[0] {
			if f, _, ok := m.FSEID(); ok && m.Type == smf.MEstRsp {
				up = f
			}
		}
		if up == 0 {
			x.V["infra"] = "set-up: no session"
			return
		}
		if p.PreReport {
			vsched.Setup(func() { w.v.S.NotifySessReport(sworldlite.UsageReportFor(up, 2, 1)) })
			var rseq uint32
			found := false
			for _, m := range w.repliesWait(0, 1)[0] {
				if m.Type == smf.MReportReq {
					rseq, found = m.Seq, true
				}
			}
			if p.Rsp {
				if !found {
					x.V["infra"] = "set-up: the Session Report Request did not reach the peer"
					return
				}
				vsched.GoHarness("peer-A-rsp", func() { peerSend(w, 0, smf.ReportRsp(rseq, up, smf.CauseAccepted)) })
			}
		}
		vsched.SetKeyFn(func() string { return w.v.Summary() })
		if p.Peers >= 1 {
			vsched.GoHarness("peer-A", func() {
				q := smf.Mod(w.nextSeq(0), up, "", smf.RuleOp{Verb: 'Q', Kind: 'U', ID: 1, MInfo: -1})
				peerSend(w, 0, q)
				peerSend(w, 0, q)
			})
		}
		if p.Peers >= 2 || p.Rsp {
			vsched.GoHarness("peer-B", func() { peerSend(w, 1, smf.Heartbeat(w.nextSeq(1))) })
		}
		for k := 0; k < p.Producers; k++ {
			k := k
			vsched.GoHarness(fmt.Sprintf("producer-%d", k+1), func() {
				sr := sworldlite.UsageReportFor(up, 2, 1)
				sr.Reports[0] = withMarker(sr.Reports[0], uint64(k+1))
				w.v.S.NotifySessReport(sr)
				x.V[fmt.Sprintf("accepted-%d", k+1)] = true
			})
		}
		if p.Stop {
			vsched.GoHarness("stop", func() {
				w.v.S.Stop()
				vsched.AwaitExternalReturn()
				x.V["stopped"] = true
			})
		}
	}
}

func withMarker(r report.Report, k uint64) report.Report {
	u := r.(report.USAReport)
	u.VolumMeasure.TotalVolume = 0x7700 + k
	return u
}

func c17Check(x *vsched.Exec, r vsched.Result) []vsched.Finding {
	if s, ok := x.V["infra"].(string); ok {
		return []vsched.Finding{{Sig: "INFRA:setup", What: s}}
	}
	if f := noProgress(r); f != nil {
		return f
	}
	w, _ := x.V["w"].(*world)
	p, _ := x.V["p"].(c17Params)
	if w == nil || r.Truncated || r.Diverged != "" {
		return nil
	}
	return w.settle(func(rep [3][]*smf.Msg) []vsched.Finding {
		var fs []vsched.Finding
		// no notification served twice: each marker appears in at most one Session Report Request (a retransmission
		// is byte-identical and counted once per distinct sequence number)
		seen := map[uint64]map[uint32]bool{}
		for _, m := range rep[0] {
			if m.Type != smf.MReportReq {
				continue
			}
			for _, u := range m.UsageReports() {
				if seen[u.Vol[0]] == nil {
					seen[u.Vol[0]] = map[uint32]bool{}
				}
				seen[u.Vol[0]][m.Seq] = true
			}
		}
		for mk, seqs := range seen {
			if len(seqs) > 1 {
				fs = append(fs, vsched.Finding{Sig: "notification-served-twice", What: fmt.Sprintf("the usage report with marker %#x was forwarded in %d different Session Report Requests", mk, len(seqs))})
			}
		}
		if len(r.Panics) > 0 || r.Deadlock != "" {
			return fs
		}
		if p.Stop {
			if _, ok := x.V["stopped"]; ok {
				if r.Left > 0 {
					fs = append(fs, vsched.Finding{Sig: "stop-leaves-threads", What: fmt.Sprintf("after Stop %d thread(s) of the UPF have not terminated: %v", r.Left, r.Idle)})
				}
				if r.Armed > 0 {
					fs = append(fs, vsched.Finding{Sig: "stop-leaves-timers", What: fmt.Sprintf("%d transaction timer(s) still armed after the server stopped", r.Armed)})
				}
			}
		} else {
			// without Stop every accepted notification must have been served exactly once
			for k := 1; k <= p.Producers; k++ {
				if _, acc := x.V[fmt.Sprintf("accepted-%d", k)]; acc && len(seen[0x7700+uint64(k)]) != 1 {
					fs = append(fs, vsched.Finding{Sig: "notification-not-served", What: fmt.Sprintf("the notification of producer %d was accepted but forwarded %d times", k, len(seen[0x7700+uint64(k)]))})
				}
			}
			hb := countType(rep[1], smf.MHeartbeatRsp)
			mods := countType(rep[0], smf.MModRsp)
			wantHB, wantMods := 0, 0
			if p.Peers >= 1 {
				wantMods = 2
			}
			if p.Peers >= 2 || p.Rsp {
				wantHB = 1
			}
			if hb != wantHB || mods != wantMods {
				fs = append(fs, vsched.Finding{Sig: "request-unanswered", What: fmt.Sprintf("heartbeat responses %d (want 1), modification responses %d (want 2: original and the re-sent copy)", hb, mods)})
			}
		}
		x.V["outcome"] = fmt.Sprintf("reports=%d mods=%d hb=%d left=%d armed=%d", len(seen), countType(rep[0], smf.MModRsp), countType(rep[1], smf.MHeartbeatRsp), r.Left, r.Armed)
		return fs
	})
}

func c17Scenarios(tier string) []struct {
	P     c17Params
	Bound int
	Max   int
} {
	type sc = struct {
		P     c17Params
		Bound int
		Max   int
	}
	out := []sc{
		{c17Params{Name: "traffic", Producers: 1, Peers: 2}, 2, 0},
		{c17Params{Name: "traffic-2p", Producers: 2, Peers: 1, Fire: 1}, 2, 0},
		{c17Params{Name: "stop-vs-producer", Producers: 1, Stop: true}, 3, 0},
		{c17Params{Name: "stop-vs-producers", Producers: 2, Stop: true}, 3, 0},
		{c17Params{Name: "stop-vs-timer", PreReport: true, Stop: true, Fire: 1}, 3, 0},
		{c17Params{Name: "stop-vs-timer+producer", PreReport: true, Producers: 1, Stop: true, Fire: 1}, 2, 0},
		{c17Params{Name: "stop-vs-traffic", Producers: 1, Peers: 1, Stop: true}, 2, 0},
		{c17Params{Name: "stop-vs-peers", Peers: 2, Stop: true}, 2, 0},
		{c17Params{Name: "response-vs-expiry", PreReport: true, Rsp: true, Fire: 1}, 3, 0},
	}
	if tier == "thorough" {
		out = []sc{
			{c17Params{Name: "traffic", Producers: 2, Peers: 2, Fire: 1}, 3, 0},
			{c17Params{Name: "traffic-3p", Producers: 3, Peers: 2}, 2, 0},
			{c17Params{Name: "stop-vs-producers", Producers: 2, Stop: true}, 4, 0},
			{c17Params{Name: "stop-vs-3producers", Producers: 3, Stop: true}, 3, 0},
			{c17Params{Name: "stop-vs-timers", PreReport: true, Producers: 1, Stop: true, Fire: 2}, 3, 0},
			{c17Params{Name: "stop-vs-timers+2p", PreReport: true, Producers: 2, Stop: true, Fire: 3}, 2, 0},
			{c17Params{Name: "stop-vs-traffic", Producers: 2, Peers: 2, Stop: true, Fire: 1}, 2, 0},
			{c17Params{Name: "stop-vs-traffic-1p", Producers: 1, Peers: 2, Stop: true}, 2, 0},
			{c17Params{Name: "stop-vs-traffic-timer", Producers: 1, Peers: 1, Stop: true, Fire: 1}, 3, 0},
			{c17Params{Name: "stop-vs-peers", Peers: 2, Stop: true}, 3, 0},
			{c17Params{Name: "response-vs-expiry", PreReport: true, Rsp: true, Peers: 1, Fire: 2}, 3, 0},
		}
	}
	return out
}

// c17RaceScenarios: instances for the race oracle (every access of every schedule is checked).
// Keys=false: plain preemption-bounded enumeration, nothing pruned (pairs of activities, small);
// Keys=true: larger mixes with state-key pruning, the key extended by which thread kinds touched which locations.
func c17RaceScenarios(tier string) []struct {
	P     c17Params
	Bound int
	Keys  bool
} {
	type sc = struct {
		P     c17Params
		Bound int
		Keys  bool
	}
	out := []sc{
		{c17Params{Name: "peer+producer", Producers: 1, Peers: 1}, 1, false},
		{c17Params{Name: "producer+timer", PreReport: true, Producers: 1, Fire: 1}, 1, false},
		{c17Params{Name: "peer+timer", PreReport: true, Peers: 1, Fire: 1}, 1, false},
		{c17Params{Name: "stop+producer", Producers: 1, Stop: true}, 2, false},
		{c17Params{Name: "stop+timer", PreReport: true, Stop: true, Fire: 1}, 2, false},
		{c17Params{Name: "stop+peer", Peers: 1, Stop: true}, 1, false},
		{c17Params{Name: "traffic", Producers: 1, Peers: 2, Fire: 1}, 2, true},
		{c17Params{Name: "stop-vs-all", PreReport: true, Producers: 1, Peers: 1, Stop: true, Fire: 1}, 2, true},
	}
	if tier == "thorough" {
		out = append(out, []sc{
			{c17Params{Name: "peers", Peers: 2}, 2, false},
			{c17Params{Name: "peer+producer+timer", PreReport: true, Producers: 1, Peers: 1, Fire: 1}, 2, false},
			{c17Params{Name: "traffic-2p", Producers: 2, Peers: 2, Fire: 2}, 3, true},
			{c17Params{Name: "timers", PreReport: true, Producers: 1, Peers: 2, Fire: 3}, 3, true},
			{c17Params{Name: "stop-vs-all-2p", PreReport: true, Producers: 2, Peers: 2, Stop: true, Fire: 2}, 2, true},
		}...)
	}
	return out
}

// ---- ingress: datagrams through the real socket ---------------------------------------------------------------
//
// Peer A sends n Heartbeat Requests with distinct sequence numbers to the UPF's real UDP socket, back to back. The
// receiver goroutine (its read performed inline whenever a datagram is already queued) and the loop are
// interleaved in every way: the receiver may have read and queued all n datagrams before the loop looks at the
// first. Oracle: every request is answered exactly once under its own sequence number ("the receiver goroutine
// only copies datagrams into a channel").

type c17IngressParams struct{ N int }

func (p c17IngressParams) String() string {
	return fmt.Sprintf("ingress: %d datagrams back to back", p.N)
}

func c17IngressBody(p c17IngressParams) func(x *vsched.Exec) {
	return func(x *vsched.Exec) {
		w := newWorld(x, false, 1)
		x.V["w"] = w
		x.V["n"] = p.N
		vsched.ExtProbe = w.v.Pending
		vsched.Setup(func() {}) // the loop listens, the receiver is parked in its read
		vsched.SetKeyFn(func() string { return w.v.Summary() })
		vsched.GoHarness("peer-A", func() {
			for k := 0; k < p.N; k++ {
				if !w.sendUDP(0, smf.Heartbeat(uint32(1000+k))) {
					x.V["infra"] = "datagram not delivered"
					return
				}
				vsched.Yield() // the next datagram may also arrive later
			}
		})
	}
}

func c17IngressCheck(x *vsched.Exec, r vsched.Result) []vsched.Finding {
	if s, ok := x.V["infra"].(string); ok {
		return []vsched.Finding{{Sig: "INFRA:setup", What: s}}
	}
	if f := noProgress(r); f != nil {
		return f
	}
	w, _ := x.V["w"].(*world)
	if w == nil || r.Truncated || r.Diverged != "" || len(r.Panics) > 0 || r.Deadlock != "" {
		return nil
	}
	n := x.V["n"].(int)
	return w.settle(func(rep [3][]*smf.Msg) []vsched.Finding {
		got := map[uint32]int{}
		for _, m := range rep[0] {
			if m.Type == smf.MHeartbeatRsp {
				got[m.Seq]++
			}
		}
		var fs []vsched.Finding
		var l []string
		for k := 0; k < n; k++ {
			c := got[uint32(1000+k)]
			l = append(l, fmt.Sprint(c))
			if c == 0 {
				fs = append(fs, vsched.Finding{Sig: "request-unanswered:ingress", What: fmt.Sprintf("heartbeat %d of %d sent back to back got no response (responses per request: %v)", k+1, n, got)})
			} else if c > 1 {
				fs = append(fs, vsched.Finding{Sig: "request-answered-twice:ingress", What: fmt.Sprintf("heartbeat %d of %d sent back to back got %d responses (responses per request: %v)", k+1, n, c, got)})
			}
		}
		x.V["outcome"] = fmt.Sprint(l)
		return fs
	})
}
