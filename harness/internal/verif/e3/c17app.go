//go:build verif && vsched

package e3

import (
	"fmt"

	"github.com/free5gc/go-upf/internal/verif/smf"
	"github.com/free5gc/go-upf/internal/verif/vsched"
)

// C17, shutdown of the whole UPF as pkg/app does it (listenShutdownEvent): pfcpServer.Stop() followed by
// driver.Close(), on the real gtp5g driver over the simulated kernel with the real periodic server - while a
// request that registers a periodic URR is in flight and the period's ticker may tick.
// Oracle: no panic, no deadlock; once the shutdown thread has returned, no thread of the UPF is left, no ticker
// and no timer is armed.

type c17AppParams struct {
	Peer  bool // an Establishment with a periodic URR is in flight
	Ticks int
}

func (p c17AppParams) String() string {
	return fmt.Sprintf("app-shutdown: est-in-flight=%v ticks=%d", p.Peer, p.Ticks)
}

func c17AppBody(p c17AppParams) func(x *vsched.Exec) {
	return func(x *vsched.Exec) {
		w := newWorld(x, true, 1)
		x.V["w"] = w
		n := 0
		vsched.Setup(func() {
			w.send(0, smf.Assoc(w.nextSeq(0), w.peerIP(0)))
			w.send(0, smf.Est(w.nextSeq(0), w.peerIP(0), true, 0x10, w.peerIP(0), estOps(1)...))
		})
		for _, m := range w.repliesWait(0, 2)[0] {
			if _, _, ok := m.FSEID(); ok && m.Type == smf.MEstRsp {
				n++
			}
		}
		if n != 1 {
			x.V["infra"] = "set-up: no session"
			return
		}
		vsched.SetKeyFn(func() string { return w.v.Summary() + w.g.VPerio().VSummary() })
		if p.Peer {
			vsched.GoHarness("peer-A", func() {
				peerSend(w, 0, smf.Est(w.nextSeq(0), w.peerIP(0), true, 0x11, w.peerIP(0), estOps(1)...))
			})
		}
		vsched.GoHarness("shutdown", func() {
			w.v.S.Stop()
			vsched.AwaitExternalReturn() // the blocked ReadFrom has returned; WHEN the receiver goes on is the scheduler's choice
			w.g.VClose()
			x.V["stopped"] = true
		})
	}
}

func c17AppCheck(x *vsched.Exec, r vsched.Result) []vsched.Finding {
	if s, ok := x.V["infra"].(string); ok {
		return []vsched.Finding{{Sig: "INFRA:setup", What: s}}
	}
	if f := noProgress(r); f != nil {
		return f
	}
	if r.Truncated || r.Diverged != "" || len(r.Panics) > 0 || r.Deadlock != "" {
		return nil
	}
	var fs []vsched.Finding
	if _, ok := x.V["stopped"]; ok {
		if r.Left > 0 {
			fs = append(fs, vsched.Finding{Sig: "shutdown-leaves-threads", What: fmt.Sprintf("after Stop + driver Close %d thread(s) of the UPF have not terminated: %v", r.Left, r.Idle)})
		}
		if r.Armed > 0 || r.TickersOn > 0 {
			fs = append(fs, vsched.Finding{Sig: "shutdown-leaves-timers", What: fmt.Sprintf("%d timer(s) and %d ticker(s) still armed after the shutdown", r.Armed, r.TickersOn)})
		}
	}
	x.V["outcome"] = fmt.Sprintf("left=%d armed=%d tick=%d", r.Left, r.Armed, r.TickersOn)
	return fs
}
