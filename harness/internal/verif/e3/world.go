//go:build verif && vsched

package e3

import (
	"net"
	"runtime"
	"sync"
	"time"

	"github.com/khirono/go-nl"

	"github.com/free5gc/go-upf/internal/forwarder"
	"github.com/free5gc/go-upf/internal/logger"
	"github.com/free5gc/go-upf/internal/pfcp"
	"github.com/free5gc/go-upf/internal/verif/evid"
	"github.com/free5gc/go-upf/internal/verif/mdp"
	"github.com/free5gc/go-upf/internal/verif/netx"
	"github.com/free5gc/go-upf/internal/verif/simk"
	"github.com/free5gc/go-upf/internal/verif/smf"
	"github.com/free5gc/go-upf/internal/verif/vsched"
	"github.com/free5gc/go-upf/pkg/factory"
)

var peers [3]*netx.Sock

func peerSocks() [3]*netx.Sock {
	if peers[0] == nil {
		b := netx.Get()
		for i := range peers {
			peers[i] = netx.Listen(b.IP(2+i), 8805)
		}
	}
	for _, p := range peers {
		p.Drain()
	}
	return peers
}

// world is one UPF under the scheduler: rewritten PFCP server (+ rewritten periodic server when the real gtp5g
// driver is used), unrewritten driver and simulated kernel.
type world struct {
	blk   *netx.Block
	peers [3]*netx.Sock
	wg    sync.WaitGroup
	v     *pfcp.VServer
	d     *mdp.MDP
	k     *simk.Kernel
	g     *forwarder.Gtp5g
	udp   *net.UDPConn
	seq   [3]uint32
	inbox [3][]*smf.Msg // what settle has collected so far
}

func cfgFor(blk *netx.Block, maxRetrans uint8) *factory.Config {
	return &factory.Config{Version: "1.0.3",
		Pfcp:   &factory.Pfcp{Addr: blk.IP(1).String(), NodeID: blk.IP(1).String(), RetransTimeout: time.Hour, MaxRetrans: maxRetrans},
		Gtpu:   &factory.Gtpu{Forwarder: "gtp5g"},
		Logger: &factory.Logger{Level: "fatal"}}
}

// newWorld must be called from a managed thread. full: real gtp5g driver over the simulated kernel.
func newWorld(x *vsched.Exec, full bool, maxRetrans uint8) *world {
	pfcp.VQuietLog()
	logger.Log.ExitFunc = func(int) { vsched.Crash(pfcp.VFatalMsg()) } // os.Exit: the process is gone
	w := &world{blk: netx.Get(), peers: peerSocks()}
	for i := range w.seq {
		w.seq[i] = 1
	}
	var drv forwarder.Driver
	if full {
		w.k = simk.New()
		udp, err := net.ListenUDP("udp4", &net.UDPAddr{IP: w.blk.IP(1), Port: 0})
		if err != nil {
			evid.Infra("bind: %v", err)
		}
		w.udp = udp
		g, err := forwarder.VNewGtp5g(&w.wg, func() nl.Conner { return w.k.NewConn() }, int(w.k.FamilyID), int(w.k.LinkIndex), udp)
		if err != nil {
			evid.Infra("gtp5g: %v", err)
		}
		w.g = g
		drv = g
	} else {
		w.d = mdp.New()
		drv = w.d
	}
	w.v = pfcp.VSStart(cfgFor(w.blk, maxRetrans), drv, &w.wg)
	vsched.Name(w.v.RcvCh(), "rcvCh")
	vsched.Name(w.v.SrCh(), "srCh")
	vsched.Name(w.v.TrToCh(), "trToCh")
	if w.g != nil {
		vsched.Name(w.g.VPerio().VEvtCh(), "perio.evtCh")
	}
	x.Cleanup = append(x.Cleanup, w.cleanup)
	return w
}

// cleanup runs outside the scheduler, after the execution has ended: only OS resources are released.
func (w *world) cleanup() {
	vsched.ExtProbe = nil
	if w.k != nil {
		w.k.OnRequest = nil
	}
	w.v.CloseConn()
	if w.g != nil {
		w.g.VCloseRaw()
		w.k.CloseAll()
	}
	for _, p := range w.peers {
		p.Drain()
	}
}

func (w *world) peerIP(i int) string { return w.blk.IP(2 + i).String() }

// send delivers a datagram from peer i to the event loop as the receiver goroutine would (a send on rcvCh).
func (w *world) send(i int, b []byte) { w.v.InjectPacket(w.peers[i].Addr(), b) }

// sendUDP sends a datagram from peer i to the UPF's real socket and returns once it has been DELIVERED: either the
// receiver, blocked in its read, has returned with it, or the socket's receive queue has grown. (What the
// receiver and the loop then do with it, and when, is the scheduler's choice.)
func (w *world) sendUDP(i int, b []byte) bool {
	addr := w.v.LocalAddr()
	if addr == nil {
		return false
	}
	blocked := vsched.ExternalThreads() > 0
	q0 := netx.RxQueue(addr)
	if _, err := w.peers[i].Conn.WriteToUDP(b, addr); err != nil {
		return false
	}
	for n := 0; n < 200000; n++ {
		if blocked {
			if vsched.ExternalThreads() == 0 {
				return true
			}
		} else if netx.RxQueue(addr) > q0 {
			return true
		}
		if n > 1000 {
			time.Sleep(50 * time.Microsecond)
		} else {
			runtime.Gosched()
		}
	}
	return false
}

// settle judges what the peers have received. Responses travel over the loopback and can lag behind the end of
// an execution when the machine is loaded, so a verdict that finds something wrong is re-evaluated on everything
// received by then after short waits (20 ms doubling, about 1.3 s in all) before it stands. Only a violating
// execution pays for the wait.
func (w *world) settle(f func(rep [3][]*smf.Msg) []vsched.Finding) []vsched.Finding {
	var fs []vsched.Finding
	for try := 0; try < 7; try++ {
		more := w.replies()
		for k := range w.inbox {
			w.inbox[k] = append(w.inbox[k], more[k]...)
		}
		if fs = f(w.inbox); len(fs) == 0 {
			break
		}
		time.Sleep(time.Duration(20<<try) * time.Millisecond)
	}
	return fs
}

// repliesWait drains the peers' sockets until peer i has at least n messages or a second has passed (loopback
// delivery can lag behind under load; a response that never comes costs that second).
func (w *world) repliesWait(i, n int) [3][]*smf.Msg {
	out := w.replies()
	for t := 0; len(out[i]) < n && t < 200; t++ {
		time.Sleep(5 * time.Millisecond)
		more := w.replies()
		for k := range out {
			out[k] = append(out[k], more[k]...)
		}
	}
	return out
}

func (w *world) nextSeq(i int) uint32 { s := w.seq[i]; w.seq[i]++; return s }

// replies drains the peers' sockets: decoded messages per peer.
func (w *world) replies() [3][]*smf.Msg {
	var out [3][]*smf.Msg
	for i, p := range w.peers {
		for _, raw := range p.Drain() {
			if m, err := smf.Parse(raw); err == nil {
				out[i] = append(out[i], m)
			}
		}
	}
	return out
}
