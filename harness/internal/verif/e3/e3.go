//go:build verif && vsched

// Package e3: the scenarios explored under the vsched scheduler (C15 part 2, C17, C18).
package e3

import (
	"fmt"

	"github.com/free5gc/go-upf/internal/verif/vsched"
)

func SelfTest() int {
	f := vsched.SelfTest()
	for _, x := range f {
		fmt.Println("SELFTEST FAIL:", x)
	}
	if len(f) == 0 {
		fmt.Println("vsched self-tests ok")
		return 0
	}
	return 2
}
