//go:build verif && vsched

package e3

import (
	"fmt"
	"strings"
	"time"

	"github.com/free5gc/go-upf/internal/report"

	"github.com/free5gc/go-upf/internal/verif/simk"
	"github.com/free5gc/go-upf/internal/verif/smf"
	"github.com/free5gc/go-upf/internal/verif/vsched"
)

// C18 — the control loop cannot be wedged by bursts of reports or rule changes.
//
// Scenario S(N, U, Kevt, Ksr, bulk): N sessions of node A, each with U periodic URRs of one period, are set up
// (unrecorded prologue); the virtual capacities of the periodic server's event queue and of the report queue
// are then set to Kevt and Ksr (the source constants are untouched). Concurrently: peer A issues the bulk
// operation (re-association | N deletions | N more establishments), the period's ticker may tick (budget 2),
// a kernel REPORT notification for M sessions arrives, and peer B sends a Heartbeat Request.
// Oracle: no deadlock (no thread blocked in a send when nothing can move), and at the end every request has
// its response at the peer.

const period = 3600 * time.Second

type c18Params struct {
	N, U, Kevt, Ksr int
	Q               int    // bufburst: scaled capacity of the per-PDR buffer queue
	Lat             bool   // every data-plane (netlink) call is a scheduling point: calls of arbitrary latency
	Bulk            string // "reassoc", "delete", "establish"
	M               int    // sessions in the kernel report batch (0: none)
	HB              bool   // a Heartbeat Request from peer B is in flight as well
	Ticks           int
}

func (p c18Params) String() string {
	if p.Bulk == "bufburst" {
		return fmt.Sprintf("N=%d U=%d Ksr=%d bulk=bufburst packets=%d Qbuf=%d hb=%v ticks=%d", p.N, p.U, p.Ksr, p.M, p.Q, p.HB, p.Ticks)
	}
	if p.Lat {
		return fmt.Sprintf("N=%d U=%d Kevt=%d Ksr=%d bulk=%s batch=%d hb=%v ticks=%d data-plane-latency=any", p.N, p.U, p.Kevt, p.Ksr, p.Bulk, p.M, p.HB, p.Ticks)
	}
	if p.Kevt == 0 {
		return fmt.Sprintf("N=%d U=%d Kevt=512(real) Ksr=128(real) bulk=%s batch=%d hb=%v ticks=%d", p.N, p.U, p.Bulk, p.M, p.HB, p.Ticks)
	}
	return fmt.Sprintf("N=%d U=%d Kevt=%d Ksr=%d bulk=%s batch=%d hb=%v ticks=%d", p.N, p.U, p.Kevt, p.Ksr, p.Bulk, p.M, p.HB, p.Ticks)
}

func estOps(U int) []smf.RuleOp {
	ops := []smf.RuleOp{{Verb: 'C', Kind: 'F', ID: 1, MInfo: -1}}
	var urrs []uint32
	for u := 1; u <= U; u++ {
		ops = append(ops, smf.RuleOp{Verb: 'C', Kind: 'U', ID: uint32(u), Method: 2, Trig: []byte{0x01, 0x00}, Period: uint32(period / time.Second), MInfo: -1})
		urrs = append(urrs, uint32(u))
	}
	ops = append(ops, smf.RuleOp{Verb: 'C', Kind: 'P', ID: 1, FAR: 1, SrcIf: 1, URRs: urrs, MInfo: -1})
	return ops
}

func c18Body(p c18Params) func(x *vsched.Exec) {
	return func(x *vsched.Exec) {
		w := newWorld(x, true, 0)
		x.V["w"] = w
		var seids []uint64
		expect := 0
		vsched.Setup(func() {
			w.send(0, smf.Assoc(w.nextSeq(0), w.peerIP(0)))
			for i := 0; i < p.N; i++ {
				w.send(0, smf.Est(w.nextSeq(0), w.peerIP(0), true, uint64(0x10+i), w.peerIP(0), estOps(p.U)...))
			}
		})
		for _, m := range w.repliesWait(0, p.N+1)[0] {
			if m.Type == smf.MEstRsp {
				if up, _, ok := m.FSEID(); ok {
					seids = append(seids, up)
				}
			}
		}
		if len(seids) != p.N {
			x.V["infra"] = fmt.Sprintf("set-up established %d of %d sessions", len(seids), p.N)
			return
		}
		if p.Kevt > 0 {
			vsched.SetKeyFn(func() string { return w.v.Summary() + w.g.VPerio().VSummary() + w.k.Dump(nil) })
		}
		if p.Ksr > 0 {
			vsched.SetCap(w.v.SrCh(), p.Ksr)
		}
		if p.Kevt > 0 {
			vsched.SetCap(w.g.VPerio().VEvtCh(), p.Kevt) // 0: the real capacity (true-scale instance)
		}
		if p.Lat {
			w.k.OnRequest = vsched.Yield
		}
		// the concurrent phase
		switch p.Bulk {
		case "reassoc":
			expect = 1
			vsched.GoHarness("peer-A", func() { w.send(0, smf.Assoc(w.nextSeq(0), w.peerIP(0))) })
		case "delete":
			expect = p.N
			vsched.GoHarness("peer-A", func() {
				for _, s := range seids {
					w.send(0, smf.Del(w.nextSeq(0), s))
				}
			})
		case "bufburst":
			// a burst of buffered-downlink-packet notifications for ONE (session, PDR): p.M packets against a
			// buffer queue scaled to p.Q; only the loop itself ever drains that queue (FAR update), so the loop
			// must never block on it
			if !w.v.VSetQlen(seids[0], p.Q) {
				x.V["infra"] = "no session to scale"
				return
			}
			x.V["q"] = p.Q
			x.V["qseid"] = seids[0]
			vsched.GoHarness("buffer-listener", func() {
				for i := 0; i < p.M; i++ {
					w.v.S.NotifySessReport(report.SessReport{SEID: seids[0], Reports: []report.Report{
						report.DLDReport{PDRID: 1, Action: report.APPLY_ACT_BUFF, BufPkt: []byte{byte(i + 1)}}}})
				}
			})
		case "establish":
			expect = p.N
			vsched.GoHarness("peer-A", func() {
				for i := 0; i < p.N; i++ {
					w.send(0, smf.Est(w.nextSeq(0), w.peerIP(0), true, uint64(0x100+i), w.peerIP(0), estOps(p.U)...))
				}
			})
		}
		x.V["expectA"] = expect
		x.V["hb"] = p.HB
		if p.HB {
			vsched.GoHarness("peer-B", func() { w.send(1, smf.Heartbeat(w.nextSeq(1))) })
		}
		if p.M > 0 && p.Bulk != "bufburst" {
			vsched.GoHarness("kernel-report", func() {
				var hs []simk.Handed
				for i := 0; i < p.M && i < len(seids); i++ {
					hs = append(hs, simk.Handed{SEID: seids[i], URR: 1, Trigger: 2, C: simk.Counters{TV: uint64(i + 1)}, Start: time.Unix(1700000000, 0), End: time.Unix(1700000001, 0)})
				}
				w.g.VBuff().VNotify(simk.ReportMsg(hs))
			})
		}
	}
}

func c18Check(x *vsched.Exec, r vsched.Result) []vsched.Finding {
	if s, ok := x.V["infra"].(string); ok {
		return []vsched.Finding{{Sig: "INFRA:setup", What: s}}
	}
	w, _ := x.V["w"].(*world)
	if f := noProgress(r); f != nil {
		return f
	}
	if w == nil || r.Deadlock != "" || len(r.Panics) > 0 {
		return nil // deadlocks and panics are reported by the explorer itself
	}
	return w.settle(func(rep [3][]*smf.Msg) []vsched.Finding {
		var fs []vsched.Finding
		want, _ := x.V["expectA"].(int)
		got := 0
		for _, m := range rep[0] {
			if m.Type == smf.MAssocRsp || m.Type == smf.MDelRsp || m.Type == smf.MEstRsp {
				got++
			}
		}
		if got != want {
			fs = append(fs, vsched.Finding{Sig: "request-unanswered:peer-A", What: fmt.Sprintf("peer A sent %d requests in the bulk phase and received %d responses although nothing is blocked any more", want, got)})
		}
		hb := 0
		for _, m := range rep[1] {
			if m.Type == smf.MHeartbeatRsp {
				hb++
			}
		}
		if want, _ := x.V["hb"].(bool); want && hb != 1 {
			fs = append(fs, vsched.Finding{Sig: "request-unanswered:heartbeat", What: fmt.Sprintf("peer B's Heartbeat Request got %d responses", hb)})
		}
		if q, ok := x.V["q"].(int); ok {
			if n := w.v.VQLen(x.V["qseid"].(uint64), 1); n != q {
				fs = append(fs, vsched.Finding{Sig: "buffer-queue-length", What: fmt.Sprintf("after a burst larger than the buffer queue it holds %d packets, want %d (the capacity)", n, q)})
			}
		}
		x.V["outcome"] = fmt.Sprintf("A=%d B=%d reports=%d", got, hb, countType(rep[0], smf.MReportReq))
		return fs
	})
}

func countType(ms []*smf.Msg, t uint8) int {
	n := 0
	for _, m := range ms {
		if m.Type == t {
			n++
		}
	}
	return n
}

// c18Scenarios: the scaled family (tiny capacities, everything explored) and larger instances at low bounds.
func c18Scenarios(tier string) []struct {
	P     c18Params
	Bound int
	Max   int
} {
	type sc = struct {
		P     c18Params
		Bound int
		Max   int
	}
	var out []sc
	for _, bulk := range []string{"reassoc", "delete", "establish"} {
		out = append(out, sc{c18Params{N: 2, U: 1, Kevt: 1, Ksr: 1, Bulk: bulk, Ticks: 1}, 2, 6000})
	}
	out = append(out, sc{c18Params{N: 2, U: 2, Kevt: 1, Ksr: 1, Bulk: "reassoc", Ticks: 2}, 2, 6000})
	out = append(out, sc{c18Params{N: 2, U: 1, Kevt: 2, Ksr: 1, Bulk: "reassoc", M: 2, HB: true, Ticks: 1}, 1, 3000})
	out = append(out, sc{c18Params{N: 1, U: 1, Kevt: 2, Ksr: 1, Bulk: "bufburst", M: 4, Q: 2, HB: true}, 2, 6000})
	out = append(out, sc{c18Params{N: 2, U: 1, Kevt: 1, Ksr: 1, Bulk: "reassoc", Ticks: 1, Lat: true}, 1, 6000})
	if tier == "thorough" {
		for _, bulk := range []string{"reassoc", "delete", "establish"} {
			out = append(out, sc{c18Params{N: 2, U: 1, Kevt: 1, Ksr: 1, Bulk: bulk, Ticks: 1, HB: true, Lat: true}, 2, 60000})
			out = append(out, sc{c18Params{N: 3, U: 2, Kevt: 2, Ksr: 2, Bulk: bulk, M: 2, Ticks: 1, Lat: true}, 1, 60000})
		}
		for _, q := range []int{1, 2, 3} {
			out = append(out, sc{c18Params{N: 2, U: 1, Kevt: 2, Ksr: q, Bulk: "bufburst", M: q + 3, Q: q, HB: true, Ticks: 1}, 3, 60000})
		}
		for _, bulk := range []string{"reassoc", "delete", "establish"} {
			for _, k := range [][2]int{{1, 1}, {2, 1}, {2, 2}, {3, 2}} {
				for _, n := range []int{2, 3, 4} {
					for _, u := range []int{1, 2} {
						out = append(out, sc{c18Params{N: n, U: u, Kevt: k[0], Ksr: k[1], Bulk: bulk, M: n, HB: true, Ticks: 2}, 3, 60000})
					}
				}
			}
		}
	}
	return out
}

// noProgress: an execution that is still running at the scheduler's horizon. The horizon (20000 scheduling points) is
// an order of magnitude beyond what the scenarios of C15 / C17 / C18 need on the unchanged tree (the longest, a
// true-scale C18 instance, has about 1300): an execution that has not come to rest there keeps taking steps
// without finishing its work - threads feeding each other, or one thread feeding itself, for ever.
func noProgress(r vsched.Result) []vsched.Finding {
	if !r.Truncated || r.Deadlock != "" || len(r.Panics) > 0 || r.Diverged != "" {
		return nil
	}
	tail := r.Trace
	if len(tail) > 12 {
		tail = tail[len(tail)-12:]
	}
	return []vsched.Finding{{Sig: "no-progress:still-running-at-the-horizon", What: fmt.Sprintf("the execution has not come to rest after %d scheduling points (no thread is blocked for good, but the system keeps stepping without finishing its work); last steps: %s", len(r.Points), strings.Join(tail, " | "))}}
}
