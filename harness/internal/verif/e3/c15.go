//go:build verif && vsched

package e3

import (
	"crypto/sha256"
	"encoding/hex"
	"fmt"
	"regexp"
	"sort"
	"strconv"
	"strings"
	"sync"
	"time"

	"github.com/free5gc/go-upf/internal/forwarder/perio"
	"github.com/free5gc/go-upf/internal/pfcp"
	"github.com/free5gc/go-upf/internal/report"
	"github.com/free5gc/go-upf/internal/verif/vsched"
)

// C15, part 2 — the periodic-report server under every schedule.
//
// The real perio.Server (its Serve goroutine and one ticker goroutine per period, channel and ticker operations
// redirected to the scheduler) is driven by one thread that issues a fixed list of AddPeriodReportTimer /
// DelPeriodReportTimer calls, optionally followed by Close, as the PFCP loop does through the gtp5g driver.
// Ticks are scheduler transitions (tick budget): a tick can land at every point of the history, ticks can still
// be queued (or their ticker goroutine still be on its way to the queue) when the period's last URR disappears,
// and the event queue can be scaled down so that posting blocks.
//
// Reference: the server is specified as a serial machine over its event queue. The order in which events are
// ENQUEUED is read off the schedule (every send on the event channel is a transition of a known thread: the k-th
// send of the driver thread is its k-th call, a send of a ticker goroutine is a tick of that goroutine's period);
// a plain map-of-sets model is run over that order and yields, per tick, the exact query set (or no query when
// the period has no group). Observed: the query maps handed to the query callback and the session reports
// notified, in order. At the end: tickers still armed = groups of the model (0 after Close), threads left =
// the server goroutine + one per group (0 after Close).

type c15Op struct {
	Add    bool
	Seid   uint64
	Urr    uint32
	Period time.Duration
}

func (o c15Op) String() string {
	if o.Add {
		return fmt.Sprintf("Add(s%d,u%d,P%d)", o.Seid, o.Urr, o.Period/time.Hour)
	}
	return fmt.Sprintf("Del(s%d,u%d)", o.Seid, o.Urr)
}

type c15Params struct {
	Name   string
	Ops    []c15Op
	Close  bool
	Ticks  int
	Kevt   int  // virtual capacity of the event queue (0: the real one)
	Orders bool // the entry at which every map iteration of the server starts is a scheduler choice
}

func (p c15Params) String() string {
	var l []string
	for _, o := range p.Ops {
		l = append(l, o.String())
	}
	if p.Orders {
		return fmt.Sprintf("%s: %s close=%v ticks=%d Kevt=%d map-orders=all rotations", p.Name, strings.Join(l, " "), p.Close, p.Ticks, p.Kevt)
	}
	return fmt.Sprintf("%s: %s close=%v ticks=%d Kevt=%d", p.Name, strings.Join(l, " "), p.Close, p.Ticks, p.Kevt)
}

const (
	p1 = 1 * time.Hour
	p2 = 2 * time.Hour
)

type c15Log struct {
	entries []string // "Q <period-agnostic sorted query>" and "N s<seid> u.. perio=<bool>"
	unknown []string
}

type c15Handler struct{ l *c15Log }

func (h c15Handler) NotifySessReport(sr report.SessReport) {
	var us []string
	perioAll := true
	for _, r := range sr.Reports {
		u, ok := r.(report.USAReport)
		if !ok {
			h.l.unknown = append(h.l.unknown, fmt.Sprintf("%T", r))
			continue
		}
		us = append(us, fmt.Sprint(u.URRID))
		if u.USARTrigger.Flags&report.USAR_TRIG_PERIO == 0 {
			perioAll = false
		}
	}
	sort.Strings(us)
	h.l.entries = append(h.l.entries, fmt.Sprintf("N s%d u%s perio=%v", sr.SEID, strings.Join(us, ","), perioAll))
}

func (h c15Handler) PopBufPkt(uint64, uint16) ([]byte, bool) { return nil, false }

func fmtQuery(q map[uint64][]uint32) string {
	var ss []string
	for s, us := range q {
		var l []string
		for _, u := range us {
			l = append(l, fmt.Sprint(u))
		}
		sort.Strings(l)
		ss = append(ss, fmt.Sprintf("s%d:u%s", s, strings.Join(l, ",")))
	}
	sort.Strings(ss)
	return strings.Join(ss, " ")
}

func c15Body(p c15Params) func(x *vsched.Exec) {
	return func(x *vsched.Exec) {
		pfcp.VQuietLog()
		var wg sync.WaitGroup
		lg := &c15Log{}
		x.V["log"] = lg
		x.V["p"] = p
		srv, err := perio.OpenServer(&wg)
		if err != nil {
			x.V["infra"] = err.Error()
			return
		}
		vsched.Name(srv.VEvtCh(), "perio.evtCh")
		if p.Kevt > 0 {
			vsched.SetCap(srv.VEvtCh(), p.Kevt)
		}
		srv.Handle(c15Handler{lg}, func(q map[uint64][]uint32) (map[uint64][]report.USAReport, error) {
			lg.entries = append(lg.entries, "Q "+fmtQuery(q))
			out := map[uint64][]report.USAReport{}
			for s, us := range q {
				for _, u := range us {
					out[s] = append(out[s], report.USAReport{URRID: u})
				}
			}
			return out, nil
		})
		vsched.SetKeyFn(func() string {
			h := sha256.Sum256([]byte(strings.Join(lg.entries, "\n")))
			return srv.VSummary() + hex.EncodeToString(h[:8])
		})
		vsched.GoHarness("driver", func() {
			for _, o := range p.Ops {
				if o.Add {
					srv.AddPeriodReportTimer(o.Seid, o.Urr, o.Period)
				} else {
					srv.DelPeriodReportTimer(o.Seid, o.Urr)
				}
			}
			if p.Close {
				srv.Close()
			}
		})
	}
}

var (
	reSend = regexp.MustCompile(`^T(\d+)\(([^)]*)\) (?:select )?send perio\.evtCh`)
	reTick = regexp.MustCompile(`^T(\d+)\(goroutine-in-newTicker`)
)

// c15Reference runs the map-of-sets model over the enqueue order read off the trace.
func c15Reference(p c15Params, trace []string) (expect []string, groups int, closed bool, note string) {
	// ticker goroutines in spawn order = order of group creation
	tset := map[int]bool{}
	for _, l := range trace {
		if m := reTick.FindStringSubmatch(l); m != nil {
			id, _ := strconv.Atoi(m[1])
			tset[id] = true
		}
	}
	var tids []int
	for id := range tset {
		tids = append(tids, id)
	}
	sort.Ints(tids)
	type ev struct {
		op    *c15Op
		close bool
		tick  int // ticker thread id
	}
	var q []ev
	next := 0
	for _, l := range trace {
		m := reSend.FindStringSubmatch(l)
		if m == nil {
			continue
		}
		id, _ := strconv.Atoi(m[1])
		switch {
		case m[2] == "driver":
			if next < len(p.Ops) {
				q = append(q, ev{op: &p.Ops[next]})
			} else {
				q = append(q, ev{close: true})
			}
			next++
		case strings.HasPrefix(m[2], "goroutine-in-newTicker"):
			q = append(q, ev{tick: id})
		default:
			note = "unexpected sender on the event queue: " + l
		}
	}
	model := map[time.Duration]map[uint64]map[uint32]bool{}
	periodOf := map[int]time.Duration{}
	created := 0
	for _, e := range q {
		switch {
		case e.close:
			return expect, 0, true, note
		case e.op != nil && e.op.Add:
			g := model[e.op.Period]
			if g == nil {
				g = map[uint64]map[uint32]bool{}
				model[e.op.Period] = g
				if created < len(tids) {
					periodOf[tids[created]] = e.op.Period
				}
				created++
			}
			if g[e.op.Seid] == nil {
				g[e.op.Seid] = map[uint32]bool{}
			}
			g[e.op.Seid][e.op.Urr] = true
		case e.op != nil:
			for per, g := range model {
				if g[e.op.Seid][e.op.Urr] {
					delete(g[e.op.Seid], e.op.Urr)
					if len(g[e.op.Seid]) == 0 {
						delete(g, e.op.Seid)
					}
					if len(g) == 0 {
						delete(model, per)
					}
					break
				}
			}
		default:
			per, ok := periodOf[e.tick]
			if !ok {
				note = fmt.Sprintf("tick from ticker goroutine T%d which the model never created", e.tick)
				continue
			}
			g := model[per]
			if g == nil {
				continue // stale tick: the period has no group any more
			}
			qm := map[uint64][]uint32{}
			for s, us := range g {
				for u := range us {
					qm[s] = append(qm[s], u)
				}
			}
			expect = append(expect, "Q "+fmtQuery(qm))
			var ns []string
			for s, us := range qm {
				var l []string
				for _, u := range us {
					l = append(l, fmt.Sprint(u))
				}
				sort.Strings(l)
				ns = append(ns, fmt.Sprintf("N s%d u%s perio=true", s, strings.Join(l, ",")))
			}
			sort.Strings(ns)
			expect = append(expect, ns...)
		}
	}
	if created != len(tids) {
		note = fmt.Sprintf("model created %d groups, implementation started %d ticker goroutines", created, len(tids))
	}
	return expect, len(model), false, note
}

// canonLog sorts the notifications that follow each query (the server ranges over a map).
func canonLog(l []string) []string {
	var out, ns []string
	flush := func() {
		sort.Strings(ns)
		out = append(out, ns...)
		ns = nil
	}
	for _, e := range l {
		if strings.HasPrefix(e, "Q ") {
			flush()
			out = append(out, e)
		} else {
			ns = append(ns, e)
		}
	}
	flush()
	return out
}

func c15Check(x *vsched.Exec, r vsched.Result) []vsched.Finding {
	if s, ok := x.V["infra"].(string); ok {
		return []vsched.Finding{{Sig: "INFRA:setup", What: s}}
	}
	if f := noProgress(r); f != nil {
		return f
	}
	if r.Truncated || r.Deadlock != "" || len(r.Panics) > 0 {
		return nil // reported by the explorer itself
	}
	p := x.V["p"].(c15Params)
	lg := x.V["log"].(*c15Log)
	var fs []vsched.Finding
	expect, groups, closed, note := c15Reference(p, r.Trace)
	if note != "" {
		fs = append(fs, vsched.Finding{Sig: "reference-mismatch", What: note})
	}
	got := canonLog(lg.entries)
	if strings.Join(got, "\n") != strings.Join(expect, "\n") {
		sig := "query-set-differs"
		if len(got) > len(expect) {
			sig = "extra-query-or-report"
		} else if len(got) < len(expect) {
			sig = "missing-query-or-report"
		}
		for _, e := range got {
			if strings.HasSuffix(e, "perio=false") {
				sig = "report-not-marked-periodic"
			}
		}
		fs = append(fs, vsched.Finding{Sig: sig, What: fmt.Sprintf("serial reference over the enqueue order expects %q, the server produced %q", expect, got)})
	}
	if len(lg.unknown) > 0 {
		fs = append(fs, vsched.Finding{Sig: "foreign-report", What: fmt.Sprint(lg.unknown)})
	}
	wantLeft := 1 + groups
	if closed {
		wantLeft = 0
	}
	if r.TickersOn != groups {
		fs = append(fs, vsched.Finding{Sig: "ticker-not-released", What: fmt.Sprintf("%d tickers still armed at the end, the reference has %d period groups (closed=%v)", r.TickersOn, groups, closed)})
	}
	if r.Left != wantLeft {
		fs = append(fs, vsched.Finding{Sig: "goroutine-count", What: fmt.Sprintf("%d threads left at the end, want %d (server + one ticker goroutine per live group; none after Close): idle=%v", r.Left, wantLeft, r.Idle)})
	}
	h := sha256.Sum256([]byte(strings.Join(got, "\n")))
	x.V["outcome"] = fmt.Sprintf("%s g=%d c=%v", hex.EncodeToString(h[:6]), groups, closed)
	return fs
}

func c15Scenarios(tier string) []struct {
	P     c15Params
	Bound int
} {
	type sc = struct {
		P     c15Params
		Bound int
	}
	A := func(s uint64, u uint32, p time.Duration) c15Op { return c15Op{true, s, u, p} }
	D := func(s uint64, u uint32) c15Op { return c15Op{false, s, u, 0} }
	out := []sc{
		{c15Params{Name: "last-urr-goes", Ops: []c15Op{A(1, 1, p1), A(2, 1, p1), D(1, 1), D(2, 1)}, Ticks: 2}, 2},
		{c15Params{Name: "two-periods", Ops: []c15Op{A(1, 1, p1), A(1, 2, p2), D(1, 1), A(2, 1, p1)}, Ticks: 2}, 2},
		{c15Params{Name: "close-with-ticks", Ops: []c15Op{A(1, 1, p1), A(2, 2, p1), D(1, 1)}, Close: true, Ticks: 2, Kevt: 1}, 2},
		{c15Params{Name: "period-change", Ops: []c15Op{A(1, 1, p1), D(1, 1), A(1, 1, p2)}, Ticks: 2}, 2},
		{c15Params{Name: "re-register-same-period", Ops: []c15Op{A(1, 1, p1), D(1, 1), A(1, 2, p1)}, Ticks: 2, Kevt: 1}, 2},
		{c15Params{Name: "close-two-periods", Ops: []c15Op{A(1, 1, p1), A(2, 1, p2)}, Close: true, Ticks: 1, Kevt: 2, Orders: true}, 2},
	}
	if tier == "thorough" {
		out = []sc{
			{c15Params{Name: "last-urr-goes", Ops: []c15Op{A(1, 1, p1), A(2, 1, p1), D(1, 1), D(2, 1)}, Ticks: 3}, 3},
			{c15Params{Name: "two-periods", Ops: []c15Op{A(1, 1, p1), A(1, 2, p2), D(1, 1), A(2, 1, p1), D(1, 2)}, Ticks: 3}, 3},
			{c15Params{Name: "close-with-ticks", Ops: []c15Op{A(1, 1, p1), A(2, 2, p1), D(1, 1)}, Close: true, Ticks: 3, Kevt: 1}, 3},
			{c15Params{Name: "close-two-periods", Ops: []c15Op{A(1, 1, p1), A(2, 1, p2)}, Close: true, Ticks: 2, Kevt: 2, Orders: true}, 3},
			{c15Params{Name: "two-sessions-one-period", Ops: []c15Op{A(1, 1, p1), A(2, 1, p1), A(2, 2, p1), D(1, 1)}, Ticks: 2, Orders: true}, 2},
			{c15Params{Name: "period-change", Ops: []c15Op{A(1, 1, p1), D(1, 1), A(1, 1, p2), D(1, 1)}, Ticks: 3}, 3},
			{c15Params{Name: "re-register-same-period", Ops: []c15Op{A(1, 1, p1), D(1, 1), A(1, 2, p1), D(1, 2)}, Ticks: 3, Kevt: 1}, 3},
			{c15Params{Name: "many", Ops: []c15Op{A(1, 1, p1), A(1, 2, p1), A(2, 1, p1), A(2, 2, p2), D(1, 2), D(2, 1), D(1, 1)}, Ticks: 2, Kevt: 2}, 2},
		}
	}
	return out
}
