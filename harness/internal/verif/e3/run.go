//go:build verif && vsched

package e3

import (
	"encoding/json"
	"fmt"
	"os"
	"os/exec"
	"runtime"
	"sort"
	"strings"
	"sync"
	"time"

	"github.com/free5gc/go-upf/internal/verif/vsched"
)

// Report is what the vsched-flavour worker hands back to the check driver (one JSON document on stdout).
type Report struct {
	Property   string           `json:"property"`
	Scenarios  []ScenarioReport `json:"scenarios"`
	Inventory  map[string]int   `json:"rewrite_inventory,omitempty"`
	SelfTestOK bool             `json:"selftest_ok"`
}

type ScenarioReport struct {
	Name        string          `json:"name"`
	Executions  int64           `json:"schedules"`
	Points      int64           `json:"scheduling_points"`
	MaxPoints   int             `json:"longest_schedule"`
	BoundDone   int             `json:"preemption_bound_completed"`
	Preemptions int             `json:"max_preemptions_taken"`
	Outcomes    int             `json:"distinct_outcomes"`
	Exhaustive  bool            `json:"exhaustive"`
	Truncated   int64           `json:"truncated_schedules"`
	Pruned      int64           `json:"points_pruned_by_state_key"`
	Findings    []FindingReport `json:"findings,omitempty"`
	Samples     []string        `json:"samples,omitempty"`
	WallS       float64         `json:"wall_s"`
	Diverged    int64           `json:"prefixes_not_replayable"`
	DivSample   string          `json:"divergence_sample,omitempty"`
}

type FindingReport struct {
	Sig      string   `json:"sig"`
	What     string   `json:"what"`
	Schedule []int    `json:"schedule"`
	Trace    []string `json:"trace"`
}

func explore(name string, cfg vsched.Config) ScenarioReport {
	t0 := time.Now()
	cfg.Name = name
	st := vsched.Explore(cfg)
	sr := ScenarioReport{Name: name, Executions: st.Executions, Points: st.Points, MaxPoints: st.MaxPoints, BoundDone: st.BoundDone,
		Preemptions: st.Preemptions, Outcomes: len(st.Outcomes), Exhaustive: st.Exhaustive, Truncated: st.Truncated, Pruned: st.Pruned, Samples: st.Samples, WallS: time.Since(t0).Seconds(),
		Diverged: st.DivergedPrefixes, DivSample: st.DivergenceSample}
	var sigs []string
	for s := range st.Findings {
		sigs = append(sigs, s)
	}
	sort.Strings(sigs)
	for _, s := range sigs {
		f := st.Findings[s]
		tr := f.Trace
		if len(tr) > 60 {
			tr = append(append([]string{}, tr[:20]...), append([]string{fmt.Sprintf("... %d steps ...", len(tr)-50)}, tr[len(tr)-30:]...)...)
		}
		sr.Findings = append(sr.Findings, FindingReport{Sig: f.Sig, What: f.What, Schedule: f.Schedule, Trace: tr})
	}
	return sr
}

// Main: verif-worker(vs) e3 <property> <tier>
func Main(prop, tier string, only int) int {
	rep := Report{Property: prop}
	rep.SelfTestOK = only >= 0 || len(vsched.SelfTest()) == 0 // sub-workers rely on the parent's self-test
	if !rep.SelfTestOK {
		fmt.Println("INFRA vsched self-tests failed")
		return 2
	}
	inv := "/gen-vs.inventory.json"
	if prop == "C17R" {
		inv = "/gen-vsr.inventory.json"
	}
	if b, err := os.ReadFile(os.Getenv("VERIF_BUILD") + inv); err == nil {
		_ = json.Unmarshal(b, &rep.Inventory)
	}
	jobs, bad := jobsFor(prop, tier)
	if bad != "" {
		fmt.Println(bad)
		return 2
	}
	dl := tierDeadline(tier)
	// the tier's budget is shared: with more scenarios than parallel slots each gets a proportionally shorter deadline
	{
		par := runtime.NumCPU() / 2
		if par < 1 {
			par = 1
		}
		if len(jobs) > par {
			per := time.Duration(int64(dl) * int64(par) / int64(len(jobs)))
			if per < 30*time.Second {
				per = 30 * time.Second
			}
			for i := range jobs {
				jobs[i].cfg.Deadline = per
			}
		}
	}
	if only >= 0 {
		// sub-worker: one scenario
		if only >= len(jobs) {
			fmt.Println("INFRA no such scenario")
			return 2
		}
		rep.Scenarios = append(rep.Scenarios, explore(jobs[only].name, jobs[only].cfg))
	} else {
		// one process per scenario (each owns its address block and its scheduler), at most par at a time
		par := runtime.NumCPU() / 2
		if par < 1 {
			par = 1
		}
		res := make([]*Report, len(jobs))
		sem := make(chan struct{}, par)
		var wg sync.WaitGroup
		var mu sync.Mutex
		bad := ""
		for i := range jobs {
			wg.Add(1)
			go func(i int) {
				defer wg.Done()
				sem <- struct{}{}
				defer func() { <-sem }()
				cmd := exec.Command("/proc/self/exe", "e3", prop, tier, fmt.Sprint(i))
				cmd.Env = os.Environ()
				cmd.Stderr = os.Stderr
				out, err := cmd.Output()
				var r *Report
				for _, l := range strings.Split(string(out), "\n") {
					if strings.HasPrefix(l, "E3RESULT ") {
						r = &Report{}
						if json.Unmarshal([]byte(l[9:]), r) != nil {
							r = nil
						}
					} else if strings.HasPrefix(l, "INFRA") {
						mu.Lock()
						bad = l
						mu.Unlock()
					}
				}
				if r == nil || err != nil {
					mu.Lock()
					if bad == "" {
						bad = fmt.Sprintf("INFRA scenario %d (%s): sub-worker failed: %v", i, jobs[i].name, err)
					}
					mu.Unlock()
					return
				}
				res[i] = r
			}(i)
		}
		wg.Wait()
		if bad != "" {
			fmt.Println(bad)
			return 2
		}
		for _, r := range res {
			rep.Scenarios = append(rep.Scenarios, r.Scenarios...)
		}
	}
	b, _ := json.Marshal(rep)
	fmt.Printf("E3RESULT %s\n", b)
	return 0
}

type job struct {
	name string
	cfg  vsched.Config
}

func tierDeadline(tier string) time.Duration {
	if tier == "thorough" {
		return 20 * time.Minute
	}
	return 100 * time.Second
}

// jobsFor lists the scenarios of a property and tier.
func jobsFor(prop, tier string) ([]job, string) {
	dl := tierDeadline(tier)
	var jobs []job
	switch prop {
	case "C18":
		{
			// true scale: the source's own capacities (512 / 128 - nothing overridden), session counts below and above
			// them; the default schedule plus every single deviation (preemption bound 1) up to a cap, no state keys
			// (the state is large). The cycle found in the scaled family is re-found here at the real constants.
			ns, max := []int{300}, 40
			if tier == "thorough" {
				ns, max = []int{60, 129, 300}, 2000
			}
			for _, n := range ns {
				p := c18Params{N: n, U: 2, Bulk: "reassoc", Ticks: 1}
				jobs = append(jobs, job{"T(" + p.String() + " TRUE SCALE)", vsched.Config{Bound: 1, TickBudget: 1, MaxExec: max, Deadline: dl, Body: c18Body(p), Check: c18Check}})
			}
		}
		{
			// true scale, no bulk operation: one tick over 300 sessions whose Session Report Requests the peer never
			// answers (300 outstanding requests, far more reports than the report queue holds) and a heartbeat:
			// thresholds tied to the source's own constants (queue sizes, numbers of requests in flight) are only
			// crossed here
			max := 10
			if tier == "thorough" {
				max = 400
			}
			p := c18Params{N: 300, U: 1, Bulk: "none", Ticks: 1, HB: true}
			jobs = append(jobs, job{"T(" + p.String() + " TRUE SCALE, unanswered reports)", vsched.Config{Bound: 1, TickBudget: 1, MaxExec: max, Deadline: dl, Body: c18Body(p), Check: c18Check}})
		}
		for _, sc := range c18Scenarios(tier) {
			jobs = append(jobs, job{"S(" + sc.P.String() + ")", vsched.Config{Bound: sc.Bound, TickBudget: sc.P.Ticks, MaxExec: sc.Max, Deadline: dl, StateKeys: true,
				Body: c18Body(sc.P), Check: c18Check}})
		}
		{
			// a Session Report Response that meets the expiry of its own retransmission timer (both queued for the
			// loop at once), with a Modification, its duplicate and a heartbeat behind them: the loop must go on
			p := c17Params{Name: "response-vs-expiry", PreReport: true, Rsp: true, Fire: 1}
			b := 3
			if tier == "thorough" {
				p.Fire, p.Peers = 2, 1
			}
			jobs = append(jobs, job{"S(" + p.String() + ")", vsched.Config{Bound: b, FireBudget: p.Fire, Deadline: dl, StateKeys: true, Body: c17Body(p), Check: c17Check}})
		}
	case "C17":
		for _, sc := range c17Scenarios(tier) {
			jobs = append(jobs, job{"C17(" + sc.P.String() + ")", vsched.Config{Bound: sc.Bound, FireBudget: sc.P.Fire, MaxExec: sc.Max, Deadline: dl, StateKeys: true,
				Body: c17Body(sc.P), Check: c17Check}})
		}
		ing := c17IngressParams{N: 3}
		if tier == "thorough" {
			ing.N = 4
		}
		jobs = append(jobs, job{"C17(" + ing.String() + ")", vsched.Config{Bound: -1, Deadline: dl, StateKeys: true, Body: c17IngressBody(ing), Check: c17IngressCheck}})
		apps := []c17AppParams{{Peer: true, Ticks: 1}, {Peer: false, Ticks: 2}}
		for _, ap := range apps {
			b := 2
			if tier == "thorough" {
				b = 3
			}
			jobs = append(jobs, job{"C17(" + ap.String() + ")", vsched.Config{Bound: b, TickBudget: ap.Ticks, Deadline: dl, StateKeys: true,
				Body: c17AppBody(ap), Check: c17AppCheck}})
		}
	case "C17R":
		// the same kind of scenarios with the happens-before race oracle on (vsr flavour: access reports inserted
		// by the rewriter); no state-key pruning: a race depends on the history, not only on the state reached
		for _, sc := range c17RaceScenarios(tier) {
			jobs = append(jobs, job{"C17R(" + sc.P.String() + ")", vsched.Config{Bound: sc.Bound, FireBudget: sc.P.Fire, Deadline: dl, Races: true, StateKeys: sc.Keys,
				Body: c17Body(sc.P), Check: c17Check}})
		}
		{
			// the whole UPF over the real gtp5g driver and periodic server, shutting down; and datagrams through the
			// real socket (receiver goroutine vs. loop)
			ap := c17AppParams{Peer: true, Ticks: 1}
			jobs = append(jobs, job{"C17R(" + ap.String() + ")", vsched.Config{Bound: 1, TickBudget: ap.Ticks, Deadline: dl, Races: true, StateKeys: true,
				Body: c17AppBody(ap), Check: c17AppCheck}})
			ing := c17IngressParams{N: 2}
			jobs = append(jobs, job{"C17R(" + ing.String() + ")", vsched.Config{Bound: -1, Deadline: dl, Races: true, StateKeys: true, Body: c17IngressBody(ing), Check: c17IngressCheck}})
		}
		for _, sc := range c15Scenarios("quick") {
			pb := 2
			if tier != "thorough" {
				if sc.P.Name == "two-periods" {
					continue // the largest one: thorough only
				}
				pb = 1
			}
			jobs = append(jobs, job{"C17R-perio(" + sc.P.String() + ")", vsched.Config{Bound: pb, TickBudget: sc.P.Ticks, Deadline: dl, Races: true, StateKeys: true,
				Body: c15Body(sc.P), Check: c15Check}})
		}
	case "C15":
		for _, sc := range c15Scenarios(tier) {
			jobs = append(jobs, job{"C15(" + sc.P.String() + ")", vsched.Config{Bound: sc.Bound, TickBudget: sc.P.Ticks, Deadline: dl, StateKeys: true, MapOrders: sc.P.Orders,
				Body: c15Body(sc.P), Check: c15Check}})
		}
	default:
		return nil, fmt.Sprintf("INFRA no E3 scenarios for %s", prop)
	}
	return jobs, ""
}

// Replay re-executes ONE stored schedule of a scenario (no exploration): the trace is printed, the execution is
// judged as during the check, and the exit status tells whether the stored finding showed again.
func Replay(path string) int {
	b, err := os.ReadFile(path)
	if err != nil {
		fmt.Println("INFRA", err)
		return 2
	}
	var v struct {
		Property  string `json:"property"`
		Signature string `json:"signature"`
		Scenario  string `json:"scenario"`
		Replay    struct {
			Scenario string `json:"scenario"`
			Schedule []int  `json:"schedule"`
		} `json:"replay"`
	}
	if err := json.Unmarshal(b, &v); err != nil {
		fmt.Println("INFRA bad replay file:", err)
		return 2
	}
	name := v.Replay.Scenario
	if name == "" {
		name = v.Scenario
	}
	props := []string{v.Property}
	if v.Property == "C17" {
		props = []string{"C17", "C17R"}
	}
	for _, prop := range props {
		for _, tier := range []string{"quick", "thorough"} {
			jobs, _ := jobsFor(prop, tier)
			for _, j := range jobs {
				if j.name != name {
					continue
				}
				vsched.RaceMode, vsched.MapOrders, vsched.UseStateKeys = j.cfg.Races, j.cfg.MapOrders, false
				x := &vsched.Exec{V: map[string]interface{}{}}
				r := vsched.Run(v.Replay.Schedule, j.cfg.FireBudget, j.cfg.TickBudget, 20000, func() { j.cfg.Body(x) })
				var fs []vsched.Finding
				if j.cfg.Check != nil {
					fs = j.cfg.Check(x, r)
				}
				for _, f := range x.Cleanup {
					f()
				}
				for i, t := range r.Trace {
					fmt.Printf("  %3d. %s\n", i+1, t)
				}
				var sigs []string
				for _, p := range r.Panics {
					sigs = append(sigs, "panic: "+strings.SplitN(p, "\n", 2)[0])
				}
				if r.Deadlock != "" {
					sigs = append(sigs, "deadlock: "+r.Deadlock+" cycle: "+r.Cycle)
				}
				for _, e := range r.Races {
					sigs = append(sigs, "race: "+strings.SplitN(e, "\n", 2)[0])
				}
				for _, f := range fs {
					sigs = append(sigs, f.Sig+": "+f.What)
				}
				if r.Diverged != "" {
					fmt.Println("INFRA the schedule did not replay:", r.Diverged)
					return 2
				}
				fmt.Printf("scenario %s, schedule of %d choices replayed; observed:\n", name, len(v.Replay.Schedule))
				for _, s := range sigs {
					fmt.Println("   ", s)
				}
				if len(sigs) == 0 {
					fmt.Println("    nothing: the stored finding did NOT show again")
					return 0
				}
				fmt.Printf("stored signature: %s\n", v.Signature)
				return 1
			}
		}
	}
	fmt.Printf("INFRA scenario %q of %s is not among the scenarios of the current build\n", name, v.Property)
	return 2
}
