//go:build verif

// Package deepdump: reflective dump of the *unknown* part of an object graph.
//
// The canonical state keys of the explorers are hand-written from the fields the implementation has today.
// A change to the implementation may add state (a cache, a scratch buffer, a flag) that a hand-written key
// does not know: two states that differ only there would be merged and the behaviour behind the difference
// never explored. Extra walks the object graph by reflection and renders every struct field that is NOT in
// the table of known fields (with its full value), so that such hidden state becomes part of the key. On the
// unchanged tree it renders nothing.
package deepdump

import (
	"crypto/sha256"
	"encoding/hex"
	"fmt"
	"reflect"
	"sort"
	"strings"
	"unsafe"
)

// Known maps a struct type name (pkg.Type, as reflect prints it) to its known field names.
// A field listed with a trailing "!" is known and must not be traversed (back pointers, drivers, loggers).
type Known map[string][]string

type walker struct {
	known Known
	seen  map[uintptr]bool
	out   []string
}

// Extra returns the rendering of all unknown fields reachable from root ("" if there are none).
func Extra(root interface{}, known Known) string {
	w := &walker{known: known, seen: map[uintptr]bool{}}
	w.walk(reflect.ValueOf(root), "", false)
	sort.Strings(w.out)
	return strings.Join(w.out, ";")
}

func access(v reflect.Value) reflect.Value {
	if v.CanInterface() || !v.CanAddr() {
		return v
	}
	return reflect.NewAt(v.Type(), unsafe.Pointer(v.UnsafeAddr())).Elem()
}

func opaque(t reflect.Type) bool {
	s := t.String()
	for _, p := range []string{"logrus.", "time.Timer", "time.Ticker", "net.", "sync.", "os.", "nl.", "gtp5gnl.", "syscall.", "time.Time", "atomic."} {
		if strings.Contains(s, p) {
			return true
		}
	}
	return false
}

// walk traverses v; when emit is true everything below is rendered into the output under path.
func (w *walker) walk(v reflect.Value, path string, emit bool) {
	if !v.IsValid() {
		return
	}
	switch v.Kind() {
	case reflect.Ptr:
		if v.IsNil() {
			if emit {
				w.out = append(w.out, path+"=nil")
			}
			return
		}
		if opaque(v.Type().Elem()) {
			return
		}
		p := v.Pointer()
		if w.seen[p] {
			return
		}
		w.seen[p] = true
		w.walk(v.Elem(), path, emit)
	case reflect.Interface:
		if v.IsNil() {
			return
		}
		w.walk(v.Elem(), path, emit)
	case reflect.Struct:
		if opaque(v.Type()) {
			return
		}
		if !v.CanAddr() {
			// make it addressable so that unexported fields can be read
			c := reflect.New(v.Type()).Elem()
			c.Set(v)
			v = c
		}
		kf, ok := w.known[v.Type().String()]
		isKnown := map[string]bool{}
		noWalk := map[string]bool{}
		for _, f := range kf {
			if strings.HasSuffix(f, "!") {
				f = strings.TrimSuffix(f, "!")
				noWalk[f] = true
			}
			isKnown[f] = true
		}
		for i := 0; i < v.NumField(); i++ {
			f := v.Type().Field(i)
			fv := access(v.Field(i))
			name := f.Name
			if f.Anonymous {
				// embedded struct: its fields are checked under its own type
				w.walk(fv, path+"."+name, emit)
				continue
			}
			switch {
			case emit:
				w.walk(fv, path+"."+name, true)
			case ok && isKnown[name]:
				if !noWalk[name] {
					w.walk(fv, path+"."+name, false)
				}
			default:
				// a field the hand-written key does not know (or a whole type it does not know)
				w.walk(fv, path+"."+name+"(+)", true)
			}
		}
	case reflect.Map:
		if v.IsNil() || v.Len() == 0 {
			if emit {
				w.out = append(w.out, path+"=map[]")
			}
			return
		}
		type kv struct {
			k string
			v reflect.Value
		}
		var es []kv
		it := v.MapRange()
		for it.Next() {
			es = append(es, kv{fmt.Sprint(render(it.Key())), it.Value()})
		}
		sort.Slice(es, func(i, j int) bool { return es[i].k < es[j].k })
		for _, e := range es {
			p := path + "[" + e.k + "]"
			if !emit {
				p = path + "[]" // positions of known containers are named by the hand-written key, not here
			}
			w.walk(e.v, p, emit)
		}
	case reflect.Slice, reflect.Array:
		if v.Kind() == reflect.Slice && v.IsNil() {
			if emit {
				w.out = append(w.out, path+"=nil")
			}
			return
		}
		if v.Type().Elem().Kind() == reflect.Uint8 {
			if emit {
				b := make([]byte, v.Len())
				for i := range b {
					b[i] = byte(v.Index(i).Uint())
				}
				h := sha256.Sum256(b)
				w.out = append(w.out, fmt.Sprintf("%s=bytes(%d,%s)", path, len(b), hex.EncodeToString(h[:6])))
			}
			return
		}
		for i := 0; i < v.Len(); i++ {
			p := fmt.Sprintf("%s[%d]", path, i)
			if !emit {
				p = path + "[]"
			}
			w.walk(v.Index(i), p, emit)
		}
	case reflect.Chan:
		if emit {
			if v.IsNil() {
				w.out = append(w.out, path+"=chan(nil)")
			} else {
				w.out = append(w.out, fmt.Sprintf("%s=chan(len %d cap %d)", path, v.Len(), v.Cap()))
			}
		}
	case reflect.Func, reflect.UnsafePointer:
	default:
		if emit {
			w.out = append(w.out, fmt.Sprintf("%s=%v", path, render(v)))
		}
	}
}

func render(v reflect.Value) interface{} {
	switch v.Kind() {
	case reflect.Bool:
		return v.Bool()
	case reflect.Int, reflect.Int8, reflect.Int16, reflect.Int32, reflect.Int64:
		return v.Int()
	case reflect.Uint, reflect.Uint8, reflect.Uint16, reflect.Uint32, reflect.Uint64, reflect.Uintptr:
		return v.Uint()
	case reflect.String:
		return v.String()
	case reflect.Float32, reflect.Float64:
		return v.Float()
	}
	return v.Type().String()
}
