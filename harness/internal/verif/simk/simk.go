//go:build verif

// Package simk: a simulated gtp5g kernel endpoint. It implements nl.Conner over an AF_UNIX datagram
// socketpair, so the real nl.Mux / nl.Client / go-gtp5gnl request code runs unchanged, parses generic
// netlink requests with its own attribute walker (package nlw, written from the gtp5g UAPI numbering) and
// keeps rules in decoded form. It is the environment of the full-stack worlds and the independent decoder
// of the translation checks (C02, C03).
package simk

import (
	"encoding/binary"
	"fmt"
	"sort"
	"sync"
	"syscall"
	"time"
	"unsafe"

	"github.com/free5gc/go-upf/internal/verif/nlw"
)

// gtp5g generic-netlink commands (gtp5g/include/genl.h)
const (
	CmdAddPDR = 1 + iota
	CmdAddFAR
	CmdAddQER
	CmdDelPDR
	CmdDelFAR
	CmdDelQER
	CmdGetPDR
	CmdGetFAR
	CmdGetQER
	CmdAddURR
	CmdAddBAR
	CmdDelURR
	CmdDelBAR
	CmdGetURR
	CmdGetBAR
	CmdGetVersion
	CmdGetReport
	CmdBufferGTPU
	CmdGetMultiReports
	CmdGetUsageStatistic
)

// attribute numbers common to all rule kinds: 1 LINK, 3 <kind>_ID; SEID attribute number per kind
const (
	AttrLink = 1
	AttrID   = 3
)

var seidAttr = map[byte]int{'P': 11, 'F': 7, 'Q': 13, 'U': 8, 'B': 6}

func kindOf(cmd uint8) (kind byte, verb byte) {
	switch cmd {
	case CmdAddPDR:
		return 'P', 'A'
	case CmdAddFAR:
		return 'F', 'A'
	case CmdAddQER:
		return 'Q', 'A'
	case CmdAddURR:
		return 'U', 'A'
	case CmdAddBAR:
		return 'B', 'A'
	case CmdDelPDR:
		return 'P', 'D'
	case CmdDelFAR:
		return 'F', 'D'
	case CmdDelQER:
		return 'Q', 'D'
	case CmdDelURR:
		return 'U', 'D'
	case CmdDelBAR:
		return 'B', 'D'
	case CmdGetPDR:
		return 'P', 'G'
	case CmdGetFAR:
		return 'F', 'G'
	case CmdGetQER:
		return 'Q', 'G'
	case CmdGetURR:
		return 'U', 'G'
	case CmdGetBAR:
		return 'B', 'G'
	}
	return 0, 0
}

type Key struct {
	SEID uint64
	Kind byte
	ID   uint32
}

func (k Key) String() string { return fmt.Sprintf("%#x/%c%d", k.SEID, k.Kind, k.ID) }

// Rule is a stored rule: the attributes of the last ADD (create or the merged updates).
type Rule struct {
	Key   Key
	Attrs []nlw.Attr // without LINK, id and SEID
}

// Req is one request as the kernel saw it.
type Req struct {
	Type    uint16 // nlmsg type (family id for gtp5g commands)
	Flags   uint16
	Seq     uint32
	Cmd     uint8
	Attrs   []nlw.Attr
	Raw     []byte // genl payload after the genl header
	Errno   int    // answer: 0 = ok
	Replied int    // number of usage reports / objects returned
	Conn    int
}

// Create / Replace flags as go-gtp5gnl sets them
func (r Req) Excl() bool    { return r.Flags&syscall.NLM_F_EXCL != 0 }
func (r Req) Replace() bool { return r.Flags&syscall.NLM_F_REPLACE != 0 }

type Counters struct{ TV, UV, DV, TP, UP, DP uint64 }

type Kernel struct {
	mu        sync.Mutex
	FamilyID  uint16
	LinkIndex uint32
	Version   string
	Rules     map[Key]*Rule
	Log       []Req
	nReq      int
	// FailAt: request index (0-based over gtp5g commands) -> errno to answer with (no effect on the tables)
	FailAt map[int]int
	// UpdateURRReports: an URR update is answered with a usage report
	UpdateURRReports bool
	// Measure produces the counters reported for (seid, urr) by the n-th report of this kernel
	Measure func(seid uint64, urr uint32, n int) Counters
	nReport int
	Handed  []Handed
	conns   []*Conn
	Latency time.Duration
	// OnRequest, when set, is called in the requesting goroutine before every netlink request is handed to the
	// kernel (E3: a scheduling point, i.e. a data-plane call that takes arbitrarily long)
	OnRequest func()
}

// Handed is one usage report the kernel produced.
type Handed struct {
	SEID    uint64
	URR     uint32
	N       int
	C       Counters
	Start   time.Time
	End     time.Time
	Trigger uint32
	ReqIdx  int
}

func New() *Kernel {
	return &Kernel{FamilyID: 0x1d, LinkIndex: 7, Version: "0.9.5", Rules: map[Key]*Rule{}, FailAt: map[int]int{},
		Measure: func(seid uint64, urr uint32, n int) Counters {
			b := uint64(0x0100000000000000) | (seid&0xff)<<40 | uint64(urr&0xff)<<32 | uint64(n&0xffff)<<8
			return Counters{b | 0x11, b | 0x22, b | 0x33, b | 0x44, b | 0x55, b | 0x66}
		}}
}

var t0 = time.Unix(1700000000, 0).UTC()

// Conn is the client end handed to nl.NewClient.
type Conn struct {
	k    *Kernel
	idx  int
	fd   int // client end
	kfd  int // kernel end
	seq  int
	done chan struct{}
	once sync.Once
}

func (k *Kernel) NewConn() *Conn {
	fds, err := syscall.Socketpair(syscall.AF_UNIX, syscall.SOCK_DGRAM|syscall.SOCK_CLOEXEC, 0)
	if err != nil {
		panic(err)
	}
	for _, fd := range fds {
		_ = syscall.SetsockoptInt(fd, syscall.SOL_SOCKET, syscall.SO_SNDBUF, 4<<20)
		_ = syscall.SetsockoptInt(fd, syscall.SOL_SOCKET, syscall.SO_RCVBUF, 4<<20)
	}
	k.mu.Lock()
	c := &Conn{k: k, idx: len(k.conns), fd: fds[0], kfd: fds[1], seq: 1, done: make(chan struct{})}
	k.conns = append(k.conns, c)
	k.mu.Unlock()
	go c.serve()
	return c
}

func (c *Conn) Fd() int { return c.fd }

// Close is idempotent (a descriptor number must never be closed twice: the second close would hit whoever owns
// the number by then), and the kernel end is closed only after the serving goroutine has left its read: a
// goroutine still blocked in read(kfd) when the number is reused by the next world's socketpair would consume
// that world's requests and answer them from this (dead) kernel's state.
func (c *Conn) Close() {
	c.once.Do(func() {
		syscall.Close(c.fd)
		syscall.Shutdown(c.kfd, syscall.SHUT_RDWR)
		select {
		case <-c.done:
		case <-time.After(5 * time.Second):
		}
		syscall.Close(c.kfd)
	})
}
func (c *Conn) Read(b []byte) (int, error) {
	n, _, err := syscall.Recvfrom(c.fd, b, 0)
	return n, err
}
func (c *Conn) Write(b []byte) (int, error) { return syscall.Write(c.fd, b) }
func (c *Conn) Writev(iovs []syscall.Iovec) (int, error) {
	if f := c.k.OnRequest; f != nil {
		f()
	}
	// gather (the request is small; one datagram)
	var buf []byte
	for _, v := range iovs {
		buf = append(buf, unsafeBytes(v)...)
	}
	return syscall.Write(c.fd, buf)
}
func (c *Conn) TakeSeq() int { s := c.seq; c.seq++; return s }

// CloseAll closes every connection of this kernel (end of a world).
func (k *Kernel) CloseAll() {
	k.mu.Lock()
	cs := k.conns
	k.conns = nil
	k.mu.Unlock()
	for _, c := range cs {
		c.Close()
	}
}

func (c *Conn) serve() {
	buf := make([]byte, 256<<10)
	for {
		n, err := syscall.Read(c.kfd, buf)
		if err != nil || n <= 0 {
			close(c.done)
			return
		}
		msg := append([]byte{}, buf[:n]...)
		for len(msg) >= 16 {
			l := int(binary.LittleEndian.Uint32(msg[0:4]))
			if l < 16 || l > len(msg) {
				break
			}
			out := c.k.handle(c.idx, msg[:l])
			if c.k.Latency > 0 {
				time.Sleep(c.k.Latency)
			}
			if len(out) > 0 {
				if _, err := syscall.Write(c.kfd, out); err != nil {
					close(c.done)
					return
				}
			}
			msg = msg[(l+3)&^3:]
		}
	}
}

func nlmsg(typ uint16, flags uint16, seq uint32, payload []byte) []byte {
	b := make([]byte, 16+len(payload))
	binary.LittleEndian.PutUint32(b[0:4], uint32(len(b)))
	binary.LittleEndian.PutUint16(b[4:6], typ)
	binary.LittleEndian.PutUint16(b[6:8], flags)
	binary.LittleEndian.PutUint32(b[8:12], seq)
	binary.LittleEndian.PutUint32(b[12:16], 4242) // port id: non-zero, as for a kernel reply to a bound socket
	copy(b[16:], payload)
	for len(b)%4 != 0 {
		b = append(b, 0)
	}
	return b
}

func ack(seq uint32, errno int, orig []byte) []byte {
	p := make([]byte, 4+16)
	binary.LittleEndian.PutUint32(p[0:4], uint32(int32(-errno)))
	copy(p[4:], orig[:16])
	return nlmsg(syscall.NLMSG_ERROR, 0, seq, p)
}

func genl(cmd uint8, attrs ...[]byte) []byte {
	p := []byte{cmd, 0, 0, 0}
	for _, a := range attrs {
		p = append(p, a...)
	}
	return p
}

func (k *Kernel) handle(conn int, m []byte) []byte {
	typ := binary.LittleEndian.Uint16(m[4:6])
	flags := binary.LittleEndian.Uint16(m[6:8])
	seq := binary.LittleEndian.Uint32(m[8:12])
	k.mu.Lock()
	defer k.mu.Unlock()
	if typ != k.FamilyID || len(m) < 20 {
		// rtnetlink / controller requests of the link helper: acknowledge
		return ack(seq, 0, m)
	}
	cmd := m[16]
	raw := m[20:]
	attrs, werr := nlw.Walk(raw)
	req := Req{Type: typ, Flags: flags, Seq: seq, Cmd: cmd, Attrs: attrs, Raw: append([]byte{}, raw...), Conn: conn}
	idx := k.nReq
	k.nReq++
	finish := func(errno int, replies ...[]byte) []byte {
		req.Errno = errno
		k.Log = append(k.Log, req)
		var out []byte
		if errno == 0 {
			for _, r := range replies {
				out = append(out, r...)
			}
		}
		return append(out, ack(seq, errno, m)...)
	}
	if werr != nil {
		return finish(int(syscall.EINVAL))
	}
	if e, ok := k.FailAt[idx]; ok {
		return finish(e)
	}
	if cmd == CmdGetVersion {
		return finish(0, nlmsg(k.FamilyID, 0, seq, genl(cmd, nlw.Enc(1, append([]byte(k.Version), 0)))))
	}
	if l, ok := nlw.One(attrs, AttrLink); !ok {
		return finish(int(syscall.ENODEV))
	} else if v, ok := l.U32(); !ok || v != k.LinkIndex {
		return finish(int(syscall.ENODEV))
	}
	if cmd == CmdGetMultiReports {
		var urs [][]byte
		for _, a := range nlw.Find(attrs, 11) { // URR_MULTI_SEID_URRID
			ch := a.Children()
			ida, ok1 := nlw.One(ch, AttrID)
			sa, ok2 := nlw.One(ch, seidAttr['U'])
			if !ok1 || !ok2 {
				return finish(int(syscall.EINVAL))
			}
			id, _ := ida.U32()
			seid, _ := sa.U64()
			if _, ok := k.Rules[Key{seid, 'U', id}]; ok {
				urs = append(urs, k.report(seid, id, 0, idx))
			}
		}
		req.Replied = len(urs)
		return finish(0, nlmsg(k.FamilyID, 0, seq, genl(cmd, urs...)))
	}
	if cmd == CmdGetReport {
		key, ok := k.keyOf('U', attrs)
		if !ok {
			return finish(int(syscall.EINVAL))
		}
		if _, ok := k.Rules[key]; !ok {
			return finish(int(syscall.ENOENT))
		}
		req.Replied = 1
		return finish(0, nlmsg(k.FamilyID, 0, seq, genl(cmd, k.report(key.SEID, key.ID, 0, idx))))
	}
	kind, verb := kindOf(cmd)
	if kind == 0 {
		return finish(int(syscall.EOPNOTSUPP))
	}
	key, ok := k.keyOf(kind, attrs)
	if !ok {
		return finish(int(syscall.EINVAL))
	}
	switch verb {
	case 'A':
		var rest []nlw.Attr
		for _, a := range attrs {
			if a.Type != AttrLink && a.Type != AttrID && a.Type != seidAttr[kind] {
				rest = append(rest, a)
			}
		}
		cur, exists := k.Rules[key]
		switch {
		case flags&syscall.NLM_F_REPLACE != 0:
			if !exists {
				return finish(int(syscall.ENOENT))
			}
			// an update replaces the attributes it carries (repeated attributes as a group)
			seen := map[int]bool{}
			for _, a := range rest {
				seen[a.Type] = true
			}
			var merged []nlw.Attr
			for _, a := range cur.Attrs {
				if !seen[a.Type] {
					merged = append(merged, a)
				}
			}
			cur.Attrs = append(merged, rest...)
			if kind == 'U' && k.UpdateURRReports {
				req.Replied = 1
				return finish(0, nlmsg(k.FamilyID, 0, seq, genl(cmd, k.report(key.SEID, key.ID, 0, idx))))
			}
			return finish(0)
		default:
			if exists {
				return finish(int(syscall.EEXIST))
			}
			k.Rules[key] = &Rule{Key: key, Attrs: rest}
			return finish(0)
		}
	case 'D':
		if _, exists := k.Rules[key]; !exists {
			return finish(int(syscall.ENOENT))
		}
		if kind == 'U' {
			r := k.report(key.SEID, key.ID, 0, idx)
			delete(k.Rules, key)
			req.Replied = 1
			return finish(0, nlmsg(k.FamilyID, 0, seq, genl(cmd, r)))
		}
		delete(k.Rules, key)
		return finish(0)
	case 'G':
		r, exists := k.Rules[key]
		if !exists {
			return finish(int(syscall.ENOENT))
		}
		var out [][]byte
		switch kind {
		case 'P':
			out = append(out, nlw.EncU16(AttrID, uint16(key.ID)))
		case 'B':
			out = append(out, nlw.EncU8(AttrID, uint8(key.ID)))
		default:
			out = append(out, nlw.EncU32(AttrID, key.ID))
		}
		for _, a := range r.Attrs {
			t := a.Type
			if kind == 'P' && t == 9 { // the netlink unix socket path is not returned by GET_PDR
				continue
			}
			if a.Nested {
				out = append(out, nlw.Nest(t, a.Data))
			} else {
				out = append(out, nlw.Enc(t, a.Data))
			}
		}
		out = append(out, nlw.EncU64(seidAttr[kind], key.SEID))
		if kind == 'F' || kind == 'Q' {
			// related PDRs: those of the same session that link this FAR / QER
			link := map[byte]int{'F': 7, 'Q': 10}[kind]
			var ids []int
			for pk, p := range k.Rules {
				if pk.Kind != 'P' || pk.SEID != key.SEID {
					continue
				}
				for _, a := range nlw.Find(p.Attrs, link) {
					if v, ok := a.U32(); ok && v == key.ID {
						ids = append(ids, int(pk.ID))
						break
					}
				}
			}
			sort.Ints(ids)
			var b []byte
			for _, id := range ids {
				b = binary.LittleEndian.AppendUint16(b, uint16(id))
			}
			if len(b) > 0 {
				out = append(out, nlw.Enc(map[byte]int{'F': 6, 'Q': 12}[kind], b))
			}
		}
		req.Replied = 1
		return finish(0, nlmsg(k.FamilyID, 0, seq, genl(cmd, out...)))
	}
	return finish(int(syscall.EOPNOTSUPP))
}

func (k *Kernel) keyOf(kind byte, attrs []nlw.Attr) (Key, bool) {
	ida, ok := nlw.One(attrs, AttrID)
	if !ok {
		return Key{}, false
	}
	var id uint32
	switch len(ida.Data) {
	case 1:
		id = uint32(ida.Data[0])
	case 2:
		id = uint32(binary.LittleEndian.Uint16(ida.Data))
	case 4:
		id = binary.LittleEndian.Uint32(ida.Data)
	default:
		return Key{}, false
	}
	key := Key{Kind: kind, ID: id}
	if sa, ok := nlw.One(attrs, seidAttr[kind]); ok {
		v, ok := sa.U64()
		if !ok {
			return Key{}, false
		}
		key.SEID = v
	}
	return key, true
}

// report builds one UR attribute and records it.
func (k *Kernel) report(seid uint64, urr uint32, trigger uint32, reqIdx int) []byte {
	n := k.nReport
	k.nReport++
	c := k.Measure(seid, urr, n)
	h := Handed{SEID: seid, URR: urr, N: n, C: c, Start: t0.Add(time.Duration(n) * time.Second), End: t0.Add(time.Duration(n)*time.Second + 500*time.Millisecond), Trigger: trigger, ReqIdx: reqIdx}
	k.Handed = append(k.Handed, h)
	return EncodeUR(h)
}

// EncodeUR encodes a usage report as the kernel does (UR nested attribute).
func EncodeUR(h Handed) []byte {
	return nlw.Nest(5,
		nlw.EncU32(3, h.URR),
		nlw.EncU32(4, h.Trigger),
		nlw.Nest(6,
			nlw.EncU64(2, h.C.TV), nlw.EncU64(3, h.C.UV), nlw.EncU64(4, h.C.DV),
			nlw.EncU64(5, h.C.TP), nlw.EncU64(6, h.C.UP), nlw.EncU64(7, h.C.DP)),
		nlw.EncU64(8, uint64(h.Start.UnixNano())),
		nlw.EncU64(9, uint64(h.End.UnixNano())),
		nlw.EncU64(10, h.SEID))
}

// ---- inspection -------------------------------------------------------------------------------------

func (k *Kernel) TakeLog() []Req {
	k.mu.Lock()
	defer k.mu.Unlock()
	l := k.Log
	k.Log = nil
	return l
}

func (k *Kernel) NReq() int { k.mu.Lock(); defer k.mu.Unlock(); return k.nReq }

func (k *Kernel) Get(key Key) (*Rule, bool) {
	k.mu.Lock()
	defer k.mu.Unlock()
	r, ok := k.Rules[key]
	return r, ok
}

func (k *Kernel) Keys() []Key {
	k.mu.Lock()
	defer k.mu.Unlock()
	var out []Key
	for x := range k.Rules {
		out = append(out, x)
	}
	sort.Slice(out, func(i, j int) bool {
		a, b := out[i], out[j]
		if a.SEID != b.SEID {
			return a.SEID < b.SEID
		}
		if a.Kind != b.Kind {
			return a.Kind < b.Kind
		}
		return a.ID < b.ID
	})
	return out
}

func (k *Kernel) Dump(lab func(uint64) string) string {
	s := ""
	for _, x := range k.Keys() {
		if lab != nil {
			s += fmt.Sprintf("%s/%c%d ", lab(x.SEID), x.Kind, x.ID)
		} else {
			s += x.String() + " "
		}
	}
	return s
}

func (k *Kernel) TakeHanded() []Handed {
	k.mu.Lock()
	defer k.mu.Unlock()
	h := k.Handed
	k.Handed = nil
	return h
}

// ---- notifications (multicast messages handed to buffnetlink.Server.ServeMsg by the harness) -----------

// BufferMsg builds the genl payload (after the nlmsg header) of a BUFFER notification.
func BufferMsg(seid uint64, pdr uint16, action uint16, pkt []byte) []byte {
	return genl(CmdBufferGTPU, nlw.Nest(1,
		nlw.Enc(4, pkt), nlw.EncU16(5, pdr), nlw.EncU64(6, seid), nlw.EncU16(7, action)))
}

// ReportMsg builds the genl payload of a REPORT notification carrying the given reports.
func ReportMsg(rs []Handed) []byte {
	var urs [][]byte
	for _, h := range rs {
		urs = append(urs, EncodeUR(h))
	}
	return genl(CmdGetReport, nlw.Nest(2, urs...))
}

func unsafeBytes(v syscall.Iovec) []byte {
	if v.Len == 0 || v.Base == nil {
		return nil
	}
	return unsafe.Slice(v.Base, int(v.Len))
}

// Reset empties the rule table (translation checks reuse one kernel for many shapes).
func (k *Kernel) Reset() {
	k.mu.Lock()
	k.Rules = map[Key]*Rule{}
	k.mu.Unlock()
}

// Put installs an empty rule so that an update finds something to replace.
// Drop removes a rule from the tables without a request (a rule the data plane lost, e.g. removed out of band): a
// later removal request for it is answered ENOENT.
func (k *Kernel) Drop(key Key) {
	k.mu.Lock()
	delete(k.Rules, key)
	k.mu.Unlock()
}

func (k *Kernel) Put(key Key) {
	k.mu.Lock()
	k.Rules[key] = &Rule{Key: key}
	k.mu.Unlock()
}
