//go:build verif && !vsched

// Package e3host: the check-driver side of the E3 explorations: runs the vsched-flavour worker (built from the
// mechanically rewritten sources of the current tree) and turns its report into violations and evidence.
package e3host

import (
	"bufio"
	"encoding/json"
	"fmt"
	"os"
	"os/exec"
	"strings"

	"github.com/free5gc/go-upf/internal/verif/evid"
)

type Finding struct {
	Sig      string   `json:"sig"`
	What     string   `json:"what"`
	Schedule []int    `json:"schedule"`
	Trace    []string `json:"trace"`
}

type Scenario struct {
	Name        string    `json:"name"`
	Schedules   int64     `json:"schedules"`
	Points      int64     `json:"scheduling_points"`
	Longest     int       `json:"longest_schedule"`
	BoundDone   int       `json:"preemption_bound_completed"`
	Preemptions int       `json:"max_preemptions_taken"`
	Outcomes    int       `json:"distinct_outcomes"`
	Exhaustive  bool      `json:"exhaustive"`
	Truncated   int64     `json:"truncated_schedules"`
	Pruned      int64     `json:"points_pruned_by_state_key"`
	Findings    []Finding `json:"findings"`
	Samples     []string  `json:"samples"`
	WallS       float64   `json:"wall_s"`
}

type Report struct {
	Property   string         `json:"property"`
	Scenarios  []Scenario     `json:"scenarios"`
	Inventory  map[string]int `json:"rewrite_inventory"`
	SelfTestOK bool           `json:"selftest_ok"`
}

func vsWorker() string {
	return fmt.Sprintf("%s/worker-vs.run.%s", os.Getenv("VERIF_BUILD"), os.Getenv("VERIF_RUNID"))
}

// Exec runs `worker-vs e3 <prop> <tier>` and returns its report.
func Exec(prop, tier string, extra ...string) *Report {
	bin := vsWorker()
	if _, err := os.Stat(bin); err != nil {
		bin = os.Getenv("VERIF_BUILD") + "/worker-vs"
	}
	args := append([]string{"e3", prop, tier}, extra...)
	cmd := exec.Command(bin, args...)
	cmd.Env = os.Environ()
	cmd.Stderr = os.Stderr
	out, err := cmd.StdoutPipe()
	if err != nil {
		evid.Infra("%v", err)
	}
	if err := cmd.Start(); err != nil {
		evid.Infra("cannot start the vsched worker: %v", err)
	}
	var rep *Report
	sc := bufio.NewScanner(out)
	sc.Buffer(make([]byte, 1<<20), 64<<20)
	for sc.Scan() {
		l := sc.Text()
		if strings.HasPrefix(l, "E3RESULT ") {
			rep = &Report{}
			if err := json.Unmarshal([]byte(l[9:]), rep); err != nil {
				evid.Infra("bad E3 report: %v", err)
			}
		} else if strings.HasPrefix(l, "INFRA") {
			evid.Infra("vsched worker: %s", strings.TrimSpace(l[5:]))
		}
	}
	if err := cmd.Wait(); err != nil || rep == nil {
		evid.Infra("vsched worker failed: %v", err)
	}
	return rep
}

// Apply reports the findings of rep through run (prefixing signatures with the property) and merges coverage.
// keep decides which findings belong to the property (nil: all).
func Apply(run *evid.Run, rep *Report, prop string, keep func(sig string) bool) (schedules, points int64, outcomes int, exhaustive bool, samples []interface{}) {
	exhaustive = true
	for _, s := range rep.Scenarios {
		schedules += s.Schedules
		points += s.Points
		outcomes += s.Outcomes
		if !s.Exhaustive {
			exhaustive = false
		}
		for _, x := range s.Samples {
			if len(samples) < 8 {
				samples = append(samples, s.Name+": "+x)
			}
		}
		run.Set("scenario:"+s.Name, map[string]interface{}{"schedules": s.Schedules, "scheduling_points": s.Points, "longest_schedule": s.Longest,
			"preemption_bound_completed": s.BoundDone, "max_preemptions_taken": s.Preemptions, "distinct_outcomes": s.Outcomes,
			"exhaustive_within_bound": s.Exhaustive, "points_pruned_by_state_key": s.Pruned, "wall_s": s.WallS})
		for _, f := range s.Findings {
			if strings.HasPrefix(f.Sig, "INFRA") {
				evid.Infra("scenario %s: %s", s.Name, f.What)
			}
			if keep != nil && !keep(f.Sig) {
				continue
			}
			run.Report(evid.Violation{Signature: prop + ":" + f.Sig, Engine: "E3-vsched", Scenario: s.Name,
				What:   f.What + " -- schedule (choice indices) " + fmt.Sprint(f.Schedule),
				Replay: map[string]interface{}{"scenario": s.Name, "schedule": f.Schedule, "trace": f.Trace}})
		}
	}
	run.Set("rewrite_inventory", rep.Inventory)
	return
}

// RunC18 is the check entry point of C18.
func RunC18(tier string) {
	run := evid.NewRun("C18", tier)
	rep := Exec("C18", tier)
	sch, pts, out, exh, smp := Apply(run, rep, "C18", nil)
	run.Set("states", sch)
	run.Set("transitions", pts)
	run.Set("traces_validated_against_impl", sch)
	run.Set("schedules", sch)
	run.Set("distinct_outcomes", out)
	run.Set("exhaustive", exh)
	run.Set("samples", smp)
	run.Set("explanation", "states = complete schedules executed, transitions = scheduling points taken; every schedule is an execution of the real code (channel/timer operations of internal/pfcp and internal/forwarder/perio mechanically redirected to the cooperative scheduler), so traces_validated_against_impl = schedules")
	run.Set("bound", "scaled instances: virtual capacities of the periodic server's event queue and the report queue overridden to 1..3 (source constants untouched), 2..4 sessions x 1..2 periodic URRs, bulk = re-association / N deletions / N establishments, 1..2 ticks, optional kernel report batch and heartbeat; preemption bound per scenario as listed (iterated from 0); state-key pruning on")
	run.Assumption("vsched reproduces Go channel semantics (self-tests against known outcome sets and real goroutines run before every exploration); the rewriter is total on the constructs of the two packages (inventory in the evidence)")
	run.Assumption("the simulated kernel answers netlink requests immediately (data-plane call latency is not a dimension of the scaled instances)")
	if sch < 2 {
		evid.Infra("vacuous exploration")
	}
	run.Finish()
}
