//go:build verif && !vsched

// Package e3host: the check-driver side of the E3 explorations: runs the vsched-flavour worker (built from the
// mechanically rewritten sources of the current tree) and turns its report into violations and evidence.
package e3host

import (
	"bufio"
	"encoding/json"
	"fmt"
	"os"
	"os/exec"
	"sort"
	"strings"

	"github.com/free5gc/go-upf/internal/verif/evid"
)

type Finding struct {
	Sig      string   `json:"sig"`
	What     string   `json:"what"`
	Schedule []int    `json:"schedule"`
	Trace    []string `json:"trace"`
}

type Scenario struct {
	Name        string    `json:"name"`
	Schedules   int64     `json:"schedules"`
	Points      int64     `json:"scheduling_points"`
	Longest     int       `json:"longest_schedule"`
	BoundDone   int       `json:"preemption_bound_completed"`
	Preemptions int       `json:"max_preemptions_taken"`
	Outcomes    int       `json:"distinct_outcomes"`
	Exhaustive  bool      `json:"exhaustive"`
	Truncated   int64     `json:"truncated_schedules"`
	Pruned      int64     `json:"points_pruned_by_state_key"`
	Findings    []Finding `json:"findings"`
	Samples     []string  `json:"samples"`
	WallS       float64   `json:"wall_s"`
	Diverged    int64     `json:"prefixes_not_replayable"`
	DivSample   string    `json:"divergence_sample"`
}

type Report struct {
	Property   string         `json:"property"`
	Scenarios  []Scenario     `json:"scenarios"`
	Inventory  map[string]int `json:"rewrite_inventory"`
	SelfTestOK bool           `json:"selftest_ok"`
}

func vsWorker(flavour string) string {
	return fmt.Sprintf("%s/worker-%s.run.%s", os.Getenv("VERIF_BUILD"), flavour, os.Getenv("VERIF_RUNID"))
}

// Exec runs `worker-vs e3 <prop> <tier>` and returns its report.
func Exec(prop, tier string, extra ...string) *Report { return ExecFlavour("vs", prop, tier, extra...) }

// ExecFlavour: flavour "vs" (rewritten channel/timer operations) or "vsr" (plus access reports for the race oracle).
func ExecFlavour(flavour, prop, tier string, extra ...string) *Report {
	bin := vsWorker(flavour)
	if _, err := os.Stat(bin); err != nil {
		bin = os.Getenv("VERIF_BUILD") + "/worker-" + flavour
	}
	args := append([]string{"e3", prop, tier}, extra...)
	cmd := exec.Command(bin, args...)
	cmd.Env = os.Environ()
	cmd.Stderr = os.Stderr
	out, err := cmd.StdoutPipe()
	if err != nil {
		evid.Infra("%v", err)
	}
	if err := cmd.Start(); err != nil {
		evid.Infra("cannot start the vsched worker: %v", err)
	}
	var rep *Report
	sc := bufio.NewScanner(out)
	sc.Buffer(make([]byte, 1<<20), 64<<20)
	for sc.Scan() {
		l := sc.Text()
		if strings.HasPrefix(l, "E3RESULT ") {
			rep = &Report{}
			if err := json.Unmarshal([]byte(l[9:]), rep); err != nil {
				evid.Infra("bad E3 report: %v", err)
			}
		} else if strings.HasPrefix(l, "INFRA") {
			evid.Infra("vsched worker: %s", strings.TrimSpace(l[5:]))
		}
	}
	if err := cmd.Wait(); err != nil || rep == nil {
		evid.Infra("vsched worker failed: %v", err)
	}
	return rep
}

// Apply reports the findings of rep through run (prefixing signatures with the property) and merges coverage.
// keep decides which findings belong to the property (nil: all).
func Apply(run *evid.Run, rep *Report, prop string, keep func(sig string) bool) (schedules, points int64, outcomes int, exhaustive bool, samples []interface{}) {
	exhaustive = true
	for _, s := range rep.Scenarios {
		schedules += s.Schedules
		points += s.Points
		outcomes += s.Outcomes
		if !s.Exhaustive {
			exhaustive = false
		}
		for _, x := range s.Samples {
			if len(samples) < 8 {
				samples = append(samples, s.Name+": "+x)
			}
		}
		var sigs []string
		for _, f := range s.Findings {
			sigs = append(sigs, f.Sig)
		}
		run.Set("scenario:"+s.Name, map[string]interface{}{"findings": sigs, "schedules": s.Schedules, "scheduling_points": s.Points, "longest_schedule": s.Longest,
			"preemption_bound_completed": s.BoundDone, "max_preemptions_taken": s.Preemptions, "distinct_outcomes": s.Outcomes,
			"exhaustive_within_bound": s.Exhaustive, "points_pruned_by_state_key": s.Pruned, "wall_s": s.WallS,
			"prefixes_not_replayable": s.Diverged, "divergence_sample": s.DivSample})
		if s.Diverged > 0 {
			fmt.Printf("WARNING scenario %s: %d schedule prefixes could not be replayed (nondeterminism outside the scheduler); their subtrees were not explored: %s\n", s.Name, s.Diverged, evid.Short(s.DivSample, 700))
		}
		for _, f := range s.Findings {
			if strings.HasPrefix(f.Sig, "INFRA") {
				evid.Infra("scenario %s: %s", s.Name, f.What)
			}
			if keep != nil && !keep(f.Sig) {
				continue
			}
			run.Report(evid.Violation{Signature: prop + ":" + f.Sig, Engine: "E3-vsched", Scenario: s.Name,
				What:   f.What + " -- schedule (choice indices) " + fmt.Sprint(f.Schedule),
				Replay: map[string]interface{}{"scenario": s.Name, "schedule": f.Schedule, "trace": f.Trace}})
		}
	}
	run.Set("rewrite_inventory", rep.Inventory)
	return
}

// RunC18 is the check entry point of C18.
func RunC18(tier string) {
	run := evid.NewRun("C18", tier)
	rep := Exec("C18", tier)
	sch, pts, out, exh, smp := Apply(run, rep, "C18", nil)
	run.Set("states", sch)
	run.Set("transitions", pts)
	run.Set("traces_validated_against_impl", sch)
	run.Set("schedules", sch)
	run.Set("distinct_outcomes", out)
	run.Set("exhaustive", exh)
	run.Set("samples", smp)
	run.Set("explanation", "states = complete schedules executed, transitions = scheduling points taken; every schedule is an execution of the real code (channel/timer operations of internal/pfcp and internal/forwarder/perio mechanically redirected to the cooperative scheduler), so traces_validated_against_impl = schedules")
	run.Set("bound", "scaled instances: virtual capacities of the periodic server's event queue and the report queue overridden to 1..3 (source constants untouched), 2..4 sessions x 1..2 periodic URRs, bulk = re-association / N deletions / N establishments, 1..2 ticks, optional kernel report batch and heartbeat; preemption bound per scenario as listed (iterated from 0); state-key pruning on")
	run.Assumption("vsched reproduces Go channel semantics (self-tests against known outcome sets and real goroutines run before every exploration); the rewriter is total on the constructs of the two packages (inventory in the evidence)")
	run.Assumption("the simulated kernel answers netlink requests immediately (data-plane call latency is not a dimension of the scaled instances)")
	if sch < 2 {
		evid.Infra("vacuous exploration")
	}
	run.Finish()
}

func raceWorker() string {
	p := fmt.Sprintf("%s/worker-race.run.%s", os.Getenv("VERIF_BUILD"), os.Getenv("VERIF_RUNID"))
	if _, err := os.Stat(p); err != nil {
		p = os.Getenv("VERIF_BUILD") + "/worker-race"
	}
	return p
}

// RaceReport is one distinct data race of the free-running pass.
type RaceReport struct {
	Sig   string
	Text  string
	Count int
}

// implFrame: first frame of a race-report stack that belongs to the implementation (not the harness, not runtime).
func implFrame(lines []string) string {
	for i := 0; i+1 < len(lines); i += 2 {
		fn := strings.TrimSpace(lines[i])
		file := strings.TrimSpace(lines[i+1])
		if !strings.Contains(fn, "github.com/free5gc/go-upf/") {
			continue
		}
		if strings.Contains(file, "zz_verif") || strings.Contains(fn, "/internal/verif/") || strings.Contains(fn, "cmd/verif-worker") {
			continue
		}
		fn = strings.TrimSuffix(fn, "()")
		return fn[strings.LastIndex(fn, "/")+1:]
	}
	return "(outside the implementation)"
}

// ParseRaces splits the race detector's output into distinct races keyed by the implementation functions of the
// two conflicting accesses.
func ParseRaces(out string) []RaceReport {
	m := map[string]*RaceReport{}
	var order []string
	for _, blk := range strings.Split(out, "==================") {
		if !strings.Contains(blk, "WARNING: DATA RACE") {
			continue
		}
		var accs []string
		lines := strings.Split(blk, "\n")
		for i := 0; i < len(lines); i++ {
			l := lines[i]
			if (strings.Contains(l, " at 0x") && strings.Contains(l, " by ")) && !strings.HasPrefix(strings.TrimSpace(l), "Goroutine") {
				kind := strings.ToLower(strings.Fields(strings.TrimPrefix(strings.TrimSpace(l), "Previous "))[0])
				var st []string
				for j := i + 1; j < len(lines) && strings.TrimSpace(lines[j]) != ""; j++ {
					st = append(st, lines[j])
				}
				accs = append(accs, kind+" in "+implFrame(st))
			}
		}
		sort.Strings(accs)
		sig := "race:" + strings.Join(accs, " / ")
		if m[sig] == nil {
			m[sig] = &RaceReport{Sig: sig, Text: strings.TrimSpace(blk)}
			order = append(order, sig)
		}
		m[sig].Count++
	}
	var res []RaceReport
	for _, s := range order {
		res = append(res, *m[s])
	}
	return res
}

// racePass runs the free-running -race complement: procs processes x iters iterations each.
func racePass(procs, iters int) (races []RaceReport, crashes []string, ran int) {
	type res struct {
		out string
		err error
	}
	ch := make(chan res, procs)
	for p := 0; p < procs; p++ {
		go func(p int) {
			cmd := exec.Command(raceWorker(), "racepass", fmt.Sprint(iters), fmt.Sprint(1000+p))
			cmd.Env = append(os.Environ(), "GORACE=halt_on_error=0 exitcode=0")
			b, err := cmd.CombinedOutput()
			ch <- res{string(b), err}
		}(p)
	}
	all := ""
	for p := 0; p < procs; p++ {
		r := <-ch
		all += r.out
		if strings.Contains(r.out, "RACEPASS iterations=") {
			ran += iters
		} else {
			tail := r.out
			if len(tail) > 1500 {
				tail = tail[len(tail)-1500:]
			}
			head := ""
			for _, l := range strings.Split(r.out, "\n") {
				if strings.HasPrefix(l, "fatal error:") || strings.HasPrefix(l, "panic:") {
					head = l + "\n"
					break
				}
			}
			crashes = append(crashes, fmt.Sprintf("%s%v: %s", head, r.err, tail))
		}
	}
	return ParseRaces(all), crashes, ran
}

// RunC17 is the check entry point of C17.
func RunC17(tier string) {
	run := evid.NewRun("C17", tier)
	// the two explorations run side by side (each shards its scenarios over processes of its own)
	var repR *Report
	doneR := make(chan struct{})
	go func() { repR = ExecFlavour("vsr", "C17R", tier); close(doneR) }()
	rep := Exec("C17", tier)
	<-doneR
	sch, pts, out, exh, smp := Apply(run, rep, "C17", nil)
	schR, ptsR, outR, exhR, _ := Apply(run, repR, "C17", nil)
	run.Set("race_oracle", map[string]interface{}{"schedules": schR, "scheduling_points": ptsR, "distinct_outcomes": outR, "exhaustive_within_bounds": exhR,
		"access_reports_inserted": repR.Inventory["race-oracle access reports"],
		"how":                     "vsr flavour: the rewriter additionally inserts a report for every field / map / slice-element access of internal/pfcp and internal/forwarder/perio; vsched keeps vector clocks (edges: go statement, channel send->receive, close->receive, AfterFunc->callback) and flags two accesses to one location, one of them a write, with no happens-before path, in every explored schedule"})
	sch, pts, out, exh = sch+schR, pts+ptsR, out+outR, exh && exhR
	run.Set("states", sch)
	run.Set("transitions", pts)
	run.Set("traces_validated_against_impl", sch)
	run.Set("schedules", sch)
	run.Set("distinct_outcomes", out)
	run.Set("exhaustive", exh)
	run.Set("samples", smp)
	run.Set("explanation", "states = complete schedules executed, transitions = scheduling points taken; every schedule is an execution of the real code under the cooperative scheduler, so traces_validated_against_impl = schedules. Decided here: exactly-once processing of every notification and timeout, no panic, no deadlock, and complete termination (no goroutine left, no timer armed) after Stop placed at every scheduling point within the preemption bound.")
	run.Set("bound", "2-3 peers x 1-3 requests with duplicates, 1-3 report producers, transaction timers fired by the scheduler (fire budget 1-3), Stop as a thread of its own; preemption bound per scenario as listed (iterated from 0); state-key pruning on")
	run.Assumption("data races are decided by the happens-before oracle on every explored schedule of the C17R scenarios (instrumented packages: internal/pfcp, internal/forwarder/perio; locations: struct fields of those packages reached through pointers, maps, slice elements, package variables; accesses inside other packages' code, e.g. the gtp5g driver or go-pfcp message objects, are not instrumented); the free-running -race pass below is a sampled complement over the unrewritten code and decides nothing")
	run.Assumption("scenarios with state-key pruning extend the key by the set of (location, thread kind, read/write) combinations seen so far; pair scenarios run without any pruning")
	procs, iters := 4, 25
	if tier == "thorough" {
		procs, iters = 12, 150
	}
	races, crashes, ran := racePass(procs, iters)
	var sigs []string
	for _, r := range races {
		sigs = append(sigs, fmt.Sprintf("%s (x%d)", r.Sig, r.Count))
		run.Report(evid.Violation{Signature: "C17:" + r.Sig, Engine: "race-pass (free-running, go build -race; complement, not model checking)", Scenario: "racepass",
			What: "the race detector reports unsynchronised conflicting accesses: " + r.Sig, Replay: map[string]interface{}{"report": r.Text}})
	}
	for _, c := range crashes {
		if strings.Contains(c, "send on closed channel") {
			// the shutdown panic E3 finds systematically; here it only ends one sampling process early
			continue
		}
		// a crash of the free-running run that is not the known shutdown panic: the implementation faulted
		// (e.g. "fatal error: concurrent map writes")
		first := "process died"
		for _, l := range strings.Split(c, "\n") {
			if strings.HasPrefix(l, "fatal error:") || strings.HasPrefix(l, "panic:") {
				first = strings.TrimSpace(l)
				break
			}
		}
		if first == "process died" && !strings.Contains(c, "goroutine ") {
			evid.Infra("race-pass worker failed: %s", c)
		}
		run.Report(evid.Violation{Signature: "C17:racepass-crash:" + first, Engine: "race-pass (free-running, go build -race; complement, not model checking)", Scenario: "racepass",
			What: "the free-running run crashed: " + first, Replay: map[string]interface{}{"output_tail": c}})
	}
	run.Set("race_pass", map[string]interface{}{"role": "complement: free-running goroutines under the race detector on the unrewritten code; sampled, decides nothing",
		"processes": procs, "iterations_completed": ran, "distinct_races": sigs, "processes_ended_early": len(crashes)})
	if sch < 2 {
		evid.Infra("vacuous exploration")
	}
	run.Finish()
}
