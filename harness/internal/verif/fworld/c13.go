//go:build verif

package fworld

import (
	"fmt"
	"sort"
	"strings"
	"time"

	"github.com/free5gc/go-upf/internal/pfcp"
	"github.com/free5gc/go-upf/internal/verif/c14"
	"github.com/free5gc/go-upf/internal/verif/evid"
	"github.com/free5gc/go-upf/internal/verif/seqx"
	"github.com/free5gc/go-upf/internal/verif/simk"
	"github.com/free5gc/go-upf/internal/verif/smf"
	"github.com/free5gc/go-upf/internal/verif/sworld"
)

// C13 — buffered downlink packets are released in order, once, to the right tunnel.
//
// Start: peers A and B associated, one session each (s1 on A: PDR 1,2 -> FAR 1, PDR 1 with QER 1 = QFI 37, PDR 2 without QER; s2 on B:
// PDR 1,2 -> FAR 1, no QER); FAR 1 buffers and has an outer header creation towards the simulated gNB with a
// TEID of its own. Alphabet: Buf(session, pdr, nocp) one BUFFER notification with a unique payload;
// BufGone (never-existing SEID / ended session); Burst(session, pdr) 513 (thorough also 600) notifications;
// UpdFAR(session, action) for BUFF, BUFF|NOCP, FORW, DROP, FORW|NOCP; RemovePDR; Del; re-Est (SEID re-use).

const (
	aDROP = 0x01
	aFORW = 0x02
	aBUFF = 0x04
	aNOCP = 0x08
)

var farActions = []uint8{aBUFF, aBUFF | aNOCP, aFORW, aDROP, aFORW | aNOCP}

type bsess struct {
	k      int // establishment index
	up, cp uint64
	peer   int
	teid   uint32
	qfi    uint8 // 0: no QER
	action uint8
	pdr    map[uint16]bool
	q      map[uint16][]string
	cnt    map[uint16]int
}

type c13 struct {
	W      *World
	tier   string
	sess   [2]*bsess // by peer
	nEst   int
	estUP  []uint64
	ended  []uint64
	bursts int
	pre    seqx.Pre
}

func c13Spec(tier, scenario string) seqx.Spec {
	depth := 4
	dl := 110 * time.Second
	if tier == "thorough" {
		depth = 6
		dl = 25 * time.Minute
	}
	return seqx.Spec{Prop: "C13", Scenario: scenario, MaxDepth: depth, Deadline: dl, New: func() seqx.Instance {
		c := &c13{W: New(1), tier: tier}
		for p := 0; p < 2; p++ {
			c.W.Send(p, smf.Assoc(uint32(1), c.W.PeerIP(p)))
			c.pre.Add(c.est(p)...)
		}
		return c
	}}
}

func init() { seqx.Register("C13", c13Spec) }

func (c *c13) label(seid uint64) string {
	for k := len(c.estUP) - 1; k >= 0; k-- {
		if c.estUP[k] == seid {
			return fmt.Sprintf("s%d", k+1)
		}
	}
	return fmt.Sprintf("%#x", seid)
}

func (c *c13) est(p int) []seqx.Viol {
	c.nEst++
	teid := uint32(0x1000*(p+1) + c.nEst)
	qfi := uint8(0)
	ops := []smf.RuleOp{{Verb: 'C', Kind: 'F', ID: 1, Action: []byte{aBUFF}, TEID: teid, Peer: c.W.GNBAddr(), MInfo: -1}}
	if p == 0 {
		qfi = 37
		ops = append(ops, smf.RuleOp{Verb: 'C', Kind: 'Q', ID: 1, QFI: 37, MInfo: -1})
	}
	for _, id := range []uint32{1, 2} {
		o := smf.RuleOp{Verb: 'C', Kind: 'P', ID: id, FAR: 1, SrcIf: 1, UEIP: "10.60.0.1", MInfo: -1}
		if p == 0 && id == 1 {
			o.QERs = []uint32{1} // PDR 1 carries the QoS flow; PDR 2 of the same FAR has no QER
		}
		ops = append(ops, o)
	}
	o := c.W.Send(p, smf.Est(uint32(100+c.nEst), c.W.PeerIP(p), true, 0x10, c.W.PeerIP(p), ops...))
	if len(o.Out[p]) != 1 || o.Out[p][0].Cause() != smf.CauseAccepted {
		return []seqx.Viol{{Sig: "C13:est-not-accepted", What: fmt.Sprintf("establishment not accepted: %v", o.Out[p])}}
	}
	up, _, _ := o.Out[p][0].FSEID()
	c.estUP = append(c.estUP, up)
	c.sess[p] = &bsess{k: len(c.estUP), up: up, cp: 0x10, peer: p, teid: teid, qfi: qfi, action: aBUFF,
		pdr: map[uint16]bool{1: true, 2: true}, q: map[uint16][]string{}, cnt: map[uint16]int{}}
	c.W.GPDUs()
	return nil
}

func (c *c13) Enabled() []seqx.Event {
	var ev []seqx.Event
	nm := func(e seqx.Event, f string, a ...interface{}) seqx.Event { e.N = fmt.Sprintf(f, a...); return e }
	for p := 0; p < 2; p++ {
		s := c.sess[p]
		if s == nil {
			ev = append(ev, nm(seqx.Ev("Est", int64(p)), "Est(%c)", 'A'+p))
			continue
		}
		if p == 1 && c.tier != "thorough" {
			// the second session is there to catch cross-session emission: a small alphabet suffices
			ev = append(ev, nm(seqx.Ev("Buf", int64(p), 1, 0), "Buf(s%d,pdr 1)", s.k))
			ev = append(ev, nm(seqx.Ev("UpdFAR", int64(p), int64(aFORW)), "UpdFAR(s%d,FORW)", s.k))
			ev = append(ev, nm(seqx.Ev("Del", int64(p)), "Del(s%d)", s.k))
			continue
		}
		for _, pdr := range []int64{1, 2} {
			ev = append(ev, nm(seqx.Ev("Buf", int64(p), pdr, 0), "Buf(s%d,pdr %d)", s.k, pdr))
			ev = append(ev, nm(seqx.Ev("Buf", int64(p), pdr, 1), "Buf(s%d,pdr %d,NOCP)", s.k, pdr))
		}
		maxB := 1
		if c.tier == "thorough" {
			maxB = 2
		}
		if c.bursts < maxB {
			ev = append(ev, nm(seqx.Ev("Burst", int64(p), 1, 513), "Burst(s%d,pdr 1,513 packets)", s.k))
			if c.tier == "thorough" {
				ev = append(ev, nm(seqx.Ev("Burst", int64(p), 2, 600), "Burst(s%d,pdr 2,600 packets)", s.k))
			}
		}
		for _, a := range farActions {
			ev = append(ev, nm(seqx.Ev("UpdFAR", int64(p), int64(a)), "UpdFAR(s%d,%s)", s.k, actName(a)))
		}
		if s.pdr[2] {
			ev = append(ev, nm(seqx.Ev("RemovePDR", int64(p), 2), "RemovePDR(s%d,2)", s.k))
		}
		ev = append(ev, nm(seqx.Ev("Del", int64(p)), "Del(s%d)", s.k))
	}
	ev = append(ev, nm(seqx.Ev("BufGone", 0), "Buf(never-existing session)"))
	if len(c.ended) > 0 {
		ev = append(ev, nm(seqx.Ev("BufGone", 1), "Buf(ended session)"))
	}
	return ev
}

func actName(a uint8) string {
	var p []string
	for i, n := range []string{"DROP", "FORW", "BUFF", "NOCP"} {
		if a&(1<<i) != 0 {
			p = append(p, n)
		}
	}
	return strings.Join(p, "|")
}

func (c *c13) Key() string {
	var sb strings.Builder
	sb.WriteString(c.W.V.Dump(pfcp.DumpOpt{NoTrans: true, Label: c.label, NoSeq: true, QLenOnly: true}))
	sb.WriteString("K " + c.W.K.Dump(c.label))
	for p := 0; p < 2; p++ {
		if s := c.sess[p]; s != nil {
			var qs []string
			for pdr, q := range s.q {
				qs = append(qs, fmt.Sprintf("%d:%d", pdr, len(q))) // payload numbering is a renaming: not part of the state
			}
			sort.Strings(qs)
			fmt.Fprintf(&sb, "\nref s%d act=%#x pdr=%v q=%v", s.k, s.action, s.pdr, qs)
		}
	}
	fmt.Fprintf(&sb, " ended=%d bursts=%d", len(c.ended), c.bursts)
	return sb.String()
}

func payload(s *bsess, pdr uint16, n int) string {
	return fmt.Sprintf("pkt:s%d:pdr%d:#%d:%s", s.k, pdr, n, strings.Repeat("x", n%7))
}

func (c *c13) Apply(e seqx.Event) seqx.StepResult {
	j := &sworld.Judge{Prop: "C13"}
	var o sworld.StepObs
	emitted := func() [][]byte { g, _ := c.W.GPDUs(); return g }
	noEmit := func(what string) {
		if g := emitted(); len(g) != 0 {
			j.Fail("unexpected-emission:"+what, "%s: %d packet(s) were re-injected although nothing may be emitted here", what, len(g))
		}
	}
	switch e.Op {
	case "Est":
		j.Viols = append(j.Viols, c.est(int(e.A[0]))...)
		s := c.sess[int(e.A[0])]
		if s != nil {
			for _, old := range c.ended {
				if old == s.up {
					j.Tag("seid-reused")
				}
			}
		}
	case "Buf", "Burst":
		p, pdr := int(e.A[0]), uint16(e.A[1])
		s := c.sess[p]
		n, action := 1, uint16(aBUFF)
		if e.Op == "Burst" {
			n = int(e.A[2])
			c.bursts++
		} else if e.A[2] == 1 {
			action |= aNOCP
		}
		var dldr int
		for i := 0; i < n; i++ {
			s.cnt[pdr]++
			pl := payload(s, pdr, s.cnt[pdr])
			if len(s.q[pdr]) < 512 {
				s.q[pdr] = append(s.q[pdr], pl)
			} else {
				j.Tag("queue-full-drop-newest")
			}
			if i+1 < n {
				c.W.NotifyNoSettle(simk.BufferMsg(s.up, pdr, action, []byte(pl)))
				continue
			}
			o = c.W.Notify(simk.BufferMsg(s.up, pdr, action, []byte(pl)))
			if j.Crashed(c.W.World, o) {
				break
			}
			for q := range o.Out {
				for _, m := range o.Out[q] {
					if q == s.peer && m.Type == smf.MReportReq && len(m.DLDRs()) == 1 && m.DLDRs()[0] == pdr && m.SEID == s.cp {
						dldr++
					} else {
						j.Fail("unexpected-message:buffer", "buffer notification for %s caused %s to peer %c", c.label(s.up), m, 'A'+q)
					}
				}
			}
		}
		want := 0
		if action&aNOCP != 0 {
			want = n
		}
		if dldr != want {
			j.Fail(fmt.Sprintf("downlink-data-report:nocp=%v", action&aNOCP != 0), "%d buffer notification(s) with NOCP=%v for %s PDR %d raised %d downlink data report(s) towards the owning SMF, want %d", n, action&aNOCP != 0, c.label(s.up), pdr, dldr, want)
		}
		noEmit("buffer notification")
		c.queues(j, s)
	case "BufGone":
		seid := uint64(99)
		if e.A[0] == 1 {
			seid = c.ended[len(c.ended)-1]
			for p := 0; p < 2; p++ {
				if c.sess[p] != nil && c.sess[p].up == seid {
					// the SEID has been re-issued: the notification now belongs to the new session; skip
					return seqx.StepResult{Obs: e.String() + " (seid re-issued)"}
				}
			}
		}
		d0 := c.W.V.Dump(pfcp.DumpOpt{NoTrans: true, NoExtra: true})
		o = c.W.Notify(simk.BufferMsg(seid, 1, aBUFF|aNOCP, []byte("pkt:gone")))
		if j.Crashed(c.W.World, o) {
			break
		}
		if n := cnt(o); n != 0 || c.W.V.Dump(pfcp.DumpOpt{NoTrans: true, NoExtra: true}) != d0 {
			j.Fail("gone-session-buffered", "a buffer notification for a non-existent session caused %d message(s) or a state change", n)
		}
		noEmit("buffer notification for a non-existent session")
	case "UpdFAR":
		p, a := int(e.A[0]), uint8(e.A[1])
		s := c.sess[p]
		o = c.W.Send(p, smf.Mod(c.seq(), s.up, "", smf.RuleOp{Verb: 'U', Kind: 'F', ID: 1, Action: []byte{a}, MInfo: -1}))
		if j.Crashed(c.W.World, o) {
			break
		}
		if len(o.Out[p]) != 1 || o.Out[p][0].Cause() != smf.CauseAccepted {
			j.Fail("update-far-not-accepted", "Update FAR not accepted: %v", o.Out[p])
			break
		}
		got, from := c.W.GPDUs()
		var exp []string // expected emissions, per PDR in order
		switch {
		case s.action&aBUFF == 0:
		case a&aDROP != 0:
			for pdr := range s.pdr {
				s.q[pdr] = nil
			}
			j.Tag("buff->drop")
		case a&aFORW != 0:
			for _, pdr := range []uint16{1, 2} {
				if s.pdr[pdr] {
					exp = append(exp, s.q[pdr]...)
					s.q[pdr] = nil
				}
			}
			j.Tag("buff->forw")
		}
		s.action = a
		c.judgeEmission(j, s, exp, got, from)
		c.queues(j, s)
	case "RemovePDR":
		p, pdr := int(e.A[0]), uint16(e.A[1])
		s := c.sess[p]
		o = c.W.Send(p, smf.Mod(c.seq(), s.up, "", smf.RuleOp{Verb: 'R', Kind: 'P', ID: uint32(pdr), MInfo: -1}))
		if j.Crashed(c.W.World, o) {
			break
		}
		delete(s.pdr, pdr)
		noEmit("PDR removal")
	case "Del":
		p := int(e.A[0])
		s := c.sess[p]
		o = c.W.Send(p, smf.Del(c.seq(), s.up))
		if j.Crashed(c.W.World, o) {
			break
		}
		if len(o.Out[p]) != 1 || o.Out[p][0].Cause() != smf.CauseAccepted {
			j.Fail("del-not-accepted", "Deletion not accepted: %v", o.Out[p])
		}
		c.ended = append(c.ended, s.up)
		c.sess[p] = nil
		noEmit("session deletion")
	}
	return seqx.StepResult{Obs: e.String() + " => " + o.StringL(c.label), Viols: append(c.pre.Take(), j.Viols...), Tags: j.Tags}
}

var seqCtr uint32 = 1000

func (c *c13) seq() uint32 { seqCtr++; return seqCtr }

func cnt(o sworld.StepObs) int {
	n := 0
	for i := range o.Out {
		n += len(o.Out[i])
	}
	return n
}

// queues: the implementation's queues hold exactly the reference's payloads, in order.
func (c *c13) queues(j *sworld.Judge, s *bsess) {
	for _, pdr := range []uint16{1, 2} {
		q := c.W.V.Queue(s.up, pdr)
		if len(q) != len(s.q[pdr]) {
			j.Fail("queue-length", "queue of %s PDR %d holds %d packets, want %d (capacity 512, newest dropped when full)", c.label(s.up), pdr, len(q), len(s.q[pdr]))
			continue
		}
		for i := range q {
			if string(q[i]) != s.q[pdr][i] {
				j.Fail("queue-content", "queue of %s PDR %d position %d holds %q, want %q (arrival order; an older packet is never displaced)", c.label(s.up), pdr, i, q[i], s.q[pdr][i])
				break
			}
		}
	}
}

func (c *c13) judgeEmission(j *sworld.Judge, s *bsess, exp []string, got [][]byte, from []string) {
	var payloads []string
	for i, raw := range got {
		g, err := c14.Decode(raw)
		if err != nil {
			j.Fail("malformed-gpdu", "re-injected packet is not a well-formed G-PDU: %v", err)
			continue
		}
		pl := string(g.Payload)
		payloads = append(payloads, pl)
		if g.TEID != s.teid {
			j.Fail("wrong-teid", "packet %q re-injected with TEID %#x, the FAR of %s has %#x", pl, g.TEID, c.label(s.up), s.teid)
		}
		// the QFI is that of the first QER of the packet's OWN PDR that carries one (s1: PDR 1 -> QER 1 QFI 37, PDR 2
		// no QER; s2: none): a packet is never marked with another PDR's flow
		want := uint8(0)
		if strings.Contains(pl, ":pdr1:") {
			want = s.qfi
		}
		if (want != 0) != g.HasExt || (g.HasExt && g.QFI != want) {
			j.Fail("wrong-qfi", "packet %q re-injected with QFI present=%v value=%d; its PDR in session %s has QFI %d (0 = no QER)", pl, g.HasExt, g.QFI, c.label(s.up), want)
		}
		_ = from[i]
	}
	// exactly the expected packets, each once; order per PDR preserved
	if len(payloads) != len(exp) {
		j.Fail("emission-count", "%d packets re-injected, %d were queued for the FAR's PDRs of %s", len(payloads), len(exp), c.label(s.up))
	}
	seen := map[string]int{}
	for _, p := range payloads {
		seen[p]++
	}
	for _, p := range exp {
		if seen[p] != 1 {
			j.Fail("emission-exactly-once", "queued packet %q was re-injected %d times", p, seen[p])
			break
		}
	}
	for _, p := range payloads {
		if !strings.HasPrefix(p, fmt.Sprintf("pkt:s%d:", s.k)) {
			j.Fail("foreign-packet", "packet %q was emitted under session %s", p, c.label(s.up))
		}
	}
	for _, pdr := range []uint16{1, 2} {
		var a, b []string
		pre := fmt.Sprintf("pkt:s%d:pdr%d:", s.k, pdr)
		for _, p := range payloads {
			if strings.HasPrefix(p, pre) {
				a = append(a, p)
			}
		}
		for _, p := range exp {
			if strings.HasPrefix(p, pre) {
				b = append(b, p)
			}
		}
		if strings.Join(a, ",") != strings.Join(b, ",") && len(a) == len(b) {
			j.Fail("emission-order", "packets of PDR %d re-injected out of arrival order", pdr)
		}
	}
}

func (c *c13) Close() { c.W.Close() }

func RunC13(tier string) {
	run := evid.NewRun("C13", tier)
	smp := &evid.Samples{N: 10}
	var total seqx.Stats
	spec := c13Spec(tier, "buffering")
	st := seqx.ExploreOrders(run, spec, tier, smp, &total, true)
	seqx.Finish(run, total, smp, fmt.Sprintf("two sessions on two peers (PDR 1,2 -> FAR 1; in one session PDR 1 has a QER with QFI 37 and PDR 2 none, the other has no QER), BUFFER notifications for live / never-existing / ended sessions with and without NOCP, bursts of 513 (thorough 600) packets across the 512 capacity, FAR apply-action transitions among BUFF, BUFF|NOCP, FORW, DROP, FORW|NOCP, PDR removal, deletion and SEID re-use; all histories to depth %d (completed %d) over the full stack", spec.MaxDepth, st.DepthDone))
	run.Assumption("the simulated kernel stands for gtp5g: it answers GET_FAR with the FAR's current action and related PDRs, GET_PDR with the QER ids, GET_QER with the QFI")
	run.Assumption("inside Update FAR the FAR ID precedes Apply Action (the order every go-pfcp based SMF emits)")
	run.Finish()
}
