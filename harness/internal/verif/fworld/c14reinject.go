//go:build verif

package fworld

import (
	"fmt"

	"github.com/free5gc/go-upf/internal/verif/c14"
	"github.com/free5gc/go-upf/internal/verif/evid"
	"github.com/free5gc/go-upf/internal/verif/simk"
	"github.com/free5gc/go-upf/internal/verif/smf"
)

// reinject drives the message assembled for buffered packets end to end: real PfcpServer + real gtp5g driver over
// the simulated kernel. One FAR (BUFF) serves two PDRs; PDR i refers to its own QER with QFI q_i (q = -1: no
// QER; q = 0: a QER without a QoS flow). One packet is buffered per PDR, the FAR switches to FORW, and every
// datagram reaching the FAR's peer is decoded by the reference decoder: well-formed G-PDU, the FAR's TEID,
// payload unchanged, a PDU Session Container exactly when the PDR's own flow has a QFI, carrying that full QFI.
func init() { c14.Reinject = reinject }

func reinject(c c14.Stage, tier string) (sessions int) {
	small := []int{-1, 0, 1, 15, 16, 37, 63}
	var pairs [][2]int
	seen := map[[2]int]bool{}
	add := func(a, b int) {
		if !seen[[2]int{a, b}] {
			seen[[2]int{a, b}] = true
			pairs = append(pairs, [2]int{a, b})
		}
	}
	for q := -1; q < 64; q++ {
		if tier == "thorough" {
			for r := -1; r < 64; r++ {
				add(q, r)
			}
			continue
		}
		for _, r := range small {
			add(q, r)
			add(r, q)
		}
	}
	w := New(1)
	defer w.Close()
	o := w.Send(0, smf.Assoc(1, w.PeerIP(0)))
	if len(o.Out[0]) != 1 || o.Out[0][0].Cause() != smf.CauseAccepted {
		evid.Infra("C14 reinject: association not accepted: %v", o.Out[0])
	}
	seq := uint32(10)
	const aFORW, aBUFF = 0x02, 0x04
	for n, pq := range pairs {
		teid := uint32(0x01000000 + n*0x00010203)
		replay := map[string]interface{}{"kind": "reinject", "teid": teid, "pdr1_qfi": pq[0], "pdr2_qfi": pq[1]}
		fail := func(field, format string, a ...interface{}) {
			c.Report(evid.Violation{Signature: "C14:reinject:" + field, Engine: "E2-shapes", Scenario: "reinject",
				What: fmt.Sprintf("PDR 1 QFI %d, PDR 2 QFI %d (-1: no QER): ", pq[0], pq[1]) + fmt.Sprintf(format, a...), Replay: replay})
		}
		ops := []smf.RuleOp{{Verb: 'C', Kind: 'F', ID: 1, Action: []byte{aBUFF}, TEID: teid, Peer: w.GNBAddr(), MInfo: -1}}
		for i, q := range pq {
			if q >= 0 {
				ops = append(ops, smf.RuleOp{Verb: 'C', Kind: 'Q', ID: uint32(i + 1), QFI: uint8(q), MInfo: -1})
			}
		}
		for i, q := range pq {
			p := smf.RuleOp{Verb: 'C', Kind: 'P', ID: uint32(i + 1), FAR: 1, SrcIf: 1, UEIP: "10.60.0.1", MInfo: -1}
			if q >= 0 {
				p.QERs = []uint32{uint32(i + 1)}
			}
			ops = append(ops, p)
		}
		seq++
		o := w.Send(0, smf.Est(seq, w.PeerIP(0), true, uint64(0x100+n), w.PeerIP(0), ops...))
		c.Eval()
		if !o.Alive || o.Fatal || len(o.Out[0]) != 1 || o.Out[0][0].Cause() != smf.CauseAccepted {
			fail("est", "establishment not accepted: %v (alive=%v fatal=%v)", o.Out[0], o.Alive, o.Fatal)
			if !o.Alive || o.Fatal {
				return
			}
			continue
		}
		sessions++
		up, _, _ := o.Out[0][0].FSEID()
		w.GPDUs()
		pl := [2][]byte{c14.Payload(5 + n%7), c14.Payload(64 + n%5)}
		pl[0][0], pl[1][0] = 0xa1, 0xa2 // tells the two packets apart
		for i := range pq {
			w.Notify(simk.BufferMsg(up, uint16(i+1), aBUFF, pl[i]))
		}
		if g, _ := w.GPDUs(); len(g) != 0 {
			fail("early", "%d packet(s) emitted while the FAR buffers", len(g))
		}
		seq++
		o = w.Send(0, smf.Mod(seq, up, "", smf.RuleOp{Verb: 'U', Kind: 'F', ID: 1, Action: []byte{aFORW}, MInfo: -1}))
		if !o.Alive || o.Fatal || len(o.Out[0]) != 1 || o.Out[0][0].Cause() != smf.CauseAccepted {
			fail("mod", "Update FAR BUFF->FORW not accepted: %v (alive=%v fatal=%v)", o.Out[0], o.Alive, o.Fatal)
			if !o.Alive || o.Fatal {
				return
			}
		}
		got, _ := w.GPDUs()
		if len(got) != 2 {
			fail("count", "%d datagrams reached the FAR's peer, want 2", len(got))
		}
		for _, raw := range got {
			i := -1
			for k := range pl {
				if len(raw) >= len(pl[k]) && string(raw[len(raw)-len(pl[k]):]) == string(pl[k]) {
					i = k
				}
			}
			if i < 0 {
				if _, err := c14.Decode(raw); err != nil {
					fail("malformed", "not a well-formed G-PDU: %v (packet % x)", err, c14.Head(raw))
				} else {
					fail("payload", "payload matches neither buffered packet (packet % x)", c14.Head(raw))
				}
				c.Eval()
				continue
			}
			q := pq[i]
			qfi := uint8(0)
			if q > 0 {
				qfi = uint8(q)
			}
			r2 := map[string]interface{}{"kind": "reinject", "teid": teid, "pdr1_qfi": pq[0], "pdr2_qfi": pq[1], "pdr": i + 1}
			c.Judge("reinject", raw, teid, q > 0, 0, qfi, pl[i], r2)
		}
		seq++
		w.Send(0, smf.Del(seq, up))
		w.GPDUs()
	}
	return
}
