//go:build verif

package fworld

import (
	"fmt"
	"sort"
	"strings"
	"time"

	"github.com/free5gc/go-upf/internal/pfcp"
	"github.com/free5gc/go-upf/internal/verif/evid"
	"github.com/free5gc/go-upf/internal/verif/seqx"
	"github.com/free5gc/go-upf/internal/verif/simk"
	"github.com/free5gc/go-upf/internal/verif/smf"
	"github.com/free5gc/go-upf/internal/verif/sworld"
)

// C10 — usage reports reach the owning SMF with the measured values intact (full stack over the simulated kernel).
//
// Start: A and B associated; s1 on A with URR 1 (VOLUM, MNOP, periodic), 2 (DURAT), 3 (VOLUM+DURAT), 4 (EVENT);
// s2 on B with URR 1 (VOLUM, no MNOP, periodic). Both sessions use CP SEID 0x10.
// Structural events (expanded by the search): Tick, Query/Remove/Update URR (update answered with or without
// a report, changing method and MNOP; and an update naming neither, which must leave the profile alone),
// Deletion, re-establishment.
// In every reached state a batch sweep (not expanded: reports only advance UR-SEQN and add outstanding
// requests) delivers kernel REPORT notifications of every batch shape: 1..3 reports over {live, unknown, ended}
// sessions x {known, unknown, removed} URRs in every arrangement, each of the 17 single-cause triggers,
// counters from the 64-bit boundary set.

const P1 = 3600 * time.Second

type urrRef struct {
	volum, durat, mnop bool
	perio              bool
}

type usess struct {
	k      int
	up, cp uint64
	peer   int
	urr    map[uint32]*urrRef
}

type c10 struct {
	W     *World
	tier  string
	sess  [2]*usess
	estUP []uint64
	ended []uint64
	nEst  int
	sweep bool
	nRep  int
	taken bool
	pre   seqx.Pre
}

func c10Spec(tier, scenario string) seqx.Spec {
	depth := 3
	dl := 110 * time.Second
	if tier == "thorough" {
		depth = 5
		dl = 40 * time.Minute
	}
	return seqx.Spec{Prop: "C10", Scenario: scenario, MaxDepth: depth, Deadline: dl, New: func() seqx.Instance {
		c := &c10{W: New(0), tier: tier}
		for p := 0; p < 2; p++ {
			c.W.Send(p, smf.Assoc(1, c.W.PeerIP(p)))
			if v := c.est(p); v != "" {
				c.pre.Fail("C10", v)
			}
		}
		return c
	}}
}

func init() { seqx.Register("C10", c10Spec) }

func (c *c10) label(seid uint64) string {
	for k := len(c.estUP) - 1; k >= 0; k-- {
		if c.estUP[k] == seid {
			return fmt.Sprintf("s%d", k+1)
		}
	}
	return fmt.Sprintf("%#x", seid)
}

func urrOp(id uint32, method uint8, mnop, perio bool) smf.RuleOp {
	o := smf.RuleOp{Verb: 'C', Kind: 'U', ID: id, Method: method, Trig: []byte{0x02, 0x00}, MInfo: -1}
	if mnop {
		o.MInfo = 0x10
	}
	if perio {
		o.Trig = []byte{0x03, 0x00}
		o.Period = uint32(P1 / time.Second)
	}
	return o
}

func (c *c10) est(p int) string {
	c.nEst++
	ops := []smf.RuleOp{{Verb: 'C', Kind: 'F', ID: 1, MInfo: -1}}
	s := &usess{peer: p, cp: 0x10, urr: map[uint32]*urrRef{}}
	if p == 0 {
		ops = append(ops, urrOp(1, 2, true, true), urrOp(2, 1, false, false), urrOp(3, 3, false, false), urrOp(4, 4, false, false))
		s.urr[1] = &urrRef{volum: true, mnop: true, perio: true}
		s.urr[2] = &urrRef{durat: true}
		s.urr[3] = &urrRef{volum: true, durat: true}
		s.urr[4] = &urrRef{}
		ops = append(ops, smf.RuleOp{Verb: 'C', Kind: 'P', ID: 1, FAR: 1, SrcIf: 1, URRs: []uint32{1, 2, 3, 4}, MInfo: -1})
	} else {
		ops = append(ops, urrOp(1, 2, false, true))
		s.urr[1] = &urrRef{volum: true, perio: true}
		ops = append(ops, smf.RuleOp{Verb: 'C', Kind: 'P', ID: 1, FAR: 1, SrcIf: 1, URRs: []uint32{1}, MInfo: -1})
	}
	o := c.W.Send(p, smf.Est(uint32(100+c.nEst), c.W.PeerIP(p), true, 0x10, c.W.PeerIP(p), ops...))
	if len(o.Out[p]) != 1 || o.Out[p][0].Cause() != smf.CauseAccepted {
		return fmt.Sprintf("establishment not accepted: %v", o.Out[p])
	}
	s.up, _, _ = o.Out[p][0].FSEID()
	c.estUP = append(c.estUP, s.up)
	s.k = len(c.estUP)
	c.sess[p] = s
	c.W.K.TakeHanded()
	return ""
}

func (c *c10) Enabled() []seqx.Event {
	var ev []seqx.Event
	nm := func(e seqx.Event, f string, a ...interface{}) seqx.Event { e.N = fmt.Sprintf(f, a...); return e }
	if !c.sweep {
		ev = append(ev, nm(seqx.Ev("Sweep"), "BatchSweep"))
	}
	ev = append(ev, nm(seqx.Ev("Tick"), "Tick(P1)"))
	for p := 0; p < 2; p++ {
		s := c.sess[p]
		if s == nil {
			if p == 0 && c.taken {
				continue // A's association was re-keyed to T1 by the takeover: A would have to associate anew first
			}
			ev = append(ev, nm(seqx.Ev("Est", int64(p)), "Est(%c)", 'A'+p))
			continue
		}
		var ids []int
		for u := range s.urr {
			ids = append(ids, int(u))
		}
		sort.Ints(ids)
		for _, u := range ids {
			if p == 1 || u <= 2 || c.tier == "thorough" {
				ev = append(ev, nm(seqx.Ev("Query", int64(p), int64(u)), "Query(s%d,urr %d)", s.k, u))
				ev = append(ev, nm(seqx.Ev("Remove", int64(p), int64(u)), "RemoveURR(s%d,%d)", s.k, u))
			}
		}
		if _, ok := s.urr[2]; ok && p == 0 {
			ev = append(ev, nm(seqx.Ev("Update", int64(p), 2, 0), "UpdateURR(s%d,2 -> VOLUM+DURAT+MNOP; no report)", s.k))
			ev = append(ev, nm(seqx.Ev("Update", int64(p), 2, 1), "UpdateURR(s%d,2 -> VOLUM+DURAT+MNOP; with report)", s.k))
			// two different measurements of ONE URR in one response: the update's report and the immediate report
			ev = append(ev, nm(seqx.Ev("Update", int64(p), 2, 3), "UpdateURR(s%d,2; with report) + QueryURR(s%d,2) in one request", s.k, s.k))
		}
		if p == 0 && s.peer == 0 {
			// the session is taken over by another SMF of the set (fresh node id T1): from then on its reports and
			// its requests belong to that node
			ev = append(ev, nm(seqx.Ev("Takeover", int64(p)), "Takeover(s%d by node T1)", s.k))
		}
		if _, ok := s.urr[1]; ok && p == 0 {
			// an update that names neither Measurement Method nor Measurement Information: the URR keeps its profile
			ev = append(ev, nm(seqx.Ev("Update", int64(p), 1, 2), "UpdateURR(s%d,1: period only, no method / measurement information IE)", s.k))
		}
		ev = append(ev, nm(seqx.Ev("Del", int64(p)), "Del(s%d)", s.k))
	}
	return ev
}

func (c *c10) Key() string {
	var sb strings.Builder
	sb.WriteString(c.W.V.Dump(pfcp.DumpOpt{NoTrans: true, Label: c.label, NoSeq: true}))
	sb.WriteString("K " + c.W.K.Dump(c.label))
	fmt.Fprintf(&sb, " ended=%d sweep=%v", len(c.ended), c.sweep)
	return sb.String()
}

// want describes one usage report that must be delivered.
type want struct {
	s     *usess
	h     simk.Handed
	trig  uint32 // usage-report-trigger bits that must be set
	noTim bool
}

// usage report trigger bit for a reporting-trigger cause (same name), 0 if none
var causeToUsage = map[uint32]uint32{
	1 << 0: 1 << 0, 1 << 1: 1 << 1, 1 << 2: 1 << 2, 1 << 3: 1 << 3, 1 << 4: 1 << 4, 1 << 5: 1 << 5, 1 << 6: 1 << 6, // PERIO VOLTH TIMTH QUHTI START STOPT DROTH
	1 << 7: 1 << 10,                // LIUSA
	1 << 8: 1 << 8, 1 << 9: 1 << 9, // VOLQU TIMQU
	1 << 10: 1 << 13, 1 << 11: 1 << 14, 1 << 12: 1 << 15, 1 << 13: 1 << 16, // ENVCL MACAR EVETH EVEQU
	1 << 14: 1 << 18, 1 << 15: 1 << 19, // IPMJL QUVTI
	1 << 17: 1 << 21, // UPINT
}

// judge compares the usage-report IEs of the messages of one step with the expectation.
// carrier: the message type the reports must travel in (Session Report Request, or the response of the request).
func (c *c10) judge(j *sworld.Judge, what string, o sworld.StepObs, wants []want, carrier uint8, rspPeer int) {
	// collect delivered URs per (peer, message)
	type got struct {
		peer int
		m    *smf.Msg
		u    smf.UsageReport
		used bool
	}
	var gots []*got
	for p := range o.Out {
		for _, m := range o.Out[p] {
			if m.Type != carrier {
				if !(carrier != smf.MReportReq && m.Type == smf.MReportReq) {
					// a response of another type: only the response to the request itself is expected
					if p != rspPeer {
						j.Fail("unexpected-message:"+what, "%s: unexpected %s to peer %c", what, m, 'A'+p)
					}
				}
			}
			for _, u := range m.UsageReports() {
				gots = append(gots, &got{peer: p, m: m, u: u})
			}
		}
	}
	for _, w := range wants {
		ref := w.s.urr[w.h.URR]
		var match *got
		n := 0
		for _, g := range gots {
			if g.u.URRID != w.h.URR || g.peer != w.s.peer {
				continue
			}
			if ref.volum {
				if !g.u.HasVol || g.u.Vol[0] != w.h.C.TV {
					continue
				}
			} else if g.u.HasTime && g.u.Start != smf.NTP(w.h.Start) {
				continue
			}
			if g.used {
				continue
			}
			n++
			if match == nil {
				match = g
			}
		}
		sig := func(s string) string { return s + ":" + what }
		if match == nil {
			j.Fail(sig("report-not-delivered"), "%s: the usage report for %s URR %d (total volume %#x) did not reach its SMF (peer %c); delivered: %s", what, c.label(w.s.up), w.h.URR, w.h.C.TV, 'A'+w.s.peer, gotString(o))
			continue
		}
		match.used = true
		g := match
		if g.m.Type != carrier {
			j.Fail(sig("wrong-carrier"), "%s: report for %s URR %d travelled in message type %d, want %d", what, c.label(w.s.up), w.h.URR, g.m.Type, carrier)
		}
		if g.m.SEID != w.s.cp {
			j.Fail(sig("wrong-cp-seid"), "%s: message carrying the report for %s has header SEID %#x, want the peer's SEID %#x", what, c.label(w.s.up), g.m.SEID, w.s.cp)
		}
		if g.u.Trigger&w.trig != w.trig {
			j.Fail(sig("trigger-lost"), "%s: usage report trigger %#x lacks the expected bit(s) %#x", what, g.u.Trigger, w.trig)
		}
		if extra := g.u.Trigger &^ w.trig; extra != 0 {
			j.Fail(sig("trigger-extra"), "%s: usage report trigger %#x has bits beyond the cause %#x", what, g.u.Trigger, w.trig)
		}
		if !w.noTim {
			if !g.u.HasTime || g.u.Start != smf.NTP(w.h.Start) || g.u.End != smf.NTP(w.h.End) {
				j.Fail(sig("times"), "%s: start/end time %d/%d (present=%v), measured %d/%d", what, g.u.Start, g.u.End, g.u.HasTime, smf.NTP(w.h.Start), smf.NTP(w.h.End))
			}
		}
		if g.u.HasVol != ref.volum {
			j.Fail(sig("volume-measurement-presence"), "%s: Volume Measurement present=%v for a URR with VOLUM=%v", what, g.u.HasVol, ref.volum)
		} else if ref.volum {
			wantFlag := uint8(0x07)
			if ref.mnop {
				wantFlag = 0x3f
			}
			if g.u.VolFlag != wantFlag {
				j.Fail(sig("volume-flags"), "%s: Volume Measurement flags %#x, want %#x (packets iff MNOP=%v)", what, g.u.VolFlag, wantFlag, ref.mnop)
			}
			wv := [6]uint64{w.h.C.TV, w.h.C.UV, w.h.C.DV, w.h.C.TP, w.h.C.UP, w.h.C.DP}
			for i := 0; i < 6; i++ {
				if wantFlag&(1<<i) != 0 && g.u.Vol[i] != wv[i] {
					j.Fail(sig("counter-"+[]string{"total-volume", "uplink-volume", "downlink-volume", "total-packets", "uplink-packets", "downlink-packets"}[i]),
						"%s: counter %d of the report for %s URR %d is %#x, measured %#x", what, i, c.label(w.s.up), w.h.URR, g.u.Vol[i], wv[i])
				}
			}
		}
		if g.u.HasDur != ref.durat {
			j.Fail(sig("duration-measurement-presence"), "%s: Duration Measurement present=%v for a URR with DURAT=%v", what, g.u.HasDur, ref.durat)
		}
	}
	for _, g := range gots {
		if !g.used {
			j.Fail("unexpected-usage-report:"+what, "%s: a usage report {urr %d trig %#x vol %#x} reached peer %c that no measurement of this step accounts for (unknown session/URR, duplicate, or wrong SMF)", what, g.u.URRID, g.u.Trigger, g.u.Vol[0], 'A'+g.peer)
		}
	}
}

func gotString(o sworld.StepObs) string {
	var p []string
	for i := range o.Out {
		for _, m := range o.Out[i] {
			p = append(p, fmt.Sprintf("->%c %s", 'A'+i, m))
		}
	}
	return strings.Join(p, "; ")
}

// handedFor turns the kernel's hand-outs of this step into expectations.
func (c *c10) handedFor(trig uint32) []want {
	var ws []want
	for _, h := range c.W.K.TakeHanded() {
		for p := 0; p < 2; p++ {
			if s := c.sess[p]; s != nil && s.up == h.SEID {
				if _, ok := s.urr[h.URR]; ok {
					ws = append(ws, want{s: s, h: h, trig: trig})
				}
			}
		}
	}
	return ws
}

type entry struct {
	seid uint64
	urr  uint32
	s    *usess
}

func (c *c10) menu() []entry {
	var m []entry
	for p := 0; p < 2; p++ {
		if s := c.sess[p]; s != nil {
			var ids []int
			for u := range s.urr {
				ids = append(ids, int(u))
			}
			sort.Ints(ids)
			for _, u := range ids {
				if p == 0 && u == 4 && c.tier != "thorough" {
					continue
				}
				m = append(m, entry{s.up, uint32(u), s})
			}
			m = append(m, entry{s.up, 9, nil}) // unknown (or removed) URR of a live session
		}
	}
	m = append(m, entry{77, 1, nil}) // never-existing session
	if len(c.ended) > 0 {
		e := c.ended[len(c.ended)-1]
		live := false
		for p := 0; p < 2; p++ {
			if c.sess[p] != nil && c.sess[p].up == e {
				live = true
			}
		}
		if !live {
			m = append(m, entry{e, 1, nil})
		}
	}
	return m
}

var boundary = []uint64{0, 1, 1<<32 - 1, 1 << 32, 1 << 63, 1<<64 - 1, 0x0102030405060708}

func (c *c10) deliver(j *sworld.Judge, what string, batch []entry, cause uint32, ctr *simk.Counters) {
	var hs []simk.Handed
	var ws []want
	for _, e := range batch {
		c.nRep++
		cn := c.W.K.Measure(e.seid, e.urr, 0x4000+c.nRep)
		if ctr != nil {
			cn = *ctr
			cn.TV ^= uint64(c.nRep) << 8 & 0xff00 // keep reports of one sweep distinguishable
		}
		t := time.Unix(1700000000+int64(c.nRep)*3, 0)
		h := simk.Handed{SEID: e.seid, URR: e.urr, C: cn, Start: t, End: t.Add(2 * time.Second), Trigger: cause}
		hs = append(hs, h)
		if e.s != nil {
			if _, ok := e.s.urr[e.urr]; ok {
				w := want{s: e.s, h: h, trig: causeToUsage[cause]}
				if cause == 1<<4 || cause == 1<<5 || cause == 1<<11 { // START, STOPT, MACAR: no time IEs by TS 29.244
					w.noTim = true
				}
				ws = append(ws, w)
			}
		}
	}
	o := c.W.Notify(simk.ReportMsg(hs))
	if j.Crashed(c.W.World, o) {
		return
	}
	c.judge(j, what, o, ws, smf.MReportReq, -1)
}

func (c *c10) Apply(e seqx.Event) seqx.StepResult {
	j := &sworld.Judge{Prop: "C10"}
	var o sworld.StepObs
	c.W.K.TakeHanded()
	switch e.Op {
	case "Sweep":
		c.sweep = true
		m := c.menu()
		n := 0
		// every arrangement of 1 and 2 reports, and (quick) the 3-report batches that start with a dropped report /
		// (thorough) all 3- and a lattice of 4-report batches
		for _, a := range m {
			c.deliver(j, "kernel-report[1]", []entry{a}, 1<<1, nil)
			n++
			for _, b := range m {
				c.deliver(j, "kernel-report[2]", []entry{a, b}, 1<<1, nil)
				n++
				for _, d := range m {
					if c.tier != "thorough" && a.s != nil && b.s != nil {
						continue
					}
					c.deliver(j, "kernel-report[3]", []entry{a, b, d}, 1<<1, nil)
					n++
				}
			}
			if len(j.Viols) > 0 {
				break
			}
		}
		// each single-cause trigger and each boundary counter, on the first live known URR
		for _, a := range m {
			if a.s == nil {
				continue
			}
			for cause := range causeToUsage {
				c.deliver(j, "kernel-report-cause", []entry{a}, cause, nil)
				n++
			}
			c.deliver(j, "kernel-report-cause", []entry{a}, 1<<16, nil) // REEMR: no same-named usage trigger, report still delivered
			n++
			for _, v := range boundary {
				ctr := simk.Counters{TV: v, UV: v ^ 0x10, DV: v ^ 0x20, TP: v ^ 0x30, UP: v ^ 0x40, DP: v ^ 0x50}
				c.deliver(j, "kernel-report-counters", []entry{a}, 1<<1, &ctr)
				n++
			}
			if a.urr >= 3 {
				break
			}
		}
		j.Tag(fmt.Sprintf("batches=%d", n))
	case "Tick":
		o = c.W.Tick(P1)
		if j.Crashed(c.W.World, o) {
			break
		}
		ws := c.handedFor(1 << 0)
		// exactly the registered periodic URRs must have been measured
		wantN := 0
		for p := 0; p < 2; p++ {
			if s := c.sess[p]; s != nil {
				for _, u := range s.urr {
					if u.perio {
						wantN++
					}
				}
			}
		}
		if len(ws) != wantN {
			j.Fail("tick-measures-wrong-set", "a tick measured %d URRs, %d periodic URRs exist", len(ws), wantN)
		}
		c.judge(j, "tick", o, ws, smf.MReportReq, -1)
	case "Query", "Remove", "Update":
		p, u := int(e.A[0]), uint32(e.A[1])
		s := c.sess[p]
		var op smf.RuleOp
		trig := uint32(0)
		switch e.Op {
		case "Query":
			op = smf.RuleOp{Verb: 'Q', Kind: 'U', ID: u, MInfo: -1}
			trig = 1 << 7
		case "Remove":
			op = smf.RuleOp{Verb: 'R', Kind: 'U', ID: u, MInfo: -1}
			trig = 1 << 11
		case "Update":
			op = smf.RuleOp{Verb: 'U', Kind: 'U', ID: u, Method: 3, MInfo: 0x10}
			c.W.K.UpdateURRReports = e.A[2] == 1
			if e.A[2] == 2 {
				op = smf.RuleOp{Verb: 'U', Kind: 'U', ID: u, Period: uint32(P1 / time.Second), MInfo: -1}
			}
		}
		ops := []smf.RuleOp{op}
		both := e.Op == "Update" && e.A[2] == 3
		if both {
			c.W.K.UpdateURRReports = true
			ops = append(ops, smf.RuleOp{Verb: 'Q', Kind: 'U', ID: u, MInfo: -1})
		}
		o = c.W.Send(s.peer, smf.Mod(c.seq(), s.up, "", ops...))
		c.W.K.UpdateURRReports = false
		if j.Crashed(c.W.World, o) {
			break
		}
		if len(o.Out[s.peer]) != 1 || o.Out[s.peer][0].Type != smf.MModRsp || o.Out[s.peer][0].Cause() != smf.CauseAccepted {
			j.Fail("mod-not-accepted", "%s not accepted: %v", e, o.Out[s.peer])
			break
		}
		if e.Op == "Update" && e.A[2] != 2 {
			r := s.urr[u]
			r.volum, r.durat, r.mnop = true, true, true
		}
		ws := c.handedFor(trig)
		wantN := 1
		if e.Op == "Update" && e.A[2] != 1 {
			wantN = 0
		}
		if both {
			wantN = 2
			if len(ws) == 2 {
				ws[1].trig = 1 << 7 // the second measurement answers the Query URR: immediate report
			}
			j.Tag("two-reports-one-urr-one-response")
		}
		if len(ws) != wantN {
			j.Fail("measurement-count:"+e.Op, "%s: the data plane produced %d reports for known URRs, want %d", e, len(ws), wantN)
		}
		c.judge(j, strings.ToLower(e.Op), o, ws, smf.MModRsp, s.peer)
		if e.Op == "Remove" {
			delete(s.urr, u)
		}
	case "Takeover":
		p := int(e.A[0])
		s := c.sess[p]
		o = c.W.Send(s.peer, smf.Mod(c.seq(), s.up, c.W.PeerIP(3)))
		if j.Crashed(c.W.World, o) {
			break
		}
		if len(o.Out[s.peer]) != 1 || o.Out[s.peer][0].Type != smf.MModRsp || o.Out[s.peer][0].Cause() != smf.CauseAccepted {
			j.Fail("mod-not-accepted", "%s not accepted: %v", e, o.Out[s.peer])
			break
		}
		s.peer = 3
		c.taken = true
		j.Tag("takeover")
	case "Del":
		p := int(e.A[0])
		s := c.sess[p]
		o = c.W.Send(s.peer, smf.Del(c.seq(), s.up))
		if j.Crashed(c.W.World, o) {
			break
		}
		if len(o.Out[s.peer]) != 1 || o.Out[s.peer][0].Type != smf.MDelRsp || o.Out[s.peer][0].Cause() != smf.CauseAccepted {
			j.Fail("del-not-accepted", "Deletion not accepted: %v", o.Out[s.peer])
			break
		}
		ws := c.handedFor(1 << 11)
		if len(ws) != len(s.urr) {
			j.Fail("measurement-count:Del", "deletion produced %d final reports, the session has %d URRs", len(ws), len(s.urr))
		}
		c.judge(j, "deletion", o, ws, smf.MDelRsp, s.peer)
		c.ended = append(c.ended, s.up)
		c.sess[p] = nil
	case "Est":
		if v := c.est(int(e.A[0])); v != "" {
			j.Fail("est-not-accepted", "%s", v)
		}
	}
	if e.Op != "Sweep" {
		c.sweep = false
	}
	return seqx.StepResult{Obs: e.String() + " => " + o.StringL(c.label), Viols: append(c.pre.Take(), j.Viols...), Tags: j.Tags}
}

func (c *c10) seq() uint32 { seqCtr++; return seqCtr }

func (c *c10) Close() { c.W.Close() }

func RunC10(tier string) {
	run := evid.NewRun("C10", tier)
	smp := &evid.Samples{N: 10}
	var total seqx.Stats
	spec := c10Spec(tier, "usage-reports")
	st := seqx.ExploreOrders(run, spec, tier, smp, &total, true)
	seqx.Finish(run, total, smp, fmt.Sprintf("two sessions on two peers with equal CP SEIDs; URRs with method VOLUM / DURAT / VOLUM+DURAT / EVENT x MNOP; ticks, Query / Remove / Update URR (update answered with and without a report), takeover of a session by a fresh node id, deletion, re-establishment to depth %d (completed %d); in every reached state a batch sweep: all 1- and 2-report arrangements over {live, unknown, ended} sessions x {known, unknown} URRs, 3-report batches, the 17 single-cause triggers (+REEMR), 7 boundary counter sets", spec.MaxDepth, st.DepthDone))
	run.Assumption("the simulated kernel stands for gtp5g: reports enter as genuine netlink REPORT notifications handed to the real buffnetlink.Server, as answers to DEL_URR / ADD_URR(replace) / GET_REPORT / GET_MULTI_REPORTS, and through injected ticks")
	run.Assumption("duration values are not judged (gtp5g does not measure them), only the IE's presence; an empty Session Report Request emitted when every report of a batch was dropped is not judged")
	run.Finish()
}
