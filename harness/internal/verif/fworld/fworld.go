//go:build verif

// Package fworld: the full-stack world: real PfcpServer + real gtp5g driver (real perio.Server, real
// buffnetlink.Server, real nl.Mux/Client) over the simulated kernel, three simulated SMFs and a simulated gNB.
package fworld

import (
	"net"
	"sync"
	"time"

	"github.com/khirono/go-nl"

	"github.com/free5gc/go-upf/internal/forwarder"
	"github.com/free5gc/go-upf/internal/pfcp"
	"github.com/free5gc/go-upf/internal/verif/evid"
	"github.com/free5gc/go-upf/internal/verif/netx"
	"github.com/free5gc/go-upf/internal/verif/simk"
	"github.com/free5gc/go-upf/internal/verif/smf"
	"github.com/free5gc/go-upf/internal/verif/sworld"
)

var gnb *netx.Sock

type World struct {
	*sworld.World
	K    *simk.Kernel
	G    *forwarder.Gtp5g
	GNB  *netx.Sock
	wg   sync.WaitGroup
	pgid string
	udp  *net.UDPConn
}

func New(maxRetrans uint8) *World {
	pfcp.VQuietLog()
	blk := netx.Get()
	if gnb == nil {
		gnb = netx.Listen(blk.IP(9), 2152)
	}
	gnb.Drain()
	w := &World{K: simk.New(), GNB: gnb}
	udp, err := net.ListenUDP("udp4", &net.UDPAddr{IP: blk.IP(1), Port: 0})
	if err != nil {
		evid.Infra("bind GTP-U socket: %v", err)
	}
	w.udp = udp
	g, err := forwarder.VNewGtp5g(&w.wg, func() nl.Conner { return w.K.NewConn() }, int(w.K.FamilyID), int(w.K.LinkIndex), udp)
	if err != nil {
		evid.Infra("cannot assemble the gtp5g driver: %v", err)
	}
	w.G = g
	w.World = sworld.New(sworld.Options{MaxRetrans: maxRetrans, Driver: g})
	return w
}

func (w *World) GNBAddr() string { return w.Blk.IP(9).String() }

// Settle waits until the PFCP loop and the periodic server are both idle and collects the observations.
func (w *World) Settle() sworld.StepObs {
	var o sworld.StepObs
	for round := 0; round < 50; round++ {
		alive, st := w.G.VPerio().VQuiesce(&w.pgid)
		if st == "stuck" {
			o.State = "stuck:perio"
		}
		_ = alive
		x := w.World.Collect()
		for i := range x.Out {
			o.Out[i] = append(o.Out[i], x.Out[i]...)
		}
		o.Alive, o.Fatal = x.Alive, x.Fatal
		if x.State != "" {
			o.State = x.State
		}
		o.Junk = append(o.Junk, x.Junk...)
		// stable when the periodic server is still idle after the loop went idle
		if a2, st2 := w.G.VPerio().VQuiesce(&w.pgid); st2 != "stuck" && (a2 || !alive) && w.World.Idle() {
			break
		}
	}
	return o
}

func (w *World) Send(p int, b []byte) sworld.StepObs {
	if !w.Dead {
		w.V.InjectPacket(w.PeerAddr(p), b)
	}
	return w.Settle()
}

// SendUDP sends through the real socket (receiver goroutine included).
func (w *World) SendUDP(p int, b []byte) sworld.StepObs {
	if w.Dead {
		return w.Settle()
	}
	o1 := w.World.SendUDP(p, b)
	o := w.Settle()
	for i := range o1.Out {
		o.Out[i] = append(o1.Out[i], o.Out[i]...)
	}
	if o1.State != "" {
		o.State = o1.State
	}
	o.Fatal = o.Fatal || o1.Fatal
	o.Alive = o.Alive && o1.Alive
	return o
}

func (w *World) SendUDPBatch(ds []sworld.Dgram) sworld.StepObs {
	if w.Dead {
		return w.Settle()
	}
	o1 := w.World.SendUDPBatch(ds)
	o := w.Settle()
	for i := range o1.Out {
		o.Out[i] = append(o1.Out[i], o.Out[i]...)
	}
	if o1.State != "" {
		o.State = o1.State
	}
	o.Fatal = o.Fatal || o1.Fatal
	o.Alive = o.Alive && o1.Alive
	return o
}

// NotifyNoSettle hands a notification over without waiting (bursts: the report queue holds 128 entries, the
// call blocks while it is full and the loop drains it concurrently); call Settle afterwards.
func (w *World) NotifyNoSettle(genlPayload []byte) {
	if !w.Dead {
		w.G.VBuff().VNotify(genlPayload)
	}
}

// Notify hands a kernel notification (genl payload) to the real buffering listener.
func (w *World) Notify(genlPayload []byte) sworld.StepObs {
	if !w.Dead {
		w.G.VBuff().VNotify(genlPayload)
	}
	return w.Settle()
}

func (w *World) Tick(period time.Duration) sworld.StepObs {
	if !w.Dead {
		w.G.VPerio().VTick(period)
	}
	return w.Settle()
}

func (w *World) Close() {
	// the report producers (periodic server, buffering listener) are stopped BEFORE the PFCP loop: stopping the loop
	// first, as pkg/app does, lets a producer post to the report queue the loop has closed (the recorded C17
	// finding), which would kill this worker process during a teardown no E1 property is about
	w.G.Close()
	w.K.CloseAll()
	done := make(chan struct{})
	go func() { w.wg.Wait(); close(done) }()
	select {
	case <-done:
	case <-time.After(10 * time.Second):
	}
	w.V.Stop()
	for _, p := range w.Peers {
		p.Drain()
	}
	w.GNB.Drain()
}

// GPDUs drains the simulated gNB socket.
func (w *World) GPDUs() ([][]byte, []string) { return w.GNB.DrainFrom() }

var _ = smf.MReportReq
