//go:build verif

// Package c16: SDF flow descriptions are translated to the filter they denote (grammar-bounded exhaustive
// enumeration against an independent reference parser).
package c16

import (
	"encoding/binary"
	"fmt"
	"net/netip"
	"regexp"
	"strconv"
	"strings"

	"github.com/wmnsk/go-pfcp/ie"

	"github.com/free5gc/go-gtp5gnl"
	"github.com/free5gc/go-upf/internal/forwarder"
	"github.com/free5gc/go-upf/internal/verif/evid"
	"github.com/free5gc/go-upf/internal/verif/nlw"
)

// Filter is the denotation of a rule.
type Filter struct {
	Dir      string // "in" / "out"
	Proto    uint8  // 0xff for "ip"
	SrcIP    [4]byte
	SrcMask  [4]byte
	DstIP    [4]byte
	DstMask  [4]byte
	SrcPorts [][2]uint16
	DstPorts [][2]uint16
}

func (f Filter) String() string {
	return fmt.Sprintf("permit %s proto=%d src=%v/%v%v dst=%v/%v%v", f.Dir, f.Proto, f.SrcIP, f.SrcMask, f.SrcPorts, f.DstIP, f.DstMask, f.DstPorts)
}

var (
	reNum  = regexp.MustCompile(`^(0|[1-9][0-9]*)$`)
	reItem = regexp.MustCompile(`^(0|[1-9][0-9]*)(-(0|[1-9][0-9]*))?$`)
)

func refAddr(tok string) (ip, mask [4]byte, ok bool) {
	if tok == "any" || tok == "assigned" {
		return ip, mask, true
	}
	if strings.Contains(tok, "/") {
		p, err := netip.ParsePrefix(tok)
		if err != nil || !p.Addr().Is4() {
			return ip, mask, false
		}
		m := p.Masked()
		ip = m.Addr().As4()
		bits := p.Bits()
		var mv uint32
		if bits > 0 {
			mv = ^uint32(0) << (32 - bits)
		}
		binary.BigEndian.PutUint32(mask[:], mv)
		return ip, mask, true
	}
	a, err := netip.ParseAddr(tok)
	if err != nil || !a.Is4() {
		return ip, mask, false
	}
	return a.As4(), [4]byte{255, 255, 255, 255}, true
}

func refPorts(tok string) ([][2]uint16, bool) {
	var out [][2]uint16
	for _, it := range strings.Split(tok, ",") {
		m := reItem.FindStringSubmatch(it)
		if m == nil {
			return nil, false
		}
		lo, err := strconv.ParseUint(m[1], 10, 16)
		if err != nil {
			return nil, false
		}
		hi := lo
		if m[3] != "" {
			hi, err = strconv.ParseUint(m[3], 10, 16)
			if err != nil || hi < lo {
				return nil, false
			}
		}
		out = append(out, [2]uint16{uint16(lo), uint16(hi)})
	}
	return out, true
}

// RefParse is the reference parser of the supported IPFilterRule form (RFC 6733 4.3 as restricted by the
// property statement): permit in|out <proto|ip> from <addr> [ports] to <addr> [ports].
func RefParse(s string) (*Filter, bool) {
	for _, c := range []byte(s) {
		if c >= 0x80 {
			return nil, false
		}
	}
	t := strings.FieldsFunc(s, func(r rune) bool { return r == ' ' || r == '\t' })
	i := 0
	next := func() (string, bool) {
		if i >= len(t) {
			return "", false
		}
		i++
		return t[i-1], true
	}
	f := &Filter{}
	if x, ok := next(); !ok || x != "permit" {
		return nil, false
	}
	x, ok := next()
	if !ok || (x != "in" && x != "out") {
		return nil, false
	}
	f.Dir = x
	x, ok = next()
	if !ok {
		return nil, false
	}
	if x == "ip" {
		f.Proto = 0xff
	} else {
		if !reNum.MatchString(x) {
			return nil, false
		}
		v, err := strconv.ParseUint(x, 10, 8)
		if err != nil {
			return nil, false
		}
		f.Proto = uint8(v)
	}
	if x, ok = next(); !ok || x != "from" {
		return nil, false
	}
	if x, ok = next(); !ok {
		return nil, false
	}
	if f.SrcIP, f.SrcMask, ok = refAddr(x); !ok {
		return nil, false
	}
	if x, ok = next(); !ok {
		return nil, false
	}
	if x != "to" {
		if f.SrcPorts, ok = refPorts(x); !ok {
			return nil, false
		}
		if x, ok = next(); !ok || x != "to" {
			return nil, false
		}
	}
	if x, ok = next(); !ok {
		return nil, false
	}
	if f.DstIP, f.DstMask, ok = refAddr(x); !ok {
		return nil, false
	}
	if x, ok = next(); ok {
		if f.DstPorts, ok = refPorts(x); !ok {
			return nil, false
		}
		if _, more := next(); more {
			return nil, false
		}
	}
	return f, true
}

func Swapped(f Filter) Filter {
	f.SrcIP, f.DstIP = f.DstIP, f.SrcIP
	f.SrcMask, f.DstMask = f.DstMask, f.SrcMask
	f.SrcPorts, f.DstPorts = f.DstPorts, f.SrcPorts
	return f
}

func first4(b []byte) (out [4]byte, ok bool) {
	switch len(b) {
	case 4:
		copy(out[:], b)
		return out, true
	case 16:
		// the driver hands "any"/"assigned" down as 16 zero octets; the data plane reads the first four
		for _, x := range b {
			if x != 0 {
				// an IPv4-mapped form ::ffff:a.b.c.d is not what the data plane would read
				return out, false
			}
		}
		return out, true
	}
	return out, false
}

func ports(b []byte) ([][2]uint16, bool) {
	if len(b)%4 != 0 {
		return nil, false
	}
	var out [][2]uint16
	for i := 0; i < len(b); i += 4 {
		v := binary.LittleEndian.Uint32(b[i:])
		out = append(out, [2]uint16{uint16(v >> 16), uint16(v)})
	}
	return out, true
}

// decodeAttrs: the independent decoder of the packed flow description (gtp5g UAPI numbering).
func DecodeAttrs(b []byte) (*Filter, error) {
	as, err := nlw.Walk(b)
	if err != nil {
		return nil, err
	}
	f := &Filter{}
	seen := map[int]bool{}
	for _, a := range as {
		if seen[a.Type] {
			return nil, fmt.Errorf("attribute %d repeated", a.Type)
		}
		seen[a.Type] = true
		ok := true
		switch a.Type {
		case 1: // ACTION
			v, k := a.U8()
			if !k || v != 1 {
				return nil, fmt.Errorf("action attribute %v, want permit(1)", a.Data)
			}
		case 2: // DIRECTION
			v, k := a.U8()
			switch {
			case k && v == 1:
				f.Dir = "in"
			case k && v == 2:
				f.Dir = "out"
			default:
				return nil, fmt.Errorf("direction attribute %v", a.Data)
			}
		case 3:
			f.Proto, ok = a.U8()
		case 4:
			f.SrcIP, ok = first4(a.Data)
		case 5:
			f.SrcMask, ok = first4(a.Data)
		case 6:
			f.DstIP, ok = first4(a.Data)
		case 7:
			f.DstMask, ok = first4(a.Data)
		case 8:
			f.SrcPorts, ok = ports(a.Data)
		case 9:
			f.DstPorts, ok = ports(a.Data)
		default:
			return nil, fmt.Errorf("unknown flow-description attribute %d", a.Type)
		}
		if !ok {
			return nil, fmt.Errorf("attribute %d has a malformed value % x", a.Type, a.Data)
		}
	}
	for t := 1; t <= 7; t++ {
		if !seen[t] {
			return nil, fmt.Errorf("attribute %d missing", t)
		}
	}
	return f, nil
}

func eqPorts(a, b [][2]uint16) bool {
	if len(a) != len(b) {
		return false
	}
	for i := range a {
		if a[i] != b[i] {
			return false
		}
	}
	return true
}

func eq(a, b Filter) bool {
	return a.Dir == b.Dir && a.Proto == b.Proto && a.SrcIP == b.SrcIP && a.SrcMask == b.SrcMask && a.DstIP == b.DstIP &&
		a.DstMask == b.DstMask && eqPorts(a.SrcPorts, b.SrcPorts) && eqPorts(a.DstPorts, b.DstPorts)
}

// fromImpl converts the implementation's parse result into a Filter.
func fromImpl(fd *forwarder.FlowDesc) (*Filter, error) {
	f := &Filter{Dir: fd.Dir, Proto: fd.Proto}
	if fd.Action != "permit" {
		return nil, fmt.Errorf("action %q", fd.Action)
	}
	var ok bool
	if fd.Src == nil || fd.Dst == nil {
		return nil, fmt.Errorf("nil network")
	}
	if f.SrcIP, ok = first4(fd.Src.IP); !ok {
		return nil, fmt.Errorf("source address % x", []byte(fd.Src.IP))
	}
	if f.SrcMask, ok = first4(fd.Src.Mask); !ok {
		return nil, fmt.Errorf("source mask % x", []byte(fd.Src.Mask))
	}
	if f.DstIP, ok = first4(fd.Dst.IP); !ok {
		return nil, fmt.Errorf("destination address % x", []byte(fd.Dst.IP))
	}
	if f.DstMask, ok = first4(fd.Dst.Mask); !ok {
		return nil, fmt.Errorf("destination mask % x", []byte(fd.Dst.Mask))
	}
	conv := func(p [][]uint16) ([][2]uint16, error) {
		var out [][2]uint16
		for _, x := range p {
			switch len(x) {
			case 1:
				out = append(out, [2]uint16{x[0], x[0]})
			case 2:
				out = append(out, [2]uint16{x[0], x[1]})
			default:
				return nil, fmt.Errorf("port item %v", x)
			}
		}
		return out, nil
	}
	var err error
	if f.SrcPorts, err = conv(fd.SrcPorts); err != nil {
		return nil, err
	}
	if f.DstPorts, err = conv(fd.DstPorts); err != nil {
		return nil, err
	}
	return f, nil
}

type checker struct {
	run        *evid.Run
	evals      int64
	nontr      evid.Distinct
	smp        evid.Samples
	overAccept evid.Distinct
	overList   []string
	rejected   int64
}

func (c *checker) fail(sig, what, s string) {
	c.run.Report(evid.Violation{Signature: "C16:" + sig, Engine: "E2-shapes", Scenario: "flow-description", What: what + fmt.Sprintf(" -- rule %q", s), Replay: map[string]interface{}{"rule": s}})
}

// class: a coarse name of the rule's shape, used in finding signatures
func class(f *Filter) string {
	c := ""
	if len(f.SrcPorts) > 0 {
		c += "sp"
	}
	if len(f.DstPorts) > 0 {
		c += "dp"
	}
	return c
}

// positive: a rule of the grammar; the implementation must agree with the reference on parse and packing.
func (c *checker) rule(s string, positive bool) {
	c.evals++
	ref, ok := RefParse(s)
	var fd *forwarder.FlowDesc
	var perr error
	func() {
		defer func() {
			if p := recover(); p != nil {
				perr = fmt.Errorf("PANIC %v", p)
			}
		}()
		fd, perr = forwarder.ParseFlowDesc(s)
	}()
	if perr != nil && strings.HasPrefix(perr.Error(), "PANIC") {
		c.fail("parse-fault", "ParseFlowDesc faulted: "+perr.Error(), s)
		return
	}
	if !ok {
		if positive {
			evid.Infra("C16 generator produced a rule the reference rejects: %q", s)
		}
		// other strings: rejected, or handled without a fault
		if perr == nil {
			if c.overAccept.Add(s) && len(c.overList) < 12 {
				c.overList = append(c.overList, s)
			}
			// packing must not fault either
			for _, sw := range []bool{false, true} {
				func() {
					defer func() {
						if p := recover(); p != nil {
							c.fail("pack-fault", fmt.Sprintf("newFlowDesc faulted on an accepted string: %v", p), s)
						}
					}()
					_, _ = forwarder.VFlowDescAttrs(s, sw)
				}()
			}
		} else {
			c.rejected++
		}
		return
	}
	c.nontr.Add(strings.Join(strings.Fields(s), " "))
	if perr != nil {
		c.fail("valid-rule-rejected:"+class(ref), fmt.Sprintf("a rule of the supported form was rejected: %v", perr), s)
		return
	}
	got, err := fromImpl(fd)
	if err != nil {
		c.fail("parse-result-malformed", "ParseFlowDesc result: "+err.Error(), s)
		return
	}
	if !eq(*got, *ref) {
		c.fail("parse-differs:"+diff(*got, *ref), fmt.Sprintf("ParseFlowDesc gives %s, the rule denotes %s", got, ref), s)
		return
	}
	for _, sw := range []bool{false, true} {
		want := *ref
		if sw {
			want = Swapped(want)
		}
		b, err := forwarder.VFlowDescAttrs(s, sw)
		if err != nil {
			c.fail("pack-error", fmt.Sprintf("newFlowDesc(swap=%v): %v", sw, err), s)
			continue
		}
		dec, err := DecodeAttrs(b)
		if err != nil {
			c.fail("packed-form-malformed", fmt.Sprintf("packed flow description (swap=%v): %v", sw, err), s)
			continue
		}
		if !eq(*dec, want) {
			c.fail(fmt.Sprintf("packed-differs:swap=%v:%s", sw, diff(*dec, want)), fmt.Sprintf("packed form (uplink swap=%v) decodes to %s, want %s", sw, dec, want), s)
		}
		// second opinion: go-gtp5gnl's decoder
		g, err := gtp5gnl.DecodeFlowDesc(b)
		if err != nil {
			c.fail("packed-form-undecodable", fmt.Sprintf("DecodeFlowDesc: %v", err), s)
			continue
		}
		var g2 Filter
		g2.Dir = map[uint8]string{1: "in", 2: "out"}[g.Dir]
		g2.Proto = g.Proto
		copy(g2.SrcIP[:], g.Src.IP)
		copy(g2.SrcMask[:], g.Src.Mask)
		copy(g2.DstIP[:], g.Dst.IP)
		copy(g2.DstMask[:], g.Dst.Mask)
		for _, p := range g.SrcPorts {
			g2.SrcPorts = append(g2.SrcPorts, [2]uint16{p[0], p[len(p)-1]})
		}
		for _, p := range g.DstPorts {
			g2.DstPorts = append(g2.DstPorts, [2]uint16{p[0], p[len(p)-1]})
		}
		if g.Action != 1 || !eq(g2, want) {
			c.fail(fmt.Sprintf("packed-differs-gtp5gnl:swap=%v", sw), fmt.Sprintf("DecodeFlowDesc reads %s, want %s", g2, want), s)
		}
	}
}

func diff(a, b Filter) string {
	var d []string
	if a.Dir != b.Dir {
		d = append(d, "dir")
	}
	if a.Proto != b.Proto {
		d = append(d, "proto")
	}
	if a.SrcIP != b.SrcIP || a.SrcMask != b.SrcMask {
		d = append(d, "src")
	}
	if a.DstIP != b.DstIP || a.DstMask != b.DstMask {
		d = append(d, "dst")
	}
	if !eqPorts(a.SrcPorts, b.SrcPorts) {
		d = append(d, "sports")
	}
	if !eqPorts(a.DstPorts, b.DstPorts) {
		d = append(d, "dports")
	}
	return strings.Join(d, "+")
}

func portForms(thorough bool) []string {
	vals := []int{0, 1, 80, 8080, 65535}
	var items []string
	for _, v := range vals {
		items = append(items, fmt.Sprint(v))
	}
	for i, lo := range vals {
		for _, hi := range vals[i:] {
			items = append(items, fmt.Sprintf("%d-%d", lo, hi))
		}
	}
	forms := []string{""}
	forms = append(forms, items...)
	// lists of 2 and 3 items (all ordered pairs / triples over a fixed pool)
	pool := []string{"0", "80", "65535", "1-80", "8080-65535", "80-80"}
	for _, a := range pool {
		for _, b := range pool {
			forms = append(forms, a+","+b)
			if thorough {
				for _, c := range pool {
					forms = append(forms, a+","+b+","+c)
				}
			}
		}
	}
	forms = append(forms, "1,2,3", "1,2-3,4", "1-2,3-4,5-6")
	if thorough {
		// lists of 4..8 items
		l := "10"
		for n := 2; n <= 8; n++ {
			l += fmt.Sprintf(",%d-%d", n*100, n*100+n)
			forms = append(forms, l)
		}
	} else {
		forms = append(forms, "1,2,3,4,5,6,7,8", "1-2,3,4-5,6,7-8,9,10-11,12")
	}
	return forms
}

func addrForms() []string {
	out := []string{"any", "assigned", "0.0.0.0", "10.1.2.3", "255.255.255.255"}
	for l := 0; l <= 32; l++ {
		out = append(out, fmt.Sprintf("10.129.66.195/%d", l), fmt.Sprintf("255.255.255.255/%d", l))
	}
	return out
}

func protoForms() []string {
	out := []string{"ip"}
	for p := 0; p <= 255; p++ {
		out = append(out, fmt.Sprint(p))
	}
	return out
}

func mk(dir, proto, src, sp, dst, dp string) string {
	s := "permit " + dir + " " + proto + " from " + src
	if sp != "" {
		s += " " + sp
	}
	s += " to " + dst
	if dp != "" {
		s += " " + dp
	}
	return s
}

func Run(tier string) {
	run := evid.NewRun("C16", tier)
	c := &checker{run: run}
	thorough := tier == "thorough"
	dirs := []string{"in", "out"}
	coreProto := []string{"ip", "0", "6", "17", "255"}
	coreAddr := []string{"any", "assigned", "10.1.2.3", "10.129.66.195/24", "0.0.0.0/0", "255.255.255.255/32"}
	corePorts := []string{"", "80", "1-65535", "80,8080-8090", "0,65535"}
	// full product of the core dimensions
	for _, d := range dirs {
		for _, p := range coreProto {
			for _, s := range coreAddr {
				for _, sp := range corePorts {
					for _, t := range coreAddr {
						for _, dp := range corePorts {
							c.rule(mk(d, p, s, sp, t, dp), true)
						}
					}
				}
			}
		}
	}
	c.smp.Offer(mk("out", "17", "10.129.66.195/24", "80,8080-8090", "assigned", "0,65535"))
	// every large dimension completely, against every core combination of the others' representatives
	repAddr := []string{"any", "10.1.2.3", "10.129.66.195/24"}
	repPorts := []string{"", "80,8080-8090"}
	for _, p := range protoForms() {
		for _, d := range dirs {
			for _, s := range repAddr {
				for _, sp := range repPorts {
					for _, t := range repAddr {
						for _, dp := range repPorts {
							c.rule(mk(d, p, s, sp, t, dp), true)
						}
					}
				}
			}
		}
	}
	for _, a := range addrForms() {
		for _, d := range dirs {
			for _, p := range []string{"ip", "17"} {
				for _, other := range repAddr {
					for _, sp := range repPorts {
						for _, dp := range repPorts {
							c.rule(mk(d, p, a, sp, other, dp), true)
							c.rule(mk(d, p, other, sp, a, dp), true)
						}
					}
				}
			}
		}
	}
	pf := portForms(thorough)
	for _, f := range pf {
		for _, d := range dirs {
			for _, p := range []string{"ip", "6"} {
				for _, s := range repAddr {
					for _, t := range repAddr {
						for _, other := range repPorts {
							c.rule(mk(d, p, s, f, t, other), true)
							c.rule(mk(d, p, s, other, t, f), true)
						}
					}
				}
			}
		}
	}
	if thorough {
		// pairwise products of the large dimensions: every source form x every destination form of addresses and of
		// port lists, and every protocol x every address form on either side
		af := addrForms()
		for _, a := range af {
			for _, b := range af {
				for _, d := range dirs {
					for _, p := range []string{"ip", "17"} {
						c.rule(mk(d, p, a, "", b, "80,8080-8090"), true)
						c.rule(mk(d, p, a, "80", b, ""), true)
					}
				}
			}
		}
		for _, f := range pf {
			for _, g := range pf {
				for _, d := range dirs {
					c.rule(mk(d, "6", "10.1.2.3", f, "10.129.66.195/24", g), true)
					c.rule(mk(d, "17", "any", f, "assigned", g), true)
				}
			}
		}
		for _, p := range protoForms() {
			for _, a := range af {
				c.rule(mk("out", p, a, "80", "assigned", ""), true)
				c.rule(mk("in", p, "any", "", a, "1-65535"), true)
			}
		}
	}
	c.smp.Offer(mk("in", "ip", "any", pf[len(pf)-1], "10.1.2.3", ""))
	// spacing: 1..3 blanks/tabs between tokens, leading and trailing blanks
	base := []string{"permit", "out", "17", "from", "10.1.2.3", "80", "to", "assigned", "1-2"}
	seps := []string{" ", "  ", "\t", " \t ", "   "}
	for _, sep := range seps {
		for _, lead := range []string{"", " ", "\t "} {
			for _, trail := range []string{"", " ", " \t"} {
				c.rule(lead+strings.Join(base, sep)+trail, true)
			}
		}
	}
	for i := 0; i < len(base)-1; i++ { // one widened gap at each position
		for _, sep := range seps[1:] {
			c.rule(strings.Join(base[:i+1], " ")+sep+strings.Join(base[i+1:], " "), true)
		}
	}
	// SDF Filter IE level: uplink swap is decided by the PDR's source interface (Access = 0)
	for _, r := range []string{mk("out", "17", "10.1.2.3", "80", "10.129.66.195/24", "1-2"), mk("in", "ip", "any", "", "assigned", "")} {
		ref, _ := RefParse(r)
		for _, fid := range []uint32{0, 0x01020304} {
			for srcIf := uint8(0); srcIf < 4; srcIf++ {
				c.evals++
				b, err := forwarder.VSdfFilterAttrs(ie.NewSDFFilter(r, "", "", "", fid), srcIf)
				if err != nil {
					c.fail("sdf-filter-error", err.Error(), r)
					continue
				}
				as, _ := nlw.Walk(b)
				fdA, ok := nlw.One(as, 1)
				if !ok {
					c.fail("sdf-filter-no-flow-description", "SDF filter attributes lack the flow description", r)
					continue
				}
				dec, err := DecodeAttrs(fdA.Data)
				want := *ref
				if srcIf == 0 {
					want = Swapped(want)
				}
				if err != nil || !eq(*dec, want) {
					c.fail(fmt.Sprintf("sdf-filter-swap:srcif=%d", srcIf), fmt.Sprintf("source interface %d: packed filter %v (err %v), want %s (source and destination exchanged iff uplink)", srcIf, dec, err, want), r)
				}
				idA, has := nlw.One(as, 5)
				if (fid != 0) != has {
					c.fail("sdf-filter-id-presence", fmt.Sprintf("SDF filter id attribute present=%v for id %#x", has, fid), r)
				} else if has {
					if v, ok := idA.U32(); !ok || v != fid {
						c.fail("sdf-filter-id", fmt.Sprintf("SDF filter id attribute % x, want %#x", idA.Data, fid), r)
					}
				}
			}
		}
	}
	// PDI level: the swap follows the PDI's Source Interface wherever that IE stands relative to the SDF Filter IEs
	// (child order is free in TS 29.244), with one and with two filters
	for _, r := range []string{mk("out", "17", "10.1.2.3", "80", "10.129.66.195/24", "1-2"), mk("in", "6", "any", "", "192.168.0.0/16", "443")} {
		ref, _ := RefParse(r)
		r2 := mk("out", "ip", "172.16.1.0/24", "", "assigned", "")
		ref2, _ := RefParse(r2)
		for srcIf := uint8(0); srcIf < 4; srcIf++ {
			for order := 0; order < 3; order++ {
				for two := 0; two < 2; two++ {
					c.evals++
					si := ie.NewSourceInterface(srcIf)
					sdfs := []*ie.IE{ie.NewSDFFilter(r, "", "", "", 0)}
					refs := []*Filter{ref}
					if two == 1 {
						sdfs = append(sdfs, ie.NewSDFFilter(r2, "", "", "", 0))
						refs = append(refs, ref2)
					}
					var ch []*ie.IE
					switch order {
					case 0: // Source Interface first (the order go-pfcp based SMFs emit)
						ch = append([]*ie.IE{si}, sdfs...)
					case 1: // SDF filters first
						ch = append(append([]*ie.IE{}, sdfs...), si)
					case 2: // Source Interface between the filters (or first, with one filter, after a UE IP address)
						ch = append([]*ie.IE{ie.NewUEIPAddress(2, "10.60.0.1", "", 0, 0), sdfs[0], si}, sdfs[1:]...)
					}
					what := fmt.Sprintf("%s [source interface %d, child order %d, %d filter(s)]", r, srcIf, order, len(sdfs))
					b, err := forwarder.VPdiAttrs(ie.NewPDI(ch...))
					if err != nil {
						c.fail("pdi-error", err.Error(), what)
						continue
					}
					as, _ := nlw.Walk(b)
					fs := nlw.Find(as, 3) // PDI_SDF_FILTER
					if len(fs) != len(sdfs) {
						c.fail("pdi-sdf-filter-count", fmt.Sprintf("%d SDF filter attributes for %d SDF Filter IEs", len(fs), len(sdfs)), what)
						continue
					}
					for k, f := range fs {
						fdA, ok := nlw.One(f.Children(), 1)
						if !ok {
							c.fail("sdf-filter-no-flow-description", "SDF filter attributes lack the flow description", what)
							continue
						}
						dec, err := DecodeAttrs(fdA.Data)
						want := *refs[k]
						if srcIf == 0 {
							want = Swapped(want)
						}
						if err != nil || !eq(*dec, want) {
							c.fail(fmt.Sprintf("pdi-sdf-filter-swap:srcif=%d:order=%d", srcIf, order), fmt.Sprintf("filter %d packed as %v (err %v), want %s (source and destination exchanged iff the PDI's source interface is Access)", k+1, dec, err, want), what)
						}
					}
				}
			}
		}
	}
	positives := c.evals

	// negative space: near-miss mutations of valid rules
	var bases [][]string
	for _, d := range dirs {
		for _, p := range []string{"ip", "17"} {
			for _, s := range []string{"any", "10.1.2.3", "10.129.66.195/24"} {
				for _, sp := range []string{"", "80,8080-8090"} {
					for _, dp := range []string{"", "1-2"} {
						bases = append(bases, strings.Fields(mk(d, p, s, sp, "assigned", dp)))
					}
				}
			}
		}
	}
	menu := []string{"deny", "inout", "256", "-1", "form", "1.2.3", "1.2.3.4/33", "80-", "-80", "80-90-100", "65536", "", "::1", "2001:db8::/32",
		"fe80::1/64", "::ffff:10.1.2.3", "\xff\xfe", "ｐermit", "10.1.2.3/", "/24", "1.2.3.4.5", "01.2.3.4", "+80", "0x50", "80,", ",80", "80,,90", "90-80", " ", "any/8", "to", "from", "permit"}
	for _, b := range bases {
		for i := range b {
			// deletion
			c.rule(strings.Join(append(append([]string{}, b[:i]...), b[i+1:]...), " "), false)
			// duplication
			d := append(append([]string{}, b[:i+1]...), b[i:]...)
			c.rule(strings.Join(d, " "), false)
			// adjacent swap
			if i+1 < len(b) {
				sw := append([]string{}, b...)
				sw[i], sw[i+1] = sw[i+1], sw[i]
				c.rule(strings.Join(sw, " "), false)
			}
			for _, m := range menu {
				r := append([]string{}, b...)
				r[i] = m
				c.rule(strings.Join(r, " "), false)
			}
		}
		if thorough {
			// pairs of replacements
			for i := range b {
				for k := i + 1; k < len(b); k++ {
					for _, m1 := range menu[:12] {
						for _, m2 := range menu[:12] {
							r := append([]string{}, b...)
							r[i], r[k] = m1, m2
							c.rule(strings.Join(r, " "), false)
						}
					}
				}
			}
		}
	}
	// all byte strings of length <= 2 (thorough: 3) over a 12-symbol alphabet, alone and as each token of a rule
	alpha := []byte{' ', 'a', 'p', '0', '9', '.', '/', ',', '-', ':', 0xff, 0x00}
	var shorts []string
	shorts = append(shorts, "")
	for _, a := range alpha {
		shorts = append(shorts, string([]byte{a}))
		for _, b := range alpha {
			shorts = append(shorts, string([]byte{a, b}))
			if thorough {
				for _, d := range alpha {
					shorts = append(shorts, string([]byte{a, b, d}))
				}
			}
		}
	}
	tok := strings.Fields(mk("out", "17", "10.1.2.3", "80", "assigned", "1-2"))
	for _, s := range shorts {
		c.rule(s, false)
		for i := range tok {
			r := append([]string{}, tok...)
			r[i] = s
			c.rule(strings.Join(r, " "), false)
		}
	}
	c.smp.Offer("permit out 17 from 10.1.2.3 80- to assigned 1-2")
	c.smp.Offer("permit out ip from 2001:db8::/32 to assigned")

	run.Set("evaluations", c.evals)
	run.Set("distinct_nontrivial", c.nontr.Len())
	run.Set("rule", "positive space generated from the grammar (full product of core dimensions; all 257 protocols, 71 address forms incl. every prefix length 0..32 with host bits set, all port-list shapes of the pool, spacing variants, each against every core combination of the other dimensions' representatives; thorough adds the pairwise products address form x address form, port-list form x port-list form and protocol x address form), each rule parsed and packed with and without the uplink swap; SDF Filter IE level (4 source interfaces x filter id) and PDI level (4 source interfaces x Source Interface before / after / between the SDF Filter IEs x 1-2 filters): swap iff the PDI's source interface is Access; negative space = every single-token deletion/duplication/adjacent swap/replacement from a 33-entry menu on 48 base rules and all byte strings of length <=2 (thorough 3) over 12 symbols; distinct_nontrivial = distinct grammar rules (whitespace-normalised) that were compared field by field")
	run.Set("exhaustive", true)
	run.Set("samples", c.smp.List())
	run.Set("positive_evaluations", positives)
	run.Set("negative_rejected", c.rejected)
	run.Set("accepted_beyond_grammar", c.overAccept.Len())
	run.Set("accepted_beyond_grammar_examples", c.overList)
	run.Set("bound", "grammar-bounded: port values from {0,1,80,8080,65535}, lists up to 8 items, address bytes from fixed representatives; 'any' and 'assigned' both denote 0.0.0.0/0")
	run.Assumption("the reference parser in harness/internal/verif/c16 states what a rule denotes: 'ip' = protocol 0xff, any/assigned = 0.0.0.0/0, a host = /32, a prefix = its network address and mask, a single port n = range (n,n)")
	run.Assumption("strings outside the grammar that the implementation accepts (IPv6 literals, reversed ranges, trailing tokens) are listed in the evidence and not judged: the property only demands that they are rejected or handled without a fault")
	run.Assumption("the data plane reads the first four octets of an address attribute (any/assigned are handed down as 16 zero octets)")
	run.Finish()
}
