//go:build verif

package pworld

import (
	"github.com/free5gc/go-upf/internal/verif/e3host"
	"github.com/free5gc/go-upf/internal/verif/evid"
	"github.com/free5gc/go-upf/internal/verif/seqx"
)

// RunSchedules is part 2 of C15: the real periodic server (Serve goroutine + ticker goroutines) under every
// schedule within the preemption bound, explored by the vsched-flavour worker (package e3, c15.go).
var RunSchedules = func(run *evid.Run, tier string, smp *evid.Samples, total *seqx.Stats) {
	rep := e3host.Exec("C15", tier)
	sch, pts, out, exh, s := e3host.Apply(run, rep, "C15", nil)
	for _, x := range s {
		smp.Offer(x)
	}
	run.Set("schedules", map[string]interface{}{"schedules": sch, "scheduling_points": pts, "distinct_outcomes": out, "exhaustive_within_bounds": exh,
		"how": "part 2: perio.Server + ticker goroutines under the cooperative scheduler; driver thread issues a fixed Add/Del(/Close) list, ticks are scheduler transitions (budget 2-3), event queue optionally scaled to 1-2; reference = map-of-sets model run over the enqueue order read off each schedule"})
	total.States += sch
	total.Transitions += pts
	if !exh {
		total.Exhaustive = false
	}
	if sch < 2 {
		evid.Infra("vacuous schedule exploration")
	}
}
