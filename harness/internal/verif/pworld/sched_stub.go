//go:build verif

package pworld

import (
	"github.com/free5gc/go-upf/internal/verif/evid"
	"github.com/free5gc/go-upf/internal/verif/seqx"
)

// RunSchedules (part 2 of C15) is provided by the E3 flavour; the plain build only records that it is absent.
var RunSchedules = func(run *evid.Run, tier string, smp *evid.Samples, total *seqx.Stats) {
	run.Set("schedules", "not run in this build")
}
