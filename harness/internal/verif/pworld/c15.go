//go:build verif

// Package pworld: C15 — periodic reporting queries exactly the URRs currently registered.
// Part 1: explicit-state search over registration histories of the real perio.Server goroutine (ticks are
// injected events). Part 3: batching of Gtp5g.queryMultiURR over the simulated kernel.
// (Part 2, schedules, runs under the E3 scheduler.) Part 4: registration through the driver's URR removal.
package pworld

import (
	"fmt"
	"sort"
	"strings"
	"sync"
	"time"

	"github.com/free5gc/go-upf/internal/forwarder/perio"
	"github.com/free5gc/go-upf/internal/pfcp"
	"github.com/free5gc/go-upf/internal/report"
	"github.com/free5gc/go-upf/internal/verif/evid"
	"github.com/free5gc/go-upf/internal/verif/nlw"
	"github.com/free5gc/go-upf/internal/verif/seqx"
	"github.com/free5gc/go-upf/internal/verif/simk"
	"github.com/free5gc/go-upf/internal/verif/xlate"
)

var periods = []time.Duration{3600 * time.Second, 7200 * time.Second}

type pair struct {
	seid uint64
	urr  uint32
}

type inst struct {
	wg      sync.WaitGroup
	s       *perio.Server
	gid     string
	mu      sync.Mutex
	queries []map[uint64][]uint32
	notes   []report.SessReport
	ref     map[time.Duration]map[pair]bool
	closed  bool
	nQuery  int
	maxSeid int
}

func (i *inst) NotifySessReport(sr report.SessReport) {
	i.mu.Lock()
	i.notes = append(i.notes, sr)
	i.mu.Unlock()
}
func (i *inst) PopBufPkt(uint64, uint16) ([]byte, bool) { return nil, false }

func (i *inst) query(m map[uint64][]uint32) (map[uint64][]report.USAReport, error) {
	i.mu.Lock()
	defer i.mu.Unlock()
	cp := map[uint64][]uint32{}
	out := map[uint64][]report.USAReport{}
	for seid, us := range m {
		cp[seid] = append([]uint32{}, us...)
		for _, u := range us {
			out[seid] = append(out[seid], report.USAReport{URRID: u, VolumMeasure: report.VolumeMeasure{TotalVolume: seid<<32 | uint64(u)<<8 | uint64(i.nQuery)}})
		}
	}
	i.nQuery++
	i.queries = append(i.queries, cp)
	return out, nil
}

func spec(tier, scenario string) seqx.Spec {
	depth := 6
	dl := 110 * time.Second
	if tier == "thorough" {
		depth = 9
		dl = 30 * time.Minute
	}
	return seqx.Spec{Prop: "C15", Scenario: scenario, MaxDepth: depth, Deadline: dl, New: func() seqx.Instance {
		pfcp.VQuietLog()
		i := &inst{ref: map[time.Duration]map[pair]bool{}, maxSeid: 2}
		s, err := perio.OpenServer(&i.wg)
		if err != nil {
			evid.Infra("perio.OpenServer: %v", err)
		}
		i.s = s
		s.Handle(i, i.query)
		i.settle()
		return i
	}}
}

func init() { seqx.Register("C15", spec) }

func (i *inst) settle() bool {
	alive, st := i.s.VQuiesce(&i.gid)
	if st == "stuck" {
		evid.Infra("perio server did not become quiescent")
	}
	return alive
}

func (i *inst) registered(p pair) (time.Duration, bool) {
	for per, set := range i.ref {
		if set[p] {
			return per, true
		}
	}
	return 0, false
}

func (i *inst) Enabled() []seqx.Event {
	if i.closed {
		return nil
	}
	var ev []seqx.Event
	nm := func(e seqx.Event, f string, a ...interface{}) seqx.Event { e.N = fmt.Sprintf(f, a...); return e }
	for seid := 1; seid <= i.maxSeid; seid++ {
		for urr := 1; urr <= 2; urr++ {
			p := pair{uint64(seid), uint32(urr)}
			if _, ok := i.registered(p); ok {
				ev = append(ev, nm(seqx.Ev("Del", int64(seid), int64(urr)), "Del(%d,%d)", seid, urr))
			} else {
				for k := range periods {
					ev = append(ev, nm(seqx.Ev("Add", int64(seid), int64(urr), int64(k)), "Add(%d,%d,P%d)", seid, urr, k+1))
				}
				if seid == 1 && urr == 1 {
					ev = append(ev, nm(seqx.Ev("Del", int64(seid), int64(urr)), "Del(%d,%d: not registered)", seid, urr))
				}
			}
		}
	}
	for k := range periods {
		ev = append(ev, nm(seqx.Ev("Tick", int64(k)), "Tick(P%d)", k+1))
	}
	ev = append(ev, nm(seqx.Ev("Close"), "Close"))
	return ev
}

func (i *inst) Key() string {
	var parts []string
	for per, l := range i.s.VGroups() {
		parts = append(parts, fmt.Sprintf("%v:%v", per, l))
	}
	sort.Strings(parts)
	return fmt.Sprintf("%v closed=%v %s", parts, i.closed, i.s.VExtra())
}

func canonQuery(m map[uint64][]uint32) string {
	var l []string
	for seid, us := range m {
		for _, u := range us {
			l = append(l, fmt.Sprintf("%d/%d", seid, u))
		}
	}
	sort.Strings(l)
	return strings.Join(l, " ")
}

func (i *inst) tickers(want int) int {
	n := perio.VTickers()
	for k := 0; k < 2000 && n != want; k++ { // an exiting goroutine needs a moment to disappear from the dump
		time.Sleep(100 * time.Microsecond)
		n = perio.VTickers()
	}
	return n
}

func (i *inst) Apply(e seqx.Event) seqx.StepResult {
	var viols []seqx.Viol
	var tags []string
	fail := func(sig, f string, a ...interface{}) {
		viols = append(viols, seqx.Viol{Sig: "C15:" + sig, What: fmt.Sprintf(f, a...)})
	}
	i.mu.Lock()
	i.queries, i.notes = nil, nil
	i.mu.Unlock()
	switch e.Op {
	case "Add":
		p := pair{uint64(e.A[0]), uint32(e.A[1])}
		per := periods[e.A[2]]
		i.s.AddPeriodReportTimer(p.seid, p.urr, per)
		if i.ref[per] == nil {
			i.ref[per] = map[pair]bool{}
		}
		i.ref[per][p] = true
	case "Del":
		p := pair{uint64(e.A[0]), uint32(e.A[1])}
		i.s.DelPeriodReportTimer(p.seid, p.urr)
		if per, ok := i.registered(p); ok {
			delete(i.ref[per], p)
			if len(i.ref[per]) == 0 {
				delete(i.ref, per)
				tags = append(tags, "last-urr-of-period-removed")
			}
		} else {
			tags = append(tags, "del-unregistered")
		}
	case "Tick":
		per := periods[e.A[0]]
		i.s.VTick(per)
		if len(i.ref[per]) == 0 {
			tags = append(tags, "stale-tick")
		}
	case "Close":
		i.s.Close()
		i.closed = true
		i.ref = map[time.Duration]map[pair]bool{}
	}
	alive := i.settle()
	i.mu.Lock()
	queries, notes := i.queries, i.notes
	i.mu.Unlock()
	if e.Op == "Close" {
		done := make(chan struct{})
		go func() { i.wg.Wait(); close(done) }()
		select {
		case <-done:
		case <-time.After(20 * time.Second):
			fail("close-does-not-terminate", "after Close the periodic server's goroutines did not all terminate: %d ticker goroutine(s), %d server goroutine(s) left", perio.VTickers(), perio.VServers())
		}
		if alive {
			fail("server-survives-close", "the periodic server goroutine still exists after Close")
		}
	} else if !alive {
		fail("server-died", "the periodic server goroutine terminated on %s", e)
	}
	if e.Op == "Tick" {
		per := periods[e.A[0]]
		want := ""
		{
			var l []string
			for p := range i.ref[per] {
				l = append(l, fmt.Sprintf("%d/%d", p.seid, p.urr))
			}
			sort.Strings(l)
			want = strings.Join(l, " ")
		}
		switch {
		case want == "" && len(queries) > 0:
			fail("query-without-registration", "tick of %v with no URR registered under it queried %q", per, canonQuery(queries[0]))
		case want != "" && len(queries) != 1:
			fail("tick-query-count", "tick of %v with registered set {%s}: %d queries", per, want, len(queries))
		case want != "":
			if got := canonQuery(queries[0]); got != want {
				kind := "extra-or-missing"
				fail("wrong-query-set:"+kind, "tick of %v queried {%s}, registered under that period: {%s}", per, got, want)
			}
			// every report handed to the handler exactly once, flagged PERIO, under its own SEID
			seen := map[string]int{}
			for _, n := range notes {
				for _, r := range n.Reports {
					u, ok := r.(report.USAReport)
					if !ok {
						fail("foreign-report", "a non-usage report was notified on a tick")
						continue
					}
					seen[fmt.Sprintf("%d/%d", n.SEID, u.URRID)]++
					if u.USARTrigger.Flags&report.USAR_TRIG_PERIO == 0 {
						fail("report-not-marked-periodic", "report for %d/%d delivered without the PERIO trigger", n.SEID, u.URRID)
					}
					if u.VolumMeasure.TotalVolume>>32 != n.SEID {
						fail("report-under-wrong-session", "report measured for session %d delivered under session %d", u.VolumMeasure.TotalVolume>>32, n.SEID)
					}
				}
			}
			for p := range i.ref[per] {
				k := fmt.Sprintf("%d/%d", p.seid, p.urr)
				if seen[k] != 1 {
					fail("report-delivery-count", "report for %s delivered %d times on one tick", k, seen[k])
				}
			}
			if len(seen) != len(i.ref[per]) {
				fail("report-delivery-extra", "reports delivered for %d URRs, %d registered", len(seen), len(i.ref[per]))
			}
		}
	} else if len(queries) > 0 || len(notes) > 0 {
		fail("query-without-tick", "%s caused %d queries / %d notifications", e, len(queries), len(notes))
	}
	// the server's registration state equals the reference
	if !i.closed {
		got := map[string]bool{}
		for per, l := range i.s.VGroups() {
			for _, x := range l {
				got[fmt.Sprintf("%v:%d/%d", per, x[0], x[1])] = true
			}
		}
		for per, set := range i.ref {
			for p := range set {
				k := fmt.Sprintf("%v:%d/%d", per, p.seid, p.urr)
				if !got[k] {
					fail("registration-lost", "%d/%d should be registered under %v", p.seid, p.urr, per)
				}
				delete(got, k)
			}
		}
		for k := range got {
			fail("registration-stale", "%s is registered but was removed / never added", k)
		}
	}
	// one ticker goroutine per non-empty period group; none after Close
	if n := i.tickers(len(i.ref)); n != len(i.ref) {
		fail("ticker-count", "%d ticker goroutine(s) alive, %d period(s) have registered URRs", n, len(i.ref))
	}
	return seqx.StepResult{Obs: fmt.Sprintf("%s => queries %v notes %d", e, func() []string {
		var l []string
		for _, q := range queries {
			l = append(l, canonQuery(q))
		}
		return l
	}(), len(notes)), Viols: viols, Tags: tags}
}

func (i *inst) Close() {
	if !i.closed {
		i.s.Close()
		i.closed = true
	}
	done := make(chan struct{})
	go func() { i.wg.Wait(); close(done) }()
	select {
	case <-done:
	case <-time.After(20 * time.Second):
	}
}

// ---- part 3: batching ----------------------------------------------------------------------------------

func batching(run *evid.Run) (evals int64, samples []interface{}) {
	w := xlate.NewWorld()
	defer w.Close()
	max := 56
	for _, nsess := range []int{1, 2, 3} {
		for _, n := range []int{0, 1, 55, 56, 57, 111, 112, 113, 200} {
			// every split of n URRs over nsess sessions in which session boundaries fall around the batch limit
			var splits [][]int
			switch nsess {
			case 1:
				splits = [][]int{{n}}
			case 2:
				for a := 0; a <= n; a++ {
					splits = append(splits, []int{a, n - a})
				}
			case 3:
				for a := 0; a <= n; a += 7 {
					for b := 0; a+b <= n; b += 5 {
						splits = append(splits, []int{a, b, n - a - b})
					}
				}
			}
			for _, sp := range splits {
				evals++
				w.K.Reset()
				in := map[uint64][]uint32{}
				want := map[string]bool{}
				for si, cnt := range sp {
					seid := uint64(si + 1)
					for u := 1; u <= cnt; u++ {
						in[seid] = append(in[seid], uint32(u))
						w.K.Put(simk.Key{SEID: seid, Kind: 'U', ID: uint32(u)})
						want[fmt.Sprintf("%d/%d", seid, u)] = true
					}
				}
				w.K.TakeLog()
				out, err := w.G.VQueryMulti(in)
				desc := map[string]interface{}{"sessions": nsess, "urrs_per_session": sp}
				rep := func(sig, what string) {
					run.Report(evid.Violation{Signature: "C15:batching:" + sig, Engine: "E2-shapes", Scenario: "queryMultiURR", What: what + fmt.Sprintf(" -- split %v", sp), Replay: desc})
				}
				if err != nil {
					rep("error", fmt.Sprintf("queryMultiURR failed: %v", err))
					continue
				}
				asked := map[string]int{}
				for _, r := range w.K.TakeLog() {
					if r.Cmd != simk.CmdGetMultiReports {
						continue
					}
					k := 0
					for _, a := range nlw.Find(r.Attrs, 11) {
						ch := a.Children()
						ida, _ := nlw.One(ch, 3)
						sa, _ := nlw.One(ch, 8)
						id, _ := ida.U32()
						seid, _ := sa.U64()
						asked[fmt.Sprintf("%d/%d", seid, id)]++
						k++
					}
					if k > max {
						rep("batch-too-large", fmt.Sprintf("one GET_MULTI_REPORTS request carries %d (SEID, URR) pairs, limit %d", k, max))
					}
					if numA, ok := nlw.One(r.Attrs, 12); ok {
						if v, _ := numA.U32(); int(v) != k {
							rep("batch-count-attribute", fmt.Sprintf("URR_NUM attribute says %d, request carries %d pairs", v, k))
						}
					}
				}
				for k := range want {
					if asked[k] != 1 {
						rep("pair-query-count", fmt.Sprintf("pair %s queried %d times (must be exactly once across the batches)", k, asked[k]))
						break
					}
				}
				for k := range asked {
					if !want[k] {
						rep("pair-not-requested", fmt.Sprintf("pair %s queried but not in the input", k))
						break
					}
				}
				got := map[string]int{}
				for seid, us := range out {
					for _, u := range us {
						got[fmt.Sprintf("%d/%d", seid, u)]++
					}
				}
				for k := range want {
					if got[k] != 1 {
						rep("result-regrouping", fmt.Sprintf("report for %s appears %d times in the result (under its SEID)", k, got[k]))
						break
					}
				}
				if len(got) != len(want) {
					rep("result-extra", fmt.Sprintf("%d reports in the result, %d pairs queried", len(got), len(want)))
				}
			}
		}
	}
	samples = append(samples, "queryMultiURR: 2 sessions, 113 URRs split 56+57", "queryMultiURR: 3 sessions, 200 URRs split 7+5+188")
	return
}

func Run(tier string) {
	run := evid.NewRun("C15", tier)
	smp := &evid.Samples{N: 10}
	var total seqx.Stats
	sp := spec(tier, "registrations")
	st := seqx.Explore(run, sp, tier, smp)
	seqx.Merge(run, "registrations", st, &total)
	ev, bs := batching(run)
	for _, s := range bs {
		smp.Offer(s)
	}
	run.Set("batching_evaluations", ev)
	// part 4: through the driver, URR removal always unregisters (also when the data plane has lost the URR)
	{
		w := xlate.NewWorld()
		n := xlate.RemovalUnregisters(w, func(sig, what string, r map[string]interface{}) {
			run.Report(evid.Violation{Signature: "C15:driver-" + sig, Engine: "E2-shapes", Scenario: "removal-unregisters", What: what, Replay: r})
		})
		n2 := xlate.CreateRegisters(w, func(sig, what string, r map[string]interface{}) {
			run.Report(evid.Violation{Signature: "C15:driver-" + sig, Engine: "E2-shapes", Scenario: "creation-registers", What: what, Replay: r})
		})
		w.Close()
		run.Set("driver_removal_evaluations", n)
		run.Set("driver_creation_evaluations", n2)
	}
	RunSchedules(run, tier, smp, &total)
	seqx.Finish(run, total, smp, fmt.Sprintf("part 1: sessions {1,2} x URRs {1,2} x periods {P1,P2}, Add/Del/Tick (incl. stale ticks and Del of an unregistered URR)/Close, all histories to depth %d (completed %d) on the real perio.Server goroutine; part 4: Gtp5g.CreateURR with / without the periodic trigger under all 24 child orders, and CreateURR x3 / RemoveURR over the simulated kernel with the removed URR present or already lost in the data plane (ENOENT), tick read back from GET_MULTI_REPORTS; part 3: queryMultiURR with 1..3 sessions x {0,1,55,56,57,111,112,113,200} URRs over all 2-session splits and a lattice of 3-session splits", sp.MaxDepth, st.DepthDone))
	run.Assumption("ticks are injected events (posted to the server's event channel as the ticker goroutine does); real tickers run with periods of an hour and more")
	run.Assumption("each URR is registered at most once at a time, as the quantifier says")
	run.Finish()
}
