//go:build verif

// Package nlw: an independent walker of netlink attribute streams (struct nlattr: u16 len, u16 type,
// payload padded to 4), written from linux/netlink.h; it shares no code with go-nl or go-gtp5gnl.
package nlw

import (
	"encoding/binary"
	"fmt"
)

const (
	fNested   = 0x8000
	fNetOrder = 0x4000
)

type Attr struct {
	Type   int
	Nested bool
	Data   []byte
}

// Walk splits b into attributes. Repeated attributes are kept in order.
func Walk(b []byte) ([]Attr, error) {
	var out []Attr
	for len(b) > 0 {
		if len(b) < 4 {
			return out, fmt.Errorf("trailing %d octets", len(b))
		}
		l := int(binary.LittleEndian.Uint16(b[0:2]))
		t := int(binary.LittleEndian.Uint16(b[2:4]))
		if l < 4 || l > len(b) {
			return out, fmt.Errorf("attribute length %d out of range (have %d)", l, len(b))
		}
		out = append(out, Attr{Type: t &^ (fNested | fNetOrder), Nested: t&fNested != 0, Data: b[4:l]})
		adv := (l + 3) &^ 3
		if adv > len(b) {
			adv = len(b)
		}
		b = b[adv:]
	}
	return out, nil
}

func (a Attr) Children() []Attr {
	c, _ := Walk(a.Data)
	return c
}

func (a Attr) U8() (uint8, bool) {
	if len(a.Data) != 1 {
		return 0, false
	}
	return a.Data[0], true
}

func (a Attr) U16() (uint16, bool) {
	if len(a.Data) != 2 {
		return 0, false
	}
	return binary.LittleEndian.Uint16(a.Data), true
}

func (a Attr) U32() (uint32, bool) {
	if len(a.Data) != 4 {
		return 0, false
	}
	return binary.LittleEndian.Uint32(a.Data), true
}

func (a Attr) U64() (uint64, bool) {
	if len(a.Data) != 8 {
		return 0, false
	}
	return binary.LittleEndian.Uint64(a.Data), true
}

// Find returns all attributes of type t.
func Find(as []Attr, t int) []Attr {
	var out []Attr
	for _, a := range as {
		if a.Type == t {
			out = append(out, a)
		}
	}
	return out
}

// One returns the single attribute of type t (ok=false if absent or repeated).
func One(as []Attr, t int) (Attr, bool) {
	f := Find(as, t)
	if len(f) != 1 {
		return Attr{}, false
	}
	return f[0], true
}

// ---- encoding (for the simulated kernel's replies and notifications) ----

func Enc(t int, payload []byte) []byte {
	l := 4 + len(payload)
	b := make([]byte, (l+3)&^3)
	binary.LittleEndian.PutUint16(b[0:2], uint16(l))
	binary.LittleEndian.PutUint16(b[2:4], uint16(t))
	copy(b[4:], payload)
	return b
}

func Nest(t int, children ...[]byte) []byte {
	var p []byte
	for _, c := range children {
		p = append(p, c...)
	}
	return Enc(t|fNested, p)
}

func EncU8(t int, v uint8) []byte { return Enc(t, []byte{v}) }
func EncU16(t int, v uint16) []byte {
	b := make([]byte, 2)
	binary.LittleEndian.PutUint16(b, v)
	return Enc(t, b)
}
func EncU32(t int, v uint32) []byte {
	b := make([]byte, 4)
	binary.LittleEndian.PutUint32(b, v)
	return Enc(t, b)
}
func EncU64(t int, v uint64) []byte {
	b := make([]byte, 8)
	binary.LittleEndian.PutUint64(b, v)
	return Enc(t, b)
}
