//go:build verif

// Package c19: flag octets are decoded and encoded bit-exactly per TS 29.244 (exhaustive enumeration).
package c19

import (
	"encoding/binary"
	"fmt"

	"github.com/free5gc/go-upf/internal/report"
	"github.com/free5gc/go-upf/internal/verif/evid"
)

// bit tables transcribed from TS 29.244 (octet index is 0-based from the first value octet = "octet 5",
// bit is 1..8 as in the spec figures).
type bitname struct {
	octet, bit int
	name       string
}

// 8.2.26 Apply Action
var applyAction = []bitname{
	{0, 1, "DROP"}, {0, 2, "FORW"}, {0, 3, "BUFF"}, {0, 4, "NOCP"}, {0, 5, "DUPL"}, {0, 6, "IPMA"}, {0, 7, "IPMD"}, {0, 8, "DFRT"},
	{1, 1, "EDRT"}, {1, 2, "BDPN"}, {1, 3, "DDPN"}, {1, 4, "FSSM"}, {1, 5, "MBSU"},
}

// 8.2.19 Reporting Triggers
var reportingTriggers = []bitname{
	{0, 1, "PERIO"}, {0, 2, "VOLTH"}, {0, 3, "TIMTH"}, {0, 4, "QUHTI"}, {0, 5, "START"}, {0, 6, "STOPT"}, {0, 7, "DROTH"}, {0, 8, "LIUSA"},
	{1, 1, "VOLQU"}, {1, 2, "TIMQU"}, {1, 3, "ENVCL"}, {1, 4, "MACAR"}, {1, 5, "EVETH"}, {1, 6, "EVEQU"}, {1, 7, "IPMJL"}, {1, 8, "QUVTI"},
	{2, 1, "REEMR"}, {2, 2, "UPINT"},
}

// 8.2.41 Usage Report Trigger
var usageReportTrigger = []bitname{
	{0, 1, "PERIO"}, {0, 2, "VOLTH"}, {0, 3, "TIMTH"}, {0, 4, "QUHTI"}, {0, 5, "START"}, {0, 6, "STOPT"}, {0, 7, "DROTH"}, {0, 8, "IMMER"},
	{1, 1, "VOLQU"}, {1, 2, "TIMQU"}, {1, 3, "LIUSA"}, {1, 4, "TERMR"}, {1, 5, "MONIT"}, {1, 6, "ENVCL"}, {1, 7, "MACAR"}, {1, 8, "EVETH"},
	{2, 1, "EVEQU"}, {2, 2, "TEBUR"}, {2, 3, "IPMJL"}, {2, 4, "QUVTI"}, {2, 5, "EMRRE"}, {2, 6, "UPINT"},
}

// 8.2.13 Volume Measurement
var volumeMeasurement = []bitname{
	{0, 1, "TOVOL"}, {0, 2, "ULVOL"}, {0, 3, "DLVOL"}, {0, 4, "TONOP"}, {0, 5, "ULNOP"}, {0, 6, "DLNOP"},
}

func bitOf(b []byte, bn bitname) bool {
	if bn.octet >= len(b) {
		return false
	}
	return b[bn.octet]&(1<<(bn.bit-1)) != 0
}

type checker struct {
	run   *evid.Run
	evals int64
	nontr int64
	smp   evid.Samples
}

func (c *checker) fail(sig, what string, replay interface{}) {
	c.run.Report(evid.Violation{Signature: sig, Engine: "E2-shapes", Scenario: "flag-octets", What: what, Replay: replay})
}

func (c *checker) applyAction(b []byte) {
	c.evals++
	var a report.ApplyAction
	err := a.Unmarshal(b)
	if len(b) < 1 {
		if err == nil {
			c.fail("C19:apply-action:too-short-accepted", "ApplyAction.Unmarshal accepted an empty value", map[string]interface{}{"kind": "apply-action", "octets": b})
		}
		return
	}
	if err != nil {
		c.fail("C19:apply-action:rejected-len"+fmt.Sprint(len(b)), fmt.Sprintf("ApplyAction.Unmarshal(% x) error %v", b, err), map[string]interface{}{"kind": "apply-action", "octets": b})
		return
	}
	nz := false
	// direct method calls (a map per evaluation would dominate the run time)
	got := [13]bool{a.DROP(), a.FORW(), a.BUFF(), a.NOCP(), a.DUPL(), a.IPMA(), a.IPMD(), a.DFRT(), a.EDRT(), a.BDPN(), a.DDPN(), a.FSSM(), a.MBSU()}
	for i, bn := range applyAction {
		want := bitOf(b, bn)
		nz = nz || want
		if got[i] != want {
			c.fail(fmt.Sprintf("C19:apply-action:%s", bn.name),
				fmt.Sprintf("ApplyAction % x: accessor %s()=%v but octet %d bit %d is %v", b, bn.name, got[i], bn.octet+5, bn.bit, want),
				map[string]interface{}{"kind": "apply-action", "octets": b})
		}
	}
	var w uint16
	if len(b) >= 1 {
		w = uint16(b[0])
	}
	if len(b) >= 2 {
		w |= uint16(b[1]) << 8
	}
	if a.Flags != w {
		c.fail("C19:apply-action:flags-word", fmt.Sprintf("ApplyAction % x: Flags=%#x want %#x (octets little-endian)", b, a.Flags, w),
			map[string]interface{}{"kind": "apply-action", "octets": b})
	}
	if nz {
		c.nontr++
	}
}

func (c *checker) reportingTrigger(b []byte) {
	c.evals++
	var r report.ReportingTrigger
	err := r.Unmarshal(b)
	if len(b) < 2 {
		if err == nil {
			c.fail("C19:reporting-triggers:too-short-accepted", fmt.Sprintf("ReportingTrigger.Unmarshal accepted %d octets", len(b)),
				map[string]interface{}{"kind": "reporting-triggers", "octets": b})
		}
		return
	}
	if err != nil {
		c.fail("C19:reporting-triggers:rejected-len"+fmt.Sprint(len(b)), fmt.Sprintf("ReportingTrigger.Unmarshal(% x) error %v", b, err),
			map[string]interface{}{"kind": "reporting-triggers", "octets": b})
		return
	}
	got := [18]bool{r.PERIO(), r.VOLTH(), r.TIMTH(), r.QUHTI(), r.START(), r.STOPT(), r.DROTH(), r.LIUSA(),
		r.VOLQU(), r.TIMQU(), r.ENVCL(), r.MACAR(), r.EVETH(), r.EVEQU(), r.IPMJL(), r.QUVTI(), r.REEMR(), r.UPINT()}
	nz := false
	for i, bn := range reportingTriggers {
		want := bitOf(b, bn)
		nz = nz || want
		if got[i] != want {
			c.fail(fmt.Sprintf("C19:reporting-triggers:%s", bn.name),
				fmt.Sprintf("ReportingTrigger % x: accessor %s()=%v but octet %d bit %d is %v", b, bn.name, got[i], bn.octet+5, bn.bit, want),
				map[string]interface{}{"kind": "reporting-triggers", "octets": b})
		}
	}
	var w uint32
	for i := 0; i < len(b) && i < 3; i++ {
		w |= uint32(b[i]) << (8 * i)
	}
	if r.Flags&0xffffff != w {
		c.fail("C19:reporting-triggers:flags-word", fmt.Sprintf("ReportingTrigger % x: Flags=%#x want low 24 bits %#x", b, r.Flags, w),
			map[string]interface{}{"kind": "reporting-triggers", "octets": b})
	}
	if nz {
		c.nontr++
	}
}

func (c *checker) reportingTriggerIE(w uint32) {
	c.evals++
	r := report.ReportingTrigger{Flags: w}
	i := r.IE()
	p := i.Payload
	if len(p) != 3 || p[0] != byte(w) || p[1] != byte(w>>8) || p[2] != byte(w>>16) {
		c.fail("C19:reporting-triggers:encode", fmt.Sprintf("ReportingTrigger{%#x}.IE() payload % x, want %02x %02x %02x", w, p, byte(w), byte(w>>8), byte(w>>16)),
			map[string]interface{}{"kind": "reporting-triggers-encode", "word": w})
	}
	if w != 0 {
		c.nontr++
	}
}

func (c *checker) usageTrigger(w uint32) {
	c.evals++
	t := report.UsageReportTrigger{Flags: w}
	b := []byte{byte(w), byte(w >> 8), byte(w >> 16)}
	got := [22]bool{t.PERIO(), t.VOLTH(), t.TIMTH(), t.QUHTI(), t.START(), t.STOPT(), t.DROTH(), t.IMMER(),
		t.VOLQU(), t.TIMQU(), t.LIUSA(), t.TERMR(), t.MONIT(), t.ENVCL(), t.MACAR(), t.EVETH(),
		t.EVEQU(), t.TEBUR(), t.IPMJL(), t.QUVTI(), t.EMRRE(), t.UPINT()}
	for i, bn := range usageReportTrigger {
		want := bitOf(b, bn)
		if got[i] != want {
			c.fail(fmt.Sprintf("C19:usage-report-trigger:%s", bn.name),
				fmt.Sprintf("UsageReportTrigger{%#x}: accessor %s()=%v but octet %d bit %d is %v", w, bn.name, got[i], bn.octet+5, bn.bit, want),
				map[string]interface{}{"kind": "usage-report-trigger", "word": w})
		}
	}
	p := t.IE().Payload
	if len(p) != 3 || p[0] != b[0] || p[1] != b[1] || p[2] != b[2] {
		c.fail("C19:usage-report-trigger:encode", fmt.Sprintf("UsageReportTrigger{%#x}.IE() payload % x, want % x", w, p, b),
			map[string]interface{}{"kind": "usage-report-trigger", "word": w})
	}
	if w != 0 {
		c.nontr++
	}
}

func usageBit(name string) (uint32, bool) {
	for _, bn := range usageReportTrigger {
		if bn.name == name {
			return 1 << (8*bn.octet + bn.bit - 1), true
		}
	}
	return 0, false
}

func (c *checker) causeMapping() {
	// each reporting-trigger cause (a word with exactly one named bit) -> same-named usage-report trigger, no other
	for _, bn := range reportingTriggers {
		c.evals++
		c.nontr++
		cause := uint32(1) << (8*bn.octet + bn.bit - 1)
		var t report.UsageReportTrigger
		t.SetReportingTrigger(cause)
		want, same := usageBit(bn.name)
		if !same {
			// REEMR has no same-named usage-report trigger (EMRRE is a different name): nothing is demanded,
			// but it must not be mapped to a differently named *other* cause
			emrre, _ := usageBit("EMRRE")
			if t.Flags != 0 && t.Flags != emrre {
				c.fail("C19:cause-mapping:"+bn.name, fmt.Sprintf("cause %s (%#x) mapped to usage-report-trigger word %#x", bn.name, cause, t.Flags),
					map[string]interface{}{"kind": "cause-mapping", "cause": cause})
			}
			continue
		}
		if t.Flags != want {
			c.fail("C19:cause-mapping:"+bn.name, fmt.Sprintf("cause %s (%#x): usage-report-trigger word %#x, want exactly %s (%#x)", bn.name, cause, t.Flags, bn.name, want),
				map[string]interface{}{"kind": "cause-mapping", "cause": cause})
		}
		// also on top of flags already present (a report that is later marked PERIO/TERMR/IMMER): only ORs the bit in
		for _, pre := range []uint32{1 << 7, 1 << 11, 1} {
			t2 := report.UsageReportTrigger{Flags: pre}
			t2.SetReportingTrigger(cause)
			if t2.Flags != pre|want {
				c.fail("C19:cause-mapping-preset:"+bn.name, fmt.Sprintf("cause %s on preset %#x gives %#x, want %#x", bn.name, pre, t2.Flags, pre|want),
					map[string]interface{}{"kind": "cause-mapping", "cause": cause, "preset": pre})
			}
		}
	}
	// the zero word is no cause
	var t report.UsageReportTrigger
	t.SetReportingTrigger(0)
	c.evals++
	if t.Flags != 0 {
		c.fail("C19:cause-mapping:zero", fmt.Sprintf("cause word 0 mapped to %#x", t.Flags), map[string]interface{}{"kind": "cause-mapping", "cause": 0})
	}
}

func (c *checker) volume(flags uint8, vals [6]uint64) {
	c.evals++
	m := report.VolumeMeasure{Flags: flags, TotalVolume: vals[0], UplinkVolume: vals[1], DownlinkVolume: vals[2],
		TotalPktNum: vals[3], UplinkPktNum: vals[4], DownlinkPktNum: vals[5]}
	p := m.IE().Payload
	rep := map[string]interface{}{"kind": "volume-measurement", "flags": flags, "values": vals}
	if len(p) < 1 || p[0] != flags {
		c.fail("C19:volume-measurement:flags-octet", fmt.Sprintf("VolumeMeasure flags %#x: payload % x", flags, p), rep)
		return
	}
	off := 1
	for i, bn := range volumeMeasurement {
		if flags&(1<<(bn.bit-1)) == 0 {
			continue
		}
		if off+8 > len(p) {
			c.fail("C19:volume-measurement:short", fmt.Sprintf("VolumeMeasure flags %#x: payload too short for %s", flags, bn.name), rep)
			return
		}
		if v := binary.BigEndian.Uint64(p[off:]); v != vals[i] {
			c.fail("C19:volume-measurement:"+bn.name, fmt.Sprintf("VolumeMeasure flags %#x: field %s = %#x, want %#x", flags, bn.name, v, vals[i]), rep)
		}
		off += 8
	}
	if off != len(p) {
		c.fail("C19:volume-measurement:trailing", fmt.Sprintf("VolumeMeasure flags %#x: %d trailing octets", flags, len(p)-off), rep)
	}
	if flags != 0 {
		c.nontr++
	}
}

func (c *checker) setFlags() {
	for _, mnop := range []bool{false, true} {
		for pre := 0; pre < 64; pre++ {
			c.evals++
			m := report.VolumeMeasure{Flags: uint8(pre)}
			m.SetFlags(mnop)
			want := uint8(pre) | 0x07
			if mnop {
				want |= 0x38
			}
			if m.Flags != want {
				c.fail("C19:volume-measurement:setflags", fmt.Sprintf("SetFlags(mnop=%v) on %#x gives %#x, want %#x (TOVOL|ULVOL|DLVOL and, iff MNOP, TONOP|ULNOP|DLNOP)", mnop, pre, m.Flags, want),
					map[string]interface{}{"kind": "volume-setflags", "mnop": mnop, "preset": pre})
			}
		}
	}
}

func Run(tier string) {
	run := evid.NewRun("C19", tier)
	c := &checker{run: run}
	// Apply Action: empty, all 2^8 one-octet, all 2^16 two-octet, 3- and 4-octet forms with trailing octets
	c.applyAction(nil)
	c.applyAction([]byte{})
	for v := 0; v < 256; v++ {
		c.applyAction([]byte{byte(v)})
	}
	for v := 0; v < 65536; v++ {
		c.applyAction([]byte{byte(v), byte(v >> 8)})
		for _, tr := range []byte{0x00, 0xff, 0xa5} {
			c.applyAction([]byte{byte(v), byte(v >> 8), tr})
		}
		c.applyAction([]byte{byte(v), byte(v >> 8), 0x5a, 0xff})
	}
	c.smp.Offer("apply-action octets 04 / 0c 02 / ff 1f 00")
	// Reporting Triggers: lengths 0,1 rejected; all 2^16 two-octet; all 2^24 three-octet; four-octet form
	c.reportingTrigger(nil)
	for v := 0; v < 256; v++ {
		c.reportingTrigger([]byte{byte(v)})
	}
	for v := 0; v < 65536; v++ {
		c.reportingTrigger([]byte{byte(v), byte(v >> 8)})
	}
	lim := 1 << 24
	for v := 0; v < lim; v++ {
		c.reportingTrigger([]byte{byte(v), byte(v >> 8), byte(v >> 16)})
	}
	for v := 0; v < lim; v += 257 { // four-octet form (a later release may append an octet): stride keeps all 24 bits varying
		c.reportingTrigger([]byte{byte(v), byte(v >> 8), byte(v >> 16), 0xff})
	}
	for v := 0; v < lim; v++ {
		c.reportingTriggerIE(uint32(v))
	}
	c.smp.Offer("reporting-triggers octets 01 00 / 00 01 02 / ff ff 03")
	// Usage Report Trigger: all 2^22 flag words (+ words with the two unnamed top bits of octet 7)
	for v := 0; v < 1<<24; v++ {
		c.usageTrigger(uint32(v))
	}
	c.smp.Offer("usage-report-trigger words 0x000080 (IMMER) 0x000800 (TERMR) 0x3fffff")
	c.causeMapping()
	c.smp.Offer("cause words 1<<0 (PERIO) ... 1<<17 (UPINT)")
	// Volume Measurement: 64 flag subsets x byte-distinct and boundary counters
	valsets := [][6]uint64{
		{0x0102030405060708, 0x1112131415161718, 0x2122232425262728, 0x3132333435363738, 0x4142434445464748, 0x5152535455565758},
		{0, 0, 0, 0, 0, 0},
		{^uint64(0), ^uint64(0) - 1, 1 << 63, 1 << 32, 1<<32 - 1, 1},
	}
	for f := 0; f < 64; f++ {
		for _, vs := range valsets {
			c.volume(uint8(f), vs)
		}
	}
	c.setFlags()
	c.smp.Offer("volume-measurement flags 0x00..0x3f with counters 0x0102030405060708,...")

	run.Set("evaluations", c.evals)
	run.Set("distinct_nontrivial", c.nontr)
	run.Set("rule", "every octet pattern of each flag IE form is enumerated once (apply action: 1/2/3/4-octet forms; reporting triggers: 0/1/2/3/4-octet forms and re-encoding of all 2^24 words; usage report trigger: all 2^24 three-octet words incl. the 2^22 named ones; 18 single causes; 64 volume flag subsets x 3 counter sets x; SetFlags on 64 presets x MNOP); a case is non-trivial iff at least one named bit is set; each case is a distinct input by construction")
	run.Set("exhaustive", true)
	run.Set("samples", c.smp.List())
	run.Set("bound", "apply action 2^8+2^16 (+3x2^16 three-octet, 2^16 four-octet); reporting triggers 2^16+2^24 decode, 2^24 encode; usage report trigger 2^24; volume flags 2^6")
	run.Assumption("go-pfcp's ie.New* constructors copy the given octets into IE.Payload unchanged")
	run.Assumption("bit tables transcribed by hand from TS 29.244 v16 clauses 8.2.13, 8.2.19, 8.2.26, 8.2.41")
	run.Finish()
}
