//go:build verif

// Package seqx (engine E1): explicit-state breadth-first search over event histories of the real
// implementation. A state is the history that reaches it; a successor is computed by building a fresh
// real instance, replaying the history and applying one more event (live objects cannot be cloned).
// States are deduplicated by a canonical key; an oracle is evaluated on every transition.
// Work is distributed over worker processes (one real server each, own loopback address block).
package seqx

import (
	"bufio"
	"crypto/sha256"
	"encoding/hex"
	"encoding/json"
	"fmt"
	"io"
	"log"
	"os"
	"os/exec"
	"runtime"
	"sort"
	"strings"
	"sync"
	"sync/atomic"
	"time"

	"github.com/free5gc/go-upf/internal/verif/evid"
	"github.com/free5gc/go-upf/internal/verif/vsched"
)

type Event struct {
	Op string  `json:"op"`
	A  []int64 `json:"a,omitempty"`
	N  string  `json:"n,omitempty"` // display name only (menu entries); identity is Op+A(+S)
	S  string  `json:"s,omitempty"` // payload (e.g. a datagram in hex)
}

func (e Event) String() string {
	if e.N != "" {
		return e.N
	}
	if len(e.A) == 0 {
		return e.Op
	}
	s := e.Op + "("
	for i, a := range e.A {
		if i > 0 {
			s += ","
		}
		if a > 1<<20 || a < -(1<<20) {
			s += fmt.Sprintf("%#x", uint64(a))
		} else {
			s += fmt.Sprint(a)
		}
	}
	return s + ")"
}

func Ev(op string, a ...int64) Event { return Event{Op: op, A: a} }

func HistString(h []Event) string {
	var p []string
	for _, e := range h {
		p = append(p, e.String())
	}
	return strings.Join(p, " ; ")
}

type Viol struct {
	Sig  string `json:"sig"`
	What string `json:"what"`
	// Ev, if set, replaces the last event of the history in the replay (a sweep event reports the single
	// case that failed instead of the whole sweep)
	Ev *Event `json:"ev,omitempty"`
}

type StepResult struct {
	Obs   string   // observation of this step (only counted: number of distinct outcomes)
	Viols []Viol   // oracle verdicts of this step
	Tags  []string // vacuity guards: things that actually happened in this step (collision, fault hit, ...)
}

// Instance is one fresh world (real implementation + environment + reference model).
type Instance interface {
	Enabled() []Event       // events offered in the current state, simplest first
	Apply(Event) StepResult // run the event on the implementation, advance the reference, judge
	Key() string            // canonical state key (see the projection argument next to each implementation)
	Close()
}

// Finalizer is an optional extension: Final is called after the last Apply of an execution and before
// Close; it may stop the implementation and judge what is left behind (timers, goroutines).
type Finalizer interface {
	Final() []Viol
}

type Spec struct {
	Prop     string
	Scenario string
	New      func() Instance
	MaxDepth int
	Deadline time.Duration // internal deadline: the run ends with exhaustive=false, exit 0
	MaxViol  int           // stop after this many distinct new violations (default 3)
}

var registry = map[string]func(tier, scenario string) Spec{}

// Register makes a scenario family available to worker processes.
func Register(prop string, f func(tier, scenario string) Spec) { registry[prop] = f }

func hashStr(s string) string {
	h := sha256.Sum256([]byte(s))
	return hex.EncodeToString(h[:10])
}

// ---- worker side -------------------------------------------------------------------------------

type job struct {
	ID      int     `json:"id"`
	Hist    []Event `json:"hist"`
	Confirm bool    `json:"confirm,omitempty"` // replay hist, return the last step's verdicts only
	Check   bool    `json:"check,omitempty"`   // determinism check: run the first successor twice
}

type succ struct {
	Ev   Event    `json:"ev"`
	Key  string   `json:"key"`
	Obs  string   `json:"obs"`
	Viol []Viol   `json:"viol,omitempty"`
	Tags []string `json:"tags,omitempty"`
}

type reply struct {
	ID      int     `json:"id"`
	Enabled []Event `json:"enabled,omitempty"`
	Succ    *succ   `json:"succ,omitempty"`
	Done    bool    `json:"done,omitempty"`
	Events  int     `json:"events,omitempty"`
	Nondet  string  `json:"nondet,omitempty"`
	Viol    []Viol  `json:"viol,omitempty"`
}

// WorkerMain serves jobs on stdin/stdout: verif-worker seqx <prop> <tier> <scenario>
func WorkerMain(args []string) {
	if len(args) < 3 {
		evid.Infra("seqx worker: missing arguments")
	}
	mk, ok := registry[args[0]]
	if !ok {
		evid.Infra("seqx worker: nothing registered for %s", args[0])
	}
	spec := MakeSpec(mk, args[1], args[2])
	log.SetOutput(io.Discard) // go-pfcp reports every unknown message type through the standard logger
	in := bufio.NewReaderSize(os.Stdin, 1<<20)
	out := bufio.NewWriterSize(os.Stdout, 1<<20)
	send := func(r reply) {
		b, _ := json.Marshal(r)
		out.Write(b)
		out.WriteByte('\n')
		out.Flush()
	}
	for {
		line, err := in.ReadBytes('\n')
		if len(line) > 0 {
			var j job
			if e := json.Unmarshal(line, &j); e != nil {
				evid.Infra("seqx worker: bad job: %v", e)
			}
			serve(spec, j, send)
		}
		if err != nil {
			return
		}
	}
}

// DescSuffix marks the scenario variant in which the implementation's maps are iterated in descending key order
// (the repository's range-over-map statements are rewritten to a harness-chosen order in every flavour).
const DescSuffix = "@desc"

// MakeSpec builds the spec of a scenario name that may carry DescSuffix and selects the map order for this process.
func MakeSpec(mk func(tier, scenario string) Spec, tier, scenario string) Spec {
	base := strings.TrimSuffix(scenario, DescSuffix)
	spec := mk(tier, base)
	spec.Scenario = scenario
	SetOrder(scenario)
	return spec
}

// SetOrder selects the map iteration order the scenario name asks for.
func SetOrder(scenario string) {
	if strings.HasSuffix(scenario, DescSuffix) {
		vsched.PlainOrder.Store(1)
	} else {
		vsched.PlainOrder.Store(0)
	}
}

// ExploreOrders explores the scenario with ascending map iteration order and, if desc, once more with descending
// order (scenario name + DescSuffix); both are merged into total. The returned stats are the ascending run's,
// with DepthDone the smaller of the two.
func ExploreOrders(run *evid.Run, spec Spec, tier string, smp *evid.Samples, total *Stats, desc bool) Stats {
	if desc && tier == "thorough" {
		spec.Deadline = spec.Deadline * 6 / 10 // two explorations share the property's thorough budget
	}
	SetOrder(spec.Scenario)
	st := Explore(run, spec, tier, smp)
	Merge(run, spec.Scenario, st, total)
	if desc {
		s2 := spec
		s2.Scenario = spec.Scenario + DescSuffix
		SetOrder(s2.Scenario)
		st2 := Explore(run, s2, tier, smp)
		SetOrder(spec.Scenario)
		Merge(run, s2.Scenario, st2, total)
		if st2.DepthDone < st.DepthDone {
			st.DepthDone = st2.DepthDone
		}
	}
	return st
}

func replay(spec Spec, hist []Event) (Instance, StepResult) {
	inst := spec.New()
	var last StepResult
	for _, e := range hist {
		last = inst.Apply(e)
	}
	return inst, last
}

func serve(spec Spec, j job, send func(reply)) {
	events := 0
	if j.Confirm {
		inst, last := replay(spec, j.Hist)
		if f, ok := inst.(Finalizer); ok {
			last.Viols = append(last.Viols, f.Final()...)
		}
		inst.Close()
		send(reply{ID: j.ID, Done: true, Viol: last.Viols, Events: len(j.Hist)})
		return
	}
	inst, _ := replay(spec, j.Hist)
	events += len(j.Hist)
	evs := inst.Enabled()
	send(reply{ID: j.ID, Enabled: evs})
	for i, ev := range evs {
		cur := inst
		if i > 0 {
			cur, _ = replay(spec, j.Hist)
			events += len(j.Hist)
		}
		r := cur.Apply(ev)
		events++
		s := &succ{Ev: ev, Key: hashStr(cur.Key()), Obs: hashStr(r.Obs), Viol: r.Viols, Tags: r.Tags}
		if f, ok := cur.(Finalizer); ok {
			s.Viol = append(s.Viol, f.Final()...)
		}
		cur.Close()
		nondet := ""
		if j.Check && i == 0 {
			again, _ := replay(spec, j.Hist)
			r2 := again.Apply(ev)
			k2 := hashStr(again.Key())
			again.Close()
			events += len(j.Hist) + 1
			if k2 != s.Key || hashStr(r2.Obs) != s.Obs {
				nondet = fmt.Sprintf("history [%s] + %s executed twice gave different observations:\n--- first\n%s\n--- second\n%s", HistString(j.Hist), ev, r.Obs, r2.Obs)
			}
		}
		send(reply{ID: j.ID, Succ: s, Nondet: nondet})
	}
	if len(evs) == 0 {
		inst.Close()
	}
	send(reply{ID: j.ID, Done: true, Events: events})
}

// ---- coordinator -------------------------------------------------------------------------------

type worker struct {
	cmd   *exec.Cmd
	in    io.WriteCloser
	out   *bufio.Reader
	errb  *tailBuf
	alive bool
}

type tailBuf struct {
	crash []byte
	mu sync.Mutex
	b  []byte
}

func (t *tailBuf) Write(p []byte) (int, error) {
	t.mu.Lock()
	if t.crash == nil {
		// keep the beginning of the runtime's crash report: the tail alone may consist of goroutine dumps
		for _, mark := range []string{"panic:", "fatal error:", "unexpected signal", "SIGSEGV", "SIGABRT"} {
			if i := strings.Index(string(p), mark); i >= 0 {
				t.crash = append([]byte{}, p[i:]...)
				break
			}
		}
	} else if len(t.crash) < 6000 {
		t.crash = append(t.crash, p...)
	}
	t.b = append(t.b, p...)
	if len(t.b) > 16384 {
		t.b = t.b[len(t.b)-16384:]
	}
	t.mu.Unlock()
	return len(p), nil
}

func (t *tailBuf) String() string {
	t.mu.Lock()
	defer t.mu.Unlock()
	if t.crash != nil {
		c := t.crash
		if len(c) > 6000 {
			c = c[:6000]
		}
		return string(c) + "\n[...]\n" + string(t.b)
	}
	return string(t.b)
}

func startWorker(spec Spec, tier string) *worker {
	exe := "/proc/self/exe" // the check script's private copy of the binary is unlinked at start
	cmd := exec.Command(exe, "seqx", spec.Prop, tier, spec.Scenario)
	cmd.Env = append(os.Environ(), "GOMAXPROCS=2")
	in, _ := cmd.StdinPipe()
	outp, _ := cmd.StdoutPipe()
	tb := &tailBuf{}
	cmd.Stderr = tb
	if os.Getenv("VERIF_DEBUG") != "" {
		cmd.Stderr = io.MultiWriter(tb, os.Stderr)
	}
	if err := cmd.Start(); err != nil {
		evid.Infra("cannot start worker: %v", err)
	}
	return &worker{cmd: cmd, in: in, out: bufio.NewReaderSize(outp, 1<<20), errb: tb, alive: true}
}

func (w *worker) stop() {
	if w.alive {
		w.in.Close()
		done := make(chan struct{})
		go func() { w.cmd.Wait(); close(done) }()
		select {
		case <-done:
		case <-time.After(5 * time.Second):
			w.cmd.Process.Kill()
		}
		w.alive = false
	}
}

type jobResult struct {
	hist    []Event
	enabled []Event
	succ    []succ
	crashed bool
	crashAt int
	stderr  string
	nondet  string
	events  int
	viol    []Viol // confirm jobs
}

// runJob sends one job and reads its replies; on worker death reports the crash position.
func (w *worker) runJob(j job) jobResult {
	res := jobResult{hist: j.Hist}
	b, _ := json.Marshal(j)
	if _, err := w.in.Write(append(b, '\n')); err != nil {
		res.crashed = true
		res.stderr = w.errb.String()
		w.alive = false
		return res
	}
	for {
		line, err := w.out.ReadBytes('\n')
		if err != nil {
			res.crashed = true
			res.crashAt = len(res.succ)
			w.cmd.Wait()
			w.alive = false
			res.stderr = w.errb.String()
			if ps := w.cmd.ProcessState; ps != nil {
				res.stderr = "[worker " + ps.String() + "]\n" + res.stderr
			}
			return res
		}
		var r reply
		if e := json.Unmarshal(line, &r); e != nil {
			// the worker printed something else (e.g. an INFRA line): pass it on
			if strings.HasPrefix(string(line), "INFRA") {
				evid.Infra("worker: %s", strings.TrimSpace(string(line[5:])))
			}
			continue
		}
		if r.Enabled != nil {
			res.enabled = r.Enabled
		}
		if r.Succ != nil {
			res.succ = append(res.succ, *r.Succ)
		}
		if r.Nondet != "" {
			res.nondet = r.Nondet
		}
		if r.Done {
			res.events = r.Events
			res.viol = r.Viol
			return res
		}
	}
}

type Stats struct {
	States, Transitions, Events int64
	DepthDone                   int
	Exhaustive                  bool
	Outcomes                    int
	Tags                        map[string]int64
	Crashes                     int
	Unconfirmed, Divergences    int
}

// Explore runs the breadth-first search and reports violations through run. It returns coverage numbers;
// the caller merges them into the evidence (a property may explore several scenarios).
func Explore(run *evid.Run, spec Spec, tier string, smp *evid.Samples) Stats {
	nw := runtime.NumCPU()
	if v := os.Getenv("VERIF_WORKERS"); v != "" {
		fmt.Sscan(v, &nw)
	}
	if nw < 1 {
		nw = 1
	}
	if spec.MaxViol == 0 {
		spec.MaxViol = 3
	}
	if v := os.Getenv("VERIF_DEPTH"); v != "" { // experiments only
		fmt.Sscan(v, &spec.MaxDepth)
	}
	start := time.Now()
	st := Stats{Tags: map[string]int64{}, Exhaustive: true}
	seen := map[string]struct{}{}
	outcomes := map[string]struct{}{}
	// the initial state
	init := spec.New()
	seen[hashStr(init.Key())] = struct{}{}
	init.Close()
	frontier := [][]Event{{}}
	newViol := 0
	confirmW := startWorker(spec, tier)
	defer func() { confirmW.stop() }()

	// confirm re-executes a violating history from its replay: the same signature must come back.
	// Executions are deterministic (the repository's range-over-map statements iterate in the order the
	// scenario selects), so the signature is expected every time; the 5 (+25) re-executions guard against
	// any source of nondeterminism that is still not owned: a violation is reported if it reproduces at
	// least once, with the ratio in the report; if it never reproduces it is counted as an unconfirmed
	// observation in the evidence and not reported.
	confirm := func(h []Event, v Viol) (bool, string) {
		hits, runs := 0, 0
		for round := 0; round < 2 && hits == 0; round++ {
			n := 5
			if round == 1 {
				n = 25
			}
			for i := 0; i < n; i++ {
				if !confirmW.alive {
					confirmW = startWorker(spec, tier)
				}
				r := confirmW.runJob(job{ID: -1, Hist: h, Confirm: true})
				runs++
				if r.crashed {
					if strings.HasPrefix(v.Sig, spec.Prop+":crash") {
						hits++
					}
					continue
				}
				for _, x := range r.viol {
					if x.Sig == v.Sig {
						hits++
						break
					}
				}
			}
		}
		return hits > 0, fmt.Sprintf("reproduced %d/%d re-executions", hits, runs)
	}

	for depth := 0; depth < spec.MaxDepth && len(frontier) > 0; depth++ {
		type item struct {
			idx int
			res jobResult
		}
		jobs := make(chan int, len(frontier))
		results := make([]jobResult, len(frontier))
		doneFlags := make([]bool, len(frontier))
		for i := range frontier {
			jobs <- i
		}
		close(jobs)
		var wg sync.WaitGroup
		var deadlineHit bool
		var mu sync.Mutex
		n := nw
		if n > len(frontier) {
			n = len(frontier)
		}
		for k := 0; k < n; k++ {
			wg.Add(1)
			go func() {
				defer wg.Done()
				w := startWorker(spec, tier)
				defer func() { w.stop() }()
				for i := range jobs {
					if spec.Deadline > 0 && time.Since(start) > spec.Deadline {
						mu.Lock()
						deadlineHit = true
						mu.Unlock()
						continue
					}
					if !w.alive {
						w = startWorker(spec, tier)
					}
					r := w.runJob(job{ID: i, Hist: frontier[i], Check: i%97 == 0})
					if r.crashed {
						r = retryCrashed(spec, tier, &w, job{ID: i, Hist: frontier[i]}, r)
					}
					results[i] = r
					doneFlags[i] = true
				}
			}()
		}
		wg.Wait()
		var next [][]Event
		complete := true
		for i := range frontier {
			if !doneFlags[i] {
				complete = false
				continue
			}
			r := results[i]
			st.Events += int64(r.events)
			if r.nondet != "" {
				st.Divergences++
				if st.Divergences == 1 {
					fmt.Printf("WARNING replay divergence: %s\n", evid.Short(r.nondet, 1500))
				}
			}
			for _, s := range r.succ {
				st.Transitions++
				outcomes[s.Obs] = struct{}{}
				for _, t := range s.Tags {
					st.Tags[t]++
				}
				h := append(append([]Event{}, frontier[i]...), s.Ev)
				hFull := h
				suspect := false
				for _, v := range s.Viol {
					h := hFull
					if v.Ev != nil {
						h = append(append([]Event{}, frontier[i]...), *v.Ev)
					}
					known := run.IsKnownSig(v.Sig)
					if !known {
						suspect = true
					}
					if known || newViol < spec.MaxViol {
						note := ""
						if !known {
							ok, how := confirm(h, v)
							if !ok {
								st.Unconfirmed++
								fmt.Printf("WARNING unconfirmed observation %s on [%s]: %s -- %s\n", v.Sig, HistString(h), how, evid.Short(v.What, 400))
								continue
							}
							note = " (" + how + ")"
							newViol++
						}
						run.Report(evid.Violation{Signature: v.Sig, Engine: "E1-seqx", Scenario: spec.Scenario, What: v.What + note + " -- after history: " + HistString(h),
							Replay: map[string]interface{}{"scenario": spec.Scenario, "tier": tier, "history": h}})
					}
				}
				if _, ok := seen[s.Key]; ok {
					continue
				}
				seen[s.Key] = struct{}{}
				if smp != nil {
					smp.Offer(HistString(h))
				}
				if !suspect {
					next = append(next, h)
				}
			}
			if r.crashed {
				st.Crashes++
				var h []Event
				what := ""
				if r.enabled != nil && r.crashAt < len(r.enabled) {
					h = append(append([]Event{}, frontier[i]...), r.enabled[r.crashAt])
					what = "the process running the UPF died (unrecovered panic or fatal runtime error) while executing the last event"
				} else {
					h = frontier[i]
					what = "the process running the UPF died while replaying the history"
				}
				sig := spec.Prop + ":crash:" + crashSite(r.stderr)
				if run.IsKnownSig(sig) || newViol < spec.MaxViol {
					if !run.IsKnownSig(sig) {
						newViol++
					}
					run.Report(evid.Violation{Signature: sig, Engine: "E1-seqx", Scenario: spec.Scenario,
						What:   what + " -- history: " + HistString(h) + " -- stderr: " + evid.Short(r.stderr, 1200),
						Replay: map[string]interface{}{"scenario": spec.Scenario, "tier": tier, "history": h}})
				}
			}
		}
		if !complete || deadlineHit {
			st.Exhaustive = false
			break
		}
		st.DepthDone = depth + 1
		frontier = next
		if newViol >= spec.MaxViol {
			st.Exhaustive = false
			break
		}
		if spec.Deadline > 0 && time.Since(start) > spec.Deadline && depth+1 < spec.MaxDepth && len(frontier) > 0 {
			st.Exhaustive = false
			break
		}
	}
	st.States = int64(len(seen))
	st.Outcomes = len(outcomes)
	return st
}

// Pre holds what went wrong while an instance was brought into its start state (the unrecorded prefix of a
// scenario). It is a verdict about the implementation, not an infrastructure error: the first Apply hands it out
// as violations of that step, so that it is confirmed, reported and replayable like any other.
type Pre struct{ v []Viol }

func (p *Pre) Add(vs ...Viol) { p.v = append(p.v, vs...) }
func (p *Pre) Fail(prop, what string) {
	p.v = append(p.v, Viol{Sig: prop + ":start-state", What: "while reaching the start state of the scenario: " + what})
}
func (p *Pre) Take() []Viol { v := p.v; p.v = nil; return v }

// TransientCrashes counts worker deaths that did not happen again when the same job was re-run in a fresh
// process (e.g. a fault inside the Go runtime's own goroutine traceback, which the quiescence test calls very
// often): environment noise, listed in the evidence, never a verdict about the UPF.
var TransientCrashes atomic.Int64
var transientSample atomic.Value

// retryCrashed: a process death must happen again on the same history to count.
func retryCrashed(spec Spec, tier string, w **worker, j job, first jobResult) jobResult {
	for attempt := 0; attempt < 2; attempt++ {
		*w = startWorker(spec, tier)
		r := (*w).runJob(j)
		if !r.crashed {
			TransientCrashes.Add(1)
			transientSample.Store(evid.Short(first.stderr, 600))
			fmt.Printf("WARNING transient worker crash (not reproduced on re-execution): %s\n", evid.Short(crashSite(first.stderr), 200))
			return r
		}
		first = r
	}
	return first
}

// crashSite extracts a stable identification of a crash from the worker's stderr: the panic message
// and the first go-upf frame.
func crashSite(stderr string) string {
	msg, frame := "", ""
	for _, l := range strings.Split(stderr, "\n") {
		if msg == "" && (strings.HasPrefix(l, "panic:") || strings.HasPrefix(l, "fatal error:")) {
			msg = strings.TrimSpace(l)
		}
		if msg != "" && frame == "" && strings.Contains(l, "github.com/free5gc/go-upf/") && !strings.Contains(l, "/internal/verif/") && strings.Contains(l, "(") && !strings.HasPrefix(l, "\t") {
			frame = strings.TrimSpace(l)
			if i := strings.Index(frame, "("); i > 0 {
				frame = frame[:i]
			}
		}
	}
	if len(msg) > 80 {
		msg = msg[:80]
	}
	if msg == "" && strings.Contains(stderr, "runtime.(*unwinder).next") {
		msg = "SIGSEGV inside the Go runtime's goroutine traceback (runtime.Stack)"
	}
	return msg + "@" + frame
}

// Merge adds the coverage numbers of one scenario to the evidence.
func Merge(run *evid.Run, name string, st Stats, total *Stats) {
	total.States += st.States
	total.Transitions += st.Transitions
	total.Events += st.Events
	total.Outcomes += st.Outcomes
	total.Crashes += st.Crashes
	total.Unconfirmed += st.Unconfirmed
	total.Divergences += st.Divergences
	if total.Tags == nil {
		total.Tags = map[string]int64{}
		total.Exhaustive = true
	}
	for k, v := range st.Tags {
		total.Tags[k] += v
	}
	if !st.Exhaustive {
		total.Exhaustive = false
	}
	run.Set("scenario:"+name, map[string]interface{}{
		"states": st.States, "transitions": st.Transitions, "events_executed": st.Events, "depth_completed": st.DepthDone,
		"exhaustive_to_depth": st.Exhaustive, "distinct_outcomes": st.Outcomes, "tags": sortedTags(st.Tags),
	})
}

func sortedTags(m map[string]int64) []string {
	var out []string
	for k, v := range m {
		out = append(out, fmt.Sprintf("%s=%d", k, v))
	}
	sort.Strings(out)
	return out
}

// Finish writes the model-checking coverage keys.
func Finish(run *evid.Run, total Stats, smp *evid.Samples, bound string) {
	run.Set("states", total.States)
	run.Set("transitions", total.Transitions)
	run.Set("traces_validated_against_impl", total.Transitions)
	run.Set("events_executed_on_impl", total.Events)
	run.Set("distinct_outcomes", total.Outcomes)
	run.Set("exhaustive", total.Exhaustive)
	run.Set("bound", bound)
	run.Set("samples", smp.List())
	run.Set("guards", sortedTags(total.Tags))
	run.Set("replay_divergences", total.Divergences)
	run.Set("unconfirmed_observations", total.Unconfirmed)
	if n := TransientCrashes.Load(); n > 0 {
		smpl, _ := transientSample.Load().(string)
		run.Set("transient_worker_crashes", map[string]interface{}{"count": n, "note": "worker process deaths that did not happen again when the same history was re-executed in a fresh process; the job's result is the re-execution's", "sample": smpl})
	}
	run.Set("explanation", "every transition is an execution of the real implementation: a fresh PfcpServer is started, the history replayed through its event loop and the event applied; there is no separate model whose traces need validating, so traces_validated_against_impl = transitions")
	if total.States < 2 || total.Outcomes < 2 {
		evid.Infra("vacuous exploration: states=%d outcomes=%d", total.States, total.Outcomes)
	}
}

// ReplayMain re-executes a stored violation without the explorer: verif-worker replay <path> [times]
func ReplayMain(path string, times int) int {
	b, err := os.ReadFile(path)
	if err != nil {
		evid.Infra("%v", err)
	}
	var v struct {
		Property  string `json:"property"`
		Signature string `json:"signature"`
		Engine    string `json:"engine"`
		Scenario  string `json:"scenario"`
		Replay    struct {
			Tier    string  `json:"tier"`
			History []Event `json:"history"`
		} `json:"replay"`
	}
	if err := json.Unmarshal(b, &v); err != nil {
		evid.Infra("bad replay file: %v", err)
	}
	mk, ok := registry[v.Property]
	if !ok || v.Engine != "E1-seqx" {
		if v.Engine == "E3-vsched" {
			// one stored schedule, re-executed by the scheduler-flavour worker without any exploration
			fl := "vs"
			if strings.HasPrefix(v.Scenario, "C17R") {
				fl = "vsr"
			}
			bin := fmt.Sprintf("%s/worker-%s.run.%s", os.Getenv("VERIF_BUILD"), fl, os.Getenv("VERIF_RUNID"))
			if _, err := os.Stat(bin); err != nil {
				bin = os.Getenv("VERIF_BUILD") + "/worker-" + fl
			}
			cmd := exec.Command(bin, "e3replay", path)
			cmd.Stdout, cmd.Stderr, cmd.Env = os.Stdout, os.Stderr, os.Environ()
			if err := cmd.Run(); err != nil {
				if ee, ok := err.(*exec.ExitError); ok {
					return ee.ExitCode()
				}
				return 2
			}
			return 0
		}
		fmt.Printf("replay of %s artefacts (engine %s) is done by re-running the check: the stored shape/schedule is in the file\n", v.Property, v.Engine)
		return 2
	}
	tier := v.Replay.Tier
	if tier == "" {
		tier = "quick"
	}
	spec := MakeSpec(mk, tier, v.Scenario)
	hits := 0
	for i := 0; i < times; i++ {
		inst := spec.New()
		var last StepResult
		for k, e := range v.Replay.History {
			last = inst.Apply(e)
			if i == 0 {
				fmt.Printf("  %2d. %-40s %s\n", k+1, e.String(), evid.Short(last.Obs, 300))
			}
		}
		if f, ok := inst.(Finalizer); ok {
			last.Viols = append(last.Viols, f.Final()...)
		}
		inst.Close()
		for _, x := range last.Viols {
			if i == 0 {
				fmt.Printf("  => %s: %s\n", x.Sig, evid.Short(x.What, 600))
			}
			if x.Sig == v.Signature {
				hits++
				break
			}
		}
	}
	fmt.Printf("replayed %d time(s): signature %s reproduced %d time(s)\n", times, v.Signature, hits)
	if hits > 0 {
		fmt.Printf("VIOLATION property=%s replay=%s\n", v.Property, path)
		return 1
	}
	return 0
}

// ExploreTargets expands a fixed list of histories (each reached state and its one-step successors) instead
// of searching breadth-first: used where one expansion is itself a large exhaustive sweep.
func ExploreTargets(run *evid.Run, spec Spec, tier string, targets [][]Event, smp *evid.Samples) Stats {
	nw := runtime.NumCPU()
	if v := os.Getenv("VERIF_WORKERS"); v != "" {
		fmt.Sscan(v, &nw)
	}
	if nw > len(targets) {
		nw = len(targets)
	}
	st := Stats{Tags: map[string]int64{}, Exhaustive: true}
	seen := map[string]struct{}{}
	outcomes := map[string]struct{}{}
	results := make([]jobResult, len(targets))
	var bad, skipped atomic.Int64
	jobs := make(chan int, len(targets))
	for i := range targets {
		jobs <- i
	}
	close(jobs)
	var wg sync.WaitGroup
	for k := 0; k < nw; k++ {
		wg.Add(1)
		go func() {
			defer wg.Done()
			w := startWorker(spec, tier)
			defer func() { w.stop() }()
			for i := range jobs {
				if bad.Load() >= 3 {
					// three targets have already produced violations: the tree is broken, the remaining targets
					// (each costly on a tree that keeps crashing) are not run
					skipped.Add(1)
					continue
				}
				if !w.alive {
					w = startWorker(spec, tier)
				}
				t0 := time.Now()
				results[i] = w.runJob(job{ID: i, Hist: targets[i]})
				if os.Getenv("VERIF_TIMING") != "" {
					fmt.Fprintf(os.Stderr, "TIMING %s target %d [%s]: %v\n", spec.Scenario, i, HistString(targets[i]), time.Since(t0))
				}
				if results[i].crashed {
					results[i] = retryCrashed(spec, tier, &w, job{ID: i, Hist: targets[i]}, results[i])
				}
				hit := results[i].crashed
				for _, sc := range results[i].succ {
					if len(sc.Viol) > 0 {
						hit = true
					}
				}
				if hit {
					bad.Add(1)
				}
			}
		}()
	}
	wg.Wait()
	if n := skipped.Load(); n > 0 {
		st.Exhaustive = false
		fmt.Printf("NOTE %d of %d targets not run after three targets had produced violations\n", n, len(targets))
	}
	confirmW := startWorker(spec, tier)
	defer func() { confirmW.stop() }()
	for i, r := range results {
		st.Events += int64(r.events)
		seen[fmt.Sprintf("target-%d", i)] = struct{}{}
		if smp != nil {
			smp.Offer(HistString(targets[i]))
		}
		for _, s := range r.succ {
			st.Transitions++
			outcomes[s.Obs] = struct{}{}
			seen[s.Key] = struct{}{}
			for _, t := range s.Tags {
				st.Tags[t]++
			}
			for _, v := range s.Viol {
				h := append(append([]Event{}, targets[i]...), s.Ev)
				if v.Ev != nil {
					h = append(append([]Event{}, targets[i]...), *v.Ev)
				}
				note := ""
				if !run.IsKnownSig(v.Sig) {
					hits := 0
					for k := 0; k < 5 && hits == 0; k++ { // a target's step may be a whole sweep: stop at the first reproduction
						if !confirmW.alive {
							confirmW = startWorker(spec, tier)
						}
						cr := confirmW.runJob(job{ID: -1, Hist: h, Confirm: true})
						for _, x := range cr.viol {
							if x.Sig == v.Sig {
								hits++
								break
							}
						}
						if cr.crashed {
							hits++
						}
					}
					if hits == 0 {
						st.Unconfirmed++
						fmt.Printf("WARNING unconfirmed observation %s on [%s]\n", v.Sig, HistString(h))
						if st.Unconfirmed <= 3 {
							b, _ := json.MarshalIndent(map[string]interface{}{"property": spec.Prop, "signature": v.Sig, "engine": "E1-seqx", "scenario": spec.Scenario,
								"what": v.What, "replay": map[string]interface{}{"tier": tier, "history": h}}, "", " ")
							_ = os.MkdirAll(evid.Dir()+"/replays/"+spec.Prop, 0o755)
							_ = os.WriteFile(fmt.Sprintf("%s/replays/%s/unconfirmed-%d.json", evid.Dir(), spec.Prop, st.Unconfirmed), b, 0o644)
						}
						continue
					}
					note = fmt.Sprintf(" (reproduced %d/5 re-executions)", hits)
				}
				run.Report(evid.Violation{Signature: v.Sig, Engine: "E1-seqx", Scenario: spec.Scenario, What: v.What + note + " -- after history: " + HistString(h),
					Replay: map[string]interface{}{"scenario": spec.Scenario, "tier": tier, "history": h}})
			}
		}
		if r.crashed {
			st.Crashes++
			h := targets[i]
			if r.enabled != nil && r.crashAt < len(r.enabled) {
				h = append(append([]Event{}, targets[i]...), r.enabled[r.crashAt])
			}
			run.Report(evid.Violation{Signature: spec.Prop + ":crash:" + crashSite(r.stderr), Engine: "E1-seqx", Scenario: spec.Scenario,
				What:   "the process running the UPF died (unrecovered panic or fatal runtime error) -- history: " + HistString(h) + " -- stderr: " + evid.Short(r.stderr, 1500),
				Replay: map[string]interface{}{"scenario": spec.Scenario, "tier": tier, "history": h}})
		}
	}
	st.States = int64(len(seen))
	st.Outcomes = len(outcomes)
	st.DepthDone = 1
	return st
}

// DivergeMain (debugging aid): executes the history of a file {property, scenario, replay:{tier, history}} n times on
// fresh instances and prints how the state keys / observations of the last step differ between executions.
func DivergeMain(path string, times int) int {
	b, err := os.ReadFile(path)
	if err != nil {
		evid.Infra("%v", err)
	}
	var v struct {
		Property string `json:"property"`
		Scenario string `json:"scenario"`
		Replay   struct {
			Tier    string  `json:"tier"`
			History []Event `json:"history"`
		} `json:"replay"`
	}
	if err := json.Unmarshal(b, &v); err != nil {
		evid.Infra("bad file: %v", err)
	}
	mk, ok := registry[v.Property]
	if !ok {
		evid.Infra("no spec for %s", v.Property)
	}
	spec := MakeSpec(mk, v.Replay.Tier, v.Scenario)
	seen := map[string]int{}
	var first string
	for i := 0; i < times; i++ {
		inst := spec.New()
		var last StepResult
		for _, e := range v.Replay.History {
			last = inst.Apply(e)
		}
		all := "OBS " + last.Obs + "\nKEY " + inst.Key()
		inst.Close()
		seen[all]++
		if first == "" {
			first = all
		} else if all != first && seen[all] == 1 {
			fa, fb := strings.Split(first, "\n"), strings.Split(all, "\n")
			for k := 0; k < len(fa) || k < len(fb); k++ {
				var x, y string
				if k < len(fa) {
					x = fa[k]
				}
				if k < len(fb) {
					y = fb[k]
				}
				if x != y {
					fmt.Printf("line %d:\n  A: %s\n  B: %s\n", k, x, y)
				}
			}
		}
	}
	fmt.Printf("%d executions, %d distinct (obs,key)\n", times, len(seen))
	return 0
}
