//go:build verif

// Package netx: loopback address blocks (one per worker process) and non-blocking UDP reads.
package netx

import (
	"fmt"
	"net"
	"os"
	"strings"
	"syscall"
	"time"

	"github.com/free5gc/go-upf/internal/verif/evid"
)

// Block is a private 127.<B>.<C>.0/24 of this process, held by a lock socket for the process lifetime.
type Block struct {
	B, C int
	lock *net.UDPConn
}

var blk *Block

// Get reserves (once per process) a loopback block nobody else in this sandbox is using.
func Get() *Block {
	if blk != nil {
		return blk
	}
	start := os.Getpid()
	for i := 0; i < 60000; i++ {
		n := (start + i) % 60000
		b, c := 10+n/250, 1+n%250
		if b > 250 {
			continue
		}
		la := &net.UDPAddr{IP: net.IPv4(127, byte(b), byte(c), 250), Port: 8805}
		conn, err := net.ListenUDP("udp4", la)
		if err != nil {
			continue
		}
		blk = &Block{B: b, C: c, lock: conn}
		return blk
	}
	evid.Infra("no free loopback address block")
	return nil
}

// IP returns 127.B.C.<host>.
func (b *Block) IP(host int) net.IP { return net.IPv4(127, byte(b.B), byte(b.C), byte(host)).To4() }

func (b *Block) Addr(host, port int) string { return fmt.Sprintf("%s:%d", b.IP(host), port) }

// Sock is a UDP socket read without blocking.
type Sock struct {
	Conn *net.UDPConn
	raw  syscall.RawConn
	buf  []byte
}

func Listen(ip net.IP, port int) *Sock {
	var c *net.UDPConn
	var err error
	// another process of this sandbox may transiently hold the wildcard address of the port (e.g. a test
	// of the repository binding 0.0.0.0:2152): wait for it rather than failing at once
	for try := 0; try < 90; try++ {
		c, err = net.ListenUDP("udp4", &net.UDPAddr{IP: ip, Port: port})
		if err == nil {
			break
		}
		time.Sleep(time.Second)
	}
	if err != nil {
		evid.Infra("bind %v:%d: %v", ip, port, err)
	}
	_ = c.SetReadBuffer(8 << 20)
	raw, err := c.SyscallConn()
	if err != nil {
		evid.Infra("rawconn: %v", err)
	}
	return &Sock{Conn: c, raw: raw, buf: make([]byte, 65536)}
}

func (s *Sock) Addr() *net.UDPAddr { return s.Conn.LocalAddr().(*net.UDPAddr) }

// Drain returns every datagram currently queued on the socket (loopback delivery completes inside the
// sender's sendto, so after the sender is quiescent this is everything it sent).
func (s *Sock) Drain() [][]byte {
	var out [][]byte
	for {
		var n int
		var rerr error
		err := s.raw.Read(func(fd uintptr) bool {
			n, _, rerr = syscall.Recvfrom(int(fd), s.buf, syscall.MSG_DONTWAIT)
			return true
		})
		if err != nil || rerr != nil || n < 0 {
			return out
		}
		b := make([]byte, n)
		copy(b, s.buf[:n])
		out = append(out, b)
	}
}

// DrainFrom is Drain with the sender address of each datagram.
func (s *Sock) DrainFrom() (out [][]byte, from []string) {
	for {
		var n int
		var sa syscall.Sockaddr
		var rerr error
		err := s.raw.Read(func(fd uintptr) bool {
			n, sa, rerr = syscall.Recvfrom(int(fd), s.buf, syscall.MSG_DONTWAIT)
			return true
		})
		if err != nil || rerr != nil || n < 0 {
			return
		}
		b := make([]byte, n)
		copy(b, s.buf[:n])
		out = append(out, b)
		f := ""
		if a, ok := sa.(*syscall.SockaddrInet4); ok {
			f = fmt.Sprintf("%d.%d.%d.%d:%d", a.Addr[0], a.Addr[1], a.Addr[2], a.Addr[3], a.Port)
		}
		from = append(from, f)
	}
}

func (s *Sock) Close() { _ = s.Conn.Close() }

// RxQueue returns the octets accounted to the receive queue of the UDP socket bound to a (from /proc/net/udp;
// -1 if the socket is not listed). It grows with every datagram delivered and not yet read.
func RxQueue(a *net.UDPAddr) int {
	if a == nil {
		return -1
	}
	b, err := os.ReadFile("/proc/net/udp")
	if err != nil {
		return -1
	}
	ip := a.IP.To4()
	if ip == nil {
		return -1
	}
	want := fmt.Sprintf("%02X%02X%02X%02X:%04X", ip[3], ip[2], ip[1], ip[0], a.Port)
	for _, l := range strings.Split(string(b), "\n") {
		f := strings.Fields(l)
		if len(f) < 5 || f[1] != want {
			continue
		}
		q := strings.Split(f[4], ":")
		if len(q) != 2 {
			return -1
		}
		var n int64
		if _, err := fmt.Sscanf(q[1], "%X", &n); err != nil {
			return -1
		}
		return int(n)
	}
	return -1
}
