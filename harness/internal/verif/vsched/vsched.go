//go:build verif

// Package vsched (engine E3): a cooperative scheduler for the real goroutines of the implementation.
//
// The rewriter (tools/rewrite) redirects every channel operation, goroutine start, timer and ticker of
// internal/pfcp and internal/forwarder/perio to this package. Exactly one managed thread runs at a time;
// every operation is a scheduling point at which the explorer chooses which enabled transition happens next.
// Channel contents are virtual (keyed by channel identity) and follow Go's semantics: blocking send/receive,
// rendezvous on unbuffered channels, FIFO, close (receive drains, then zero/false; send panics), select with
// every ready case offered as a separate alternative, default only if no case is ready. Timers and tickers
// are scheduler objects whose firing is a transition. No wall-clock time is involved anywhere.
package vsched

import (
	"crypto/sha256"
	"encoding/hex"
	"fmt"
	"os"
	"reflect"
	"runtime"
	"runtime/debug"
	"sort"
	"strings"
	"sync"
	"sync/atomic"
	"time"
)

type opKind int

const (
	opNone opKind = iota
	opSend
	opRecv
	opSelect
	opClose
	opStart  // a freshly spawned thread waiting for its first slice
	opYield  // plain scheduling point (Go, timer operations, external return)
	opChoice // data nondeterminism owned by the scheduler (iteration order of a map): n alternatives, no thread switch
)

type selCase struct {
	send bool
	ch   uintptr
	val  interface{}
	name string
}

type op struct {
	nalt  int // opChoice: number of alternatives
	kind  opKind
	ch    uintptr
	val   interface{}
	cases []selCase
	def   bool
	site  string
	// results
	done   bool
	rv     interface{}
	rok    bool
	chosen int
	panicv interface{}
}

type tstate int

const (
	tRunnable tstate = iota // has a pending op, may be enabled or blocked
	tExternal               // inside an OS call (released the token)
	tDone
)

type thread struct {
	id        int
	name      string
	state     tstate
	wake      chan struct{}
	op        *op
	service   bool // service threads may stay blocked in a receive at the end (idle), harness threads may not
	panicv    interface{}
	stack     string
	nops      int // operations completed so far (program position of straight-line threads)
	s         *Sched
	vc        vclock
	extInline bool // the bracketed OS call is being performed inline (see ExtProbe)
}

type vchan struct {
	cap     int
	buf     []interface{}
	closed  bool
	name    string
	rcvrs   map[string]bool // threads that have received from it (who could unblock a sender)
	vcs     []vclock        // clocks travelling with the buffered values
	closeVC vclock
}

type Timer struct {
	C     <-chan time.Time // nil, as for a timer made by time.AfterFunc
	after chan time.Time   // time.After: firing delivers a value on this (virtual) channel instead of calling f
	s     *Sched
	vc    vclock
	id    int
	armed bool
	f     func()
	site  string
}

type Ticker struct {
	C     chan time.Time
	s     *Sched
	id    int
	armed bool
	ticks int
}

// Alt is one enabled transition at a scheduling point.
type Alt struct {
	Thread int // thread id, or -1 for a timer/ticker transition
	Case   int // select case index (-1: not a select / default)
	Timer  int // timer id (Thread == -1), -1 otherwise
	Ticker int
	Desc   string
}

type Point struct {
	Key     string // global state key at this point ("" if state pruning is off)
	Alts    []Alt
	Running int  // thread that was running when the point was reached (-1 none)
	RunEn   bool // the running thread is among the enabled alternatives (choosing another one is a preemption)
	Chosen  int
}

// Sched is one execution under a fixed choice prefix.
type Sched struct {
	mu       sync.Mutex
	threads  []*thread
	chans    map[uintptr]*vchan
	capOv    map[uintptr]int
	names    map[uintptr]string
	timers   []*Timer
	tickers  []*Ticker
	cur      *thread
	prefix   []int
	Points   []Point
	Trace    []string
	done     chan struct{}
	finished bool
	// budgets: how many timer fires / ticker ticks the scheduler may still take
	FireBudget int
	TickBudget int
	// results
	Deadlock                      string
	Cycle                         string
	Panics                        []string
	Diverged                      string
	MaxPoints                     int
	Truncated                     bool
	extWaiters                    int
	setupT                        *thread
	KeyFn                         func() string // optional: harness-visible state for the global state key
	UseKeys                       bool
	setup                         bool // deterministic, unrecorded scheduling (scenario set-up): other threads first, then the caller
	idleAtEnd                     []string
	endArmed, endTickers, endLeft int
	harnessLeft                   []string
	race                          raceState
	crashed                       bool           // a thread panicked without recovering: the process is gone
	alive                         sync.WaitGroup // goroutines of this execution that have not returned yet
}

var cur *Sched // the execution in progress (one at a time per process)

// Cur returns the execution in progress.
func Cur() *Sched { return cur }

// mine returns the execution the calling goroutine belongs to. A thread of an execution that has already ended
// (it was released so that it can unwind; its deferred functions may still call in here) must never touch the
// execution in progress: it is terminated on the spot.
func mine() *Sched {
	v, ok := gids.Load(goid())
	if !ok {
		return cur
	}
	s := v.(*thread).s
	s.mu.Lock()
	fin := s.finished
	s.mu.Unlock()
	if fin {
		runtime.Goexit()
	}
	return s
}

func chanKey(ch interface{}) uintptr { return reflect.ValueOf(ch).Pointer() }

func (s *Sched) vc(ch interface{}) (uintptr, *vchan) {
	k := chanKey(ch)
	if k == 0 {
		return 0, nil
	}
	c, ok := s.chans[k]
	if !ok {
		defer func() {
			if c := s.chans[k]; c != nil && strings.HasPrefix(c.name, "chan#") {
				// unnamed: element type and the function that used it first (stable across unrelated edits)
				et := reflect.TypeOf(ch).Elem().String()
				n := fmt.Sprintf("chan(%s)@%s", et, site())
				dup := 0
				for _, o := range s.chans {
					if o != c && strings.HasPrefix(o.name, n) {
						dup++
					}
				}
				if dup > 0 {
					n += fmt.Sprintf("#%d", dup+1)
				}
				c.name = n
			}
		}()
		c = &vchan{cap: reflect.ValueOf(ch).Cap()}
		if ov, ok := s.capOv[k]; ok {
			c.cap = ov
		}
		c.name = s.names[k]
		if c.name == "" {
			c.name = fmt.Sprintf("chan#%d", len(s.chans)) // by order of first use: stable under replay
		}
		s.chans[k] = c
	}
	return k, c
}

// SetCap overrides the virtual capacity of a channel (scaled scenarios); Name gives it a readable name.
func SetCap(ch interface{}, n int) {
	k := chanKey(ch)
	s := mine()
	s.capOv[k] = n
	if c, ok := s.chans[k]; ok {
		c.cap = n
	}
}

func Name(ch interface{}, name string) {
	k := chanKey(ch)
	s := mine()
	s.names[k] = name
	if c, ok := s.chans[k]; ok {
		c.name = name
	}
}

// site names the calling function of the implementation (no line numbers: signatures built from it must
// survive unrelated edits).
func site() string {
	pcs := make([]uintptr, 16)
	n := runtime.Callers(2, pcs)
	fr := runtime.CallersFrames(pcs[:n])
	for {
		f, more := fr.Next()
		if f.Function != "" && !strings.Contains(f.Function, "/vsched.") && !strings.HasPrefix(f.Function, "runtime.") {
			name := f.Function
			if i := strings.LastIndex(name, "/"); i >= 0 {
				name = name[i+1:]
			}
			return name
		}
		if !more {
			break
		}
	}
	return "?"
}

// ---- enabledness ---------------------------------------------------------------------------------------

func (s *Sched) otherPending(self *thread, send bool, ch uintptr) *thread {
	for _, t := range s.threads {
		if t == self || t.state != tRunnable || t.op == nil || t.op.done {
			continue
		}
		switch t.op.kind {
		case opSend:
			if send && t.op.ch == ch {
				return t
			}
		case opRecv:
			if !send && t.op.ch == ch {
				return t
			}
		case opSelect:
			for _, c := range t.op.cases {
				if c.send == send && c.ch == ch {
					return t
				}
			}
		}
	}
	return nil
}

func (s *Sched) canSend(t *thread, ch uintptr) bool {
	if ch == 0 {
		return false // nil channel blocks forever
	}
	c := s.chans[ch]
	if c.closed {
		return true // will panic
	}
	if len(c.buf) < c.cap {
		return true
	}
	return c.cap == 0 && s.otherPending(t, false, ch) != nil
}

func (s *Sched) canRecv(t *thread, ch uintptr) bool {
	if ch == 0 {
		return false
	}
	c := s.chans[ch]
	if len(c.buf) > 0 || c.closed {
		return true
	}
	return c.cap == 0 && s.otherPending(t, true, ch) != nil
}

func (s *Sched) alts() []Alt {
	var out []Alt
	if s.cur != nil && s.cur.state == tRunnable && s.cur.op != nil && s.cur.op.kind == opChoice && !s.cur.op.done {
		for i := 0; i < s.cur.op.nalt; i++ {
			out = append(out, Alt{Thread: s.cur.id, Case: i, Timer: -1, Ticker: -1, Desc: fmt.Sprintf("%s iterates a map starting at entry %d of %d @%s", s.cur.name, i, s.cur.op.nalt, s.cur.op.site)})
		}
		return out
	}
	add := func(t *thread) {
		if t.state != tRunnable || t.op == nil {
			return
		}
		o := t.op
		if o.done {
			// its operation was completed by a partner (rendezvous) while it did not hold the token: it resumes
			if t != s.cur || true {
				out = append(out, Alt{Thread: t.id, Case: -1, Timer: -1, Ticker: -1, Desc: fmt.Sprintf("%s resumes @%s", t.name, o.site)})
			}
			return
		}
		switch o.kind {
		case opStart, opYield, opClose:
			out = append(out, Alt{Thread: t.id, Case: -1, Timer: -1, Ticker: -1, Desc: fmt.Sprintf("%s %s", t.name, kindName(o))})
		case opSend:
			if s.canSend(t, o.ch) {
				out = append(out, Alt{Thread: t.id, Case: -1, Timer: -1, Ticker: -1, Desc: fmt.Sprintf("%s send %s @%s", t.name, s.cname(o.ch), o.site)})
			}
		case opRecv:
			if s.canRecv(t, o.ch) {
				out = append(out, Alt{Thread: t.id, Case: -1, Timer: -1, Ticker: -1, Desc: fmt.Sprintf("%s recv %s @%s", t.name, s.cname(o.ch), o.site)})
			}
		case opSelect:
			n := 0
			for i, c := range o.cases {
				if (c.send && s.canSend(t, c.ch)) || (!c.send && s.canRecv(t, c.ch)) {
					n++
					d := "recv"
					if c.send {
						d = "send"
					}
					out = append(out, Alt{Thread: t.id, Case: i, Timer: -1, Ticker: -1, Desc: fmt.Sprintf("%s select %s %s @%s", t.name, d, s.cname(c.ch), o.site)})
				}
			}
			if n == 0 && o.def {
				out = append(out, Alt{Thread: t.id, Case: -1, Timer: -1, Ticker: -1, Desc: fmt.Sprintf("%s select default @%s", t.name, o.site)})
			}
		}
	}
	// canonical order: the running thread first, then ascending ids, then timers, then tickers
	if s.cur != nil {
		add(s.cur)
	}
	for _, t := range s.threads {
		if t != s.cur {
			add(t)
		}
	}
	if s.FireBudget > 0 {
		for _, tm := range s.timers {
			if tm.armed {
				out = append(out, Alt{Thread: -1, Case: -1, Timer: tm.id, Ticker: -1, Desc: fmt.Sprintf("timer#%d fires (%s)", tm.id, tm.site)})
			}
		}
	}
	if s.TickBudget > 0 {
		for _, tk := range s.tickers {
			if tk.armed {
				k, c := s.vc(tk.C)
				_ = k
				if len(c.buf) == 0 {
					out = append(out, Alt{Thread: -1, Case: -1, Timer: -1, Ticker: tk.id, Desc: fmt.Sprintf("ticker#%d ticks", tk.id)})
				}
			}
		}
	}
	return out
}

func kindName(o *op) string {
	switch o.kind {
	case opStart:
		return "starts"
	case opYield:
		return "continues @" + o.site
	case opClose:
		return "close @" + o.site
	}
	return "?"
}

func (s *Sched) cname(k uintptr) string {
	if c, ok := s.chans[k]; ok {
		return c.name
	}
	return "nil-chan"
}

// stateKey: per-thread position (operations completed so far + pending operation), virtual channel contents,
// timers, tickers, budgets and the harness-visible state. Two points with the same key are taken to have the
// same futures (the pending operations and everything they can observe are equal).
func (s *Sched) stateKey() string {
	var sb strings.Builder
	for _, t := range s.threads {
		fmt.Fprintf(&sb, "%s:%d:%d", base(t.name), t.state, t.nops)
		if t.op != nil {
			fmt.Fprintf(&sb, ":%d:%s:%s:%v", t.op.kind, s.cname(t.op.ch), t.op.site, t.op.done)
			for _, c := range t.op.cases {
				fmt.Fprintf(&sb, ",%v%s", c.send, s.cname(c.ch))
			}
		}
		sb.WriteString("|")
	}
	var ks []string
	for _, c := range s.chans {
		ks = append(ks, fmt.Sprintf("%s=%d/%v/%v", c.name, c.cap, c.closed, c.buf))
	}
	sort.Strings(ks)
	sb.WriteString(strings.Join(ks, ";"))
	for _, t := range s.timers {
		fmt.Fprintf(&sb, "T%v", t.armed)
	}
	for _, t := range s.tickers {
		fmt.Fprintf(&sb, "K%v", t.armed)
	}
	fmt.Fprintf(&sb, "f%dt%d", s.FireBudget, s.TickBudget)
	if s.cur != nil {
		fmt.Fprintf(&sb, "cur%d", s.cur.id)
	}
	if s.race.on {
		// which kinds of thread have touched which locations so far: a state reached with a new combination is
		// expanded again (a race needs both accesses in one execution)
		fmt.Fprintf(&sb, "R%x", s.race.sum)
	}
	if s.KeyFn != nil {
		s.race.quiet++
		sb.WriteString(s.KeyFn())
		s.race.quiet--
	}
	h := sha256.Sum256([]byte(sb.String()))
	return hex.EncodeToString(h[:10])
}

// ---- executing a transition --------------------------------------------------------------------------------

func (s *Sched) complete(t *thread, v interface{}, ok bool, chosen int) {
	t.op.done, t.op.rv, t.op.rok, t.op.chosen = true, v, ok, chosen
	t.nops++
}

// doSend performs a send of thread t on ch (known to be enabled).
func (s *Sched) doSend(t *thread, ch uintptr, v interface{}, chosen int) {
	c := s.chans[ch]
	if c.closed {
		t.op.done, t.op.panicv, t.op.chosen = true, "send on closed channel", chosen
		return
	}
	if c.cap == 0 {
		r := s.otherPending(t, false, ch)
		if c.rcvrs == nil {
			c.rcvrs = map[string]bool{}
		}
		c.rcvrs[base(r.name)] = true
		// an unbuffered rendezvous orders both ways
		r.vc.join(t.vc)
		t.vc.join(r.vc)
		t.tick()
		r.tick()
		// hand the value to the receiver
		if r.op.kind == opRecv {
			s.complete(r, v, true, -1)
		} else {
			for i, cs := range r.op.cases {
				if !cs.send && cs.ch == ch {
					s.complete(r, v, true, i)
					break
				}
			}
		}
		s.complete(t, nil, true, chosen)
		return
	}
	c.buf = append(c.buf, v)
	c.vcs = append(c.vcs, t.vc.copy())
	t.tick()
	s.complete(t, nil, true, chosen)
}

func (s *Sched) doRecv(t *thread, ch uintptr, chosen int) {
	c := s.chans[ch]
	if c.rcvrs == nil {
		c.rcvrs = map[string]bool{}
	}
	c.rcvrs[base(t.name)] = true
	if len(c.buf) > 0 {
		v := c.buf[0]
		c.buf = c.buf[1:]
		if len(c.vcs) > 0 {
			t.vc.join(c.vcs[0])
			c.vcs = c.vcs[1:]
		}
		s.complete(t, v, true, chosen)
		return
	}
	if c.closed {
		t.vc.join(c.closeVC)
		s.complete(t, nil, false, chosen)
		return
	}
	// rendezvous with a pending sender
	w := s.otherPending(t, true, ch)
	t.vc.join(w.vc)
	if c.cap == 0 {
		w.vc.join(t.vc)
	}
	w.tick()
	t.tick()
	var v interface{}
	if w.op.kind == opSend {
		v = w.op.val
		s.complete(w, nil, true, -1)
	} else {
		for i, cs := range w.op.cases {
			if cs.send && cs.ch == ch {
				v = cs.val
				s.complete(w, nil, true, i)
				break
			}
		}
	}
	s.complete(t, v, true, chosen)
}

func (s *Sched) apply(a Alt) *thread {
	if a.Thread < 0 {
		if a.Timer >= 0 {
			tm := s.timers[a.Timer]
			tm.armed = false
			s.FireBudget--
			if tm.after != nil {
				_, c := s.vc(tm.after)
				c.buf = append(c.buf, time.Time{})
				c.vcs = append(c.vcs, tm.vc.copy())
				return nil
			}
			nt := s.spawn(fmt.Sprintf("timer#%d-callback", tm.id), tm.f, true)
			nt.vc = tm.vc.copy()
			nt.vc.set(nt.id, 1)
			return nil
		}
		tk := s.tickers[a.Ticker]
		_, c := s.vc(tk.C)
		c.buf = append(c.buf, time.Time{})
		c.vcs = append(c.vcs, nil)
		tk.ticks++
		s.TickBudget--
		return nil
	}
	t := s.threads[a.Thread]
	o := t.op
	if o.done {
		return t // resumes with the result a partner gave it
	}
	switch o.kind {
	case opChoice:
		s.complete(t, nil, true, a.Case)
	case opStart, opYield:
		o.done = true
		t.nops++
	case opClose:
		t.nops++
		c := s.chans[o.ch]
		if c == nil || o.ch == 0 {
			o.done, o.panicv = true, "close of nil channel"
		} else if c.closed {
			o.done, o.panicv = true, "close of closed channel"
		} else {
			c.closed = true
			c.closeVC = t.vc.copy()
			t.tick()
			o.done = true
		}
	case opSend:
		s.doSend(t, o.ch, o.val, -1)
	case opRecv:
		s.doRecv(t, o.ch, -1)
	case opSelect:
		if a.Case < 0 {
			s.complete(t, nil, false, -1)
		} else if cs := o.cases[a.Case]; cs.send {
			s.doSend(t, cs.ch, cs.val, a.Case)
		} else {
			s.doRecv(t, cs.ch, a.Case)
		}
	}
	return t
}

// ---- the scheduling loop ---------------------------------------------------------------------------------

// step is called by the running thread (holding the run token) after it has published its pending op.
// It picks transitions until one makes some thread runnable-with-a-completed-op, then hands the token over.
func (s *Sched) step(self *thread) {
	for {
		if s.finished {
			return
		}
		alts := s.alts()
		if len(alts) == 0 {
			s.endOfExecution()
			return
		}
		if s.setup {
			// set-up phase: not part of the explored schedule. Let every other thread run until it blocks, then
			// the set-up thread continues.
			choice := 0
			for k, a := range alts {
				if a.Thread >= 0 && (s.setupT == nil || a.Thread != s.setupT.id) {
					choice = k
					break
				}
			}
			if alts[choice].Thread < 0 {
				// only timer/ticker transitions besides the set-up thread: skip them during set-up
				found := false
				for k, a := range alts {
					if a.Thread >= 0 {
						choice, found = k, true
						break
					}
				}
				if !found {
					s.endOfExecution()
					return
				}
			}
			t := s.apply(alts[choice])
			if t == nil {
				continue
			}
			s.cur = t
			if t == self {
				return
			}
			t.wake <- struct{}{}
			return
		}
		i := len(s.Points)
		choice := 0
		if i < len(s.prefix) {
			choice = s.prefix[i]
			if choice >= len(alts) {
				s.Diverged = fmt.Sprintf("replaying choice %d at point %d: only %d alternatives (%v)", choice, i, len(alts), alts)
				s.endOfExecution()
				return
			}
		}
		runID := -1
		runEn := false
		if s.cur != nil {
			runID = s.cur.id
			runEn = len(alts) > 0 && alts[0].Thread == runID
		}
		pt := Point{Alts: alts, Running: runID, RunEn: runEn, Chosen: choice}
		if s.UseKeys {
			pt.Key = s.stateKey()
		}
		s.Points = append(s.Points, pt)
		a := alts[choice]
		s.Trace = append(s.Trace, a.Desc)
		if s.MaxPoints > 0 && len(s.Points) > s.MaxPoints {
			s.Truncated = true
			s.endOfExecution()
			return
		}
		t := s.apply(a)
		if t == nil {
			continue // a timer/ticker transition: pick again
		}
		// t's op completed: t runs next
		s.cur = t
		if t == self {
			return
		}
		t.wake <- struct{}{}
		return
	}
}

// point publishes op as the calling thread's pending operation, lets the scheduler decide, and blocks until
// this thread's operation has completed and it has been given the token.
func (s *Sched) point(o *op) *op {
	t := s.self()
	s.mu.Lock()
	if s.finished {
		s.mu.Unlock()
		runtime.Goexit()
	}
	t.op = o
	// who listens on which channel (for the wait-for graph of a deadlock)
	mark := func(ch uintptr) {
		if c := s.chans[ch]; c != nil {
			if c.rcvrs == nil {
				c.rcvrs = map[string]bool{}
			}
			c.rcvrs[base(t.name)] = true
		}
	}
	switch o.kind {
	case opRecv:
		mark(o.ch)
	case opSelect:
		for _, c := range o.cases {
			if !c.send {
				mark(c.ch)
			}
		}
	}
	if s.cur == t {
		s.step(t)
	}
	won := s.cur == t && o.done
	s.mu.Unlock()
	for !won {
		<-t.wake
		s.mu.Lock()
		if s.finished {
			s.mu.Unlock()
			runtime.Goexit()
		}
		won = s.cur == t && o.done
		s.mu.Unlock()
	}
	if o.panicv != nil {
		panic(fmt.Sprint(o.panicv))
	}
	return o
}

var gids sync.Map // goroutine id -> *thread

func goid() int64 {
	var buf [64]byte
	n := runtime.Stack(buf[:], false)
	// "goroutine 123 ["
	var id int64
	for _, c := range buf[len("goroutine "):n] {
		if c < '0' || c > '9' {
			break
		}
		id = id*10 + int64(c-'0')
	}
	return id
}

func (s *Sched) self() *thread {
	v, ok := gids.Load(goid())
	if !ok {
		panic("vsched: operation from a goroutine the scheduler does not manage (" + site() + ")")
	}
	return v.(*thread)
}

func (s *Sched) spawn(name string, f func(), service bool) *thread {
	t := &thread{id: len(s.threads), name: fmt.Sprintf("T%d(%s)", len(s.threads), name), wake: make(chan struct{}, 1), service: service, s: s}
	t.op = &op{kind: opStart}
	if s.cur != nil {
		t.vc = s.cur.vc.copy()
		s.cur.tick()
	}
	t.vc.set(t.id, 1)
	s.threads = append(s.threads, t)
	s.alive.Add(1)
	go func() {
		defer s.alive.Done()
		gids.Store(goid(), t)
		defer gids.Delete(goid())
		<-t.wake // first slice
		s.mu.Lock()
		fin := s.finished
		s.mu.Unlock()
		if fin {
			return
		}
		defer func() {
			if p := recover(); p != nil {
				t.panicv = p
				t.stack = string(debug.Stack())
			}
			s.mu.Lock()
			if t.panicv != nil {
				s.Panics = append(s.Panics, fmt.Sprintf("%s: panic: %v\n%s", t.name, t.panicv, trimStack(t.stack)))
			}
			t.state = tDone
			t.op = nil
			if t.panicv != nil && !s.finished {
				// an unrecovered panic in any goroutine ends the process: nothing that would follow is a behaviour
				s.crashed = true
				s.endOfExecution()
				s.mu.Unlock()
				return
			}
			if s.cur == t {
				s.cur = nil
				s.step(nil)
			}
			s.mu.Unlock()
		}()
		f()
	}()
	return t
}

// Crash ends the execution as a process exit requested by the calling thread (the logger's fatal-exit path: the
// event loop recovers its own panics, logs them at fatal level and the process exits).
func Crash(msg string) {
	s := mine()
	head, rest := msg, ""
	if i := strings.Index(msg, "\n"); i >= 0 {
		head, rest = msg[:i], msg[i+1:]
	}
	s.mu.Lock()
	name := "?"
	if s.cur != nil {
		name = s.cur.name
	}
	st := trimStack(rest)
	if i := strings.Index(st, " <- "); i >= 0 && strings.Contains(st[:i], ".func") {
		st = st[i+4:] // the deferred function that recovered: the faulting frame follows
	}
	s.Panics = append(s.Panics, fmt.Sprintf("%s: fatal exit: %s\n%s", name, head, st))
	if !s.finished {
		s.crashed = true
		s.endOfExecution()
	}
	s.mu.Unlock()
	runtime.Goexit()
}

func trimStack(st string) string {
	var keep []string
	for _, l := range strings.Split(st, "\n") {
		if strings.Contains(l, "go-upf/internal/") && !strings.Contains(l, "verif/vsched") && !strings.HasPrefix(l, "\t") {
			keep = append(keep, strings.TrimSpace(l))
		}
		if len(keep) >= 8 {
			break
		}
	}
	return strings.Join(keep, " <- ")
}

func (s *Sched) endOfExecution() {
	if s.finished {
		return
	}
	s.finished = true
	// classify what is left
	var blockedSend, harness, idle []string
	for _, t := range s.threads {
		if t.state == tDone {
			continue
		}
		if t.state == tExternal {
			idle = append(idle, t.name+" in an OS call")
			continue
		}
		d := s.describe(t)
		if t.op != nil && t.op.kind == opRecv && t.op.ch == 0 {
			// a receive from a nil channel never completes: the thread is stuck, not idle
			blockedSend = append(blockedSend, fmt.Sprintf("%s blocked for ever receiving from a nil channel at %s", base(t.name), t.op.site))
			continue
		}
		if t.op != nil && (t.op.kind == opSend || (t.op.kind == opSelect && hasSend(t.op))) {
			blockedSend = append(blockedSend, d)
		} else if !t.service {
			harness = append(harness, d)
		} else {
			idle = append(idle, d)
		}
	}
	s.idleAtEnd = idle
	s.harnessLeft = harness
	// counted here, before the left-over threads are released to unwind (their deferred functions stop tickers)
	for _, t := range s.timers {
		if t.armed {
			s.endArmed++
		}
	}
	for _, t := range s.tickers {
		if t.armed {
			s.endTickers++
		}
	}
	for _, t := range s.threads {
		if t.state != tDone {
			s.endLeft++
		}
	}
	s.Cycle = s.waitCycle()
	if s.crashed {
		s.Cycle = ""
	} else if len(blockedSend) > 0 && s.Diverged == "" && !s.Truncated {
		all := append(append([]string{}, blockedSend...), harness...)
		for _, t := range s.threads {
			if t.state == tRunnable && t.op != nil && t.service && t.op.kind != opSend && !(t.op.kind == opSelect && hasSend(t.op)) && !(t.op.kind == opRecv && t.op.ch == 0) {
				all = append(all, s.describe(t))
			}
		}
		sort.Strings(all)
		s.Deadlock = strings.Join(all, " || ")
	} else if len(harness) > 0 && s.Diverged == "" && !s.Truncated {
		sort.Strings(harness)
		s.Deadlock = "scenario threads blocked forever: " + strings.Join(harness, " || ")
	}
	for _, t := range s.threads {
		if t.state != tDone {
			select {
			case t.wake <- struct{}{}:
			default:
			}
		}
	}
	close(s.done)
}

// waitCycle: the wait-for cycle among threads blocked in a send (T -[chan @site]-> every thread that has
// received from that channel), rendered from its smallest member; "" if there is none.
func (s *Sched) waitCycle() string {
	type edge struct{ to, label string }
	g := map[string][]edge{}
	for _, t := range s.threads {
		if t.state != tRunnable || t.op == nil || t.op.done || t.op.kind != opSend {
			continue
		}
		c := s.chans[t.op.ch]
		if c == nil {
			continue
		}
		lbl := stripNum(c.name) + " @" + t.op.site
		for r := range c.rcvrs {
			g[base(t.name)] = append(g[base(t.name)], edge{r, lbl})
		}
		if len(c.rcvrs) == 0 {
			g[base(t.name)] = append(g[base(t.name)], edge{"(nobody)", lbl})
		}
	}
	var names []string
	for n := range g {
		names = append(names, n)
	}
	sort.Strings(names)
	for _, start := range names {
		// depth-first search for a path back to start
		var path []string
		seen := map[string]bool{}
		var dfs func(n string) bool
		dfs = func(n string) bool {
			for _, e := range g[n] {
				if e.to == start {
					path = append(path, fmt.Sprintf("%s -[%s]-> %s", n, e.label, e.to))
					return true
				}
				if seen[e.to] || g[e.to] == nil {
					continue
				}
				seen[e.to] = true
				path = append(path, fmt.Sprintf("%s -[%s]->", n, e.label))
				if dfs(e.to) {
					return true
				}
				path = path[:len(path)-1]
			}
			return false
		}
		if dfs(start) {
			return strings.Join(path, " ")
		}
	}
	// no cycle: senders nobody will ever serve
	var l []string
	for _, n := range names {
		for _, e := range g[n] {
			l = append(l, fmt.Sprintf("%s -[%s]-> %s", n, e.label, e.to))
		}
	}
	sort.Strings(l)
	return strings.Join(l, " ; ")
}

func stripNum(n string) string {
	if i := strings.LastIndex(n, "#"); i > 0 {
		return n[:i]
	}
	return n
}

func hasSend(o *op) bool {
	for _, c := range o.cases {
		if c.send {
			return true
		}
	}
	return false
}

func (s *Sched) describe(t *thread) string {
	if t.op == nil {
		return t.name
	}
	switch t.op.kind {
	case opSend:
		c := s.chans[t.op.ch]
		return fmt.Sprintf("%s blocked sending on %s (%d/%d) at %s", base(t.name), s.cname(t.op.ch), len(c.buf), c.cap, t.op.site)
	case opRecv:
		return fmt.Sprintf("%s waiting to receive from %s at %s", base(t.name), s.cname(t.op.ch), t.op.site)
	case opSelect:
		var cs []string
		for _, c := range t.op.cases {
			d := "<-"
			if c.send {
				d = "->"
			}
			cs = append(cs, d+s.cname(c.ch))
		}
		return fmt.Sprintf("%s in select{%s} at %s", base(t.name), strings.Join(cs, ","), t.op.site)
	}
	return t.name
}

// base strips the thread number (thread ids depend on the spawn order of the schedule)
func base(n string) string {
	if i := strings.Index(n, "("); i >= 0 {
		return strings.TrimSuffix(n[i+1:], ")")
	}
	return n
}

// ---- API used by rewritten code ------------------------------------------------------------------------------

// Go starts a managed thread.
func Go(name string, f func()) {
	s := mine()
	s.mu.Lock()
	s.spawn(name, f, true)
	s.mu.Unlock()
	s.point(&op{kind: opYield, site: site()})
}

// GoHarness starts a scenario thread (it must run to completion).
func GoHarness(name string, f func()) {
	s := mine()
	s.mu.Lock()
	s.spawn(name, f, false)
	s.mu.Unlock()
}

func Send[T any](ch chan<- T, v T) {
	s := mine()
	k, _ := s.vc(ch)
	s.point(&op{kind: opSend, ch: k, val: v, site: site()})
}

func Recv1[T any](ch <-chan T) T {
	v, _ := Recv2(ch)
	return v
}

func Recv2[T any](ch <-chan T) (T, bool) {
	s := mine()
	k, _ := s.vc(ch)
	o := s.point(&op{kind: opRecv, ch: k, site: site()})
	var zero T
	if !o.rok || o.rv == nil {
		return zero, o.rok
	}
	return o.rv.(T), true
}

func Close[T any](ch chan T) {
	s := mine()
	k, _ := s.vc(ch)
	s.point(&op{kind: opClose, ch: k, site: site()})
}

func Len[T any](ch chan T) int {
	s := mine()
	s.mu.Lock()
	defer s.mu.Unlock()
	k, c := s.vc(ch)
	if k == 0 {
		return 0
	}
	return len(c.buf)
}

func Cap[T any](ch chan T) int {
	s := mine()
	s.mu.Lock()
	defer s.mu.Unlock()
	k, c := s.vc(ch)
	if k == 0 {
		return 0
	}
	return c.cap
}

// Case is one select case.
type Case struct{ c selCase }

func RecvCase[T any](ch <-chan T) Case {
	k, _ := mine().vc(ch)
	return Case{selCase{send: false, ch: k}}
}

func SendCase[T any](ch chan<- T, v T) Case {
	k, _ := mine().vc(ch)
	return Case{selCase{send: true, ch: k, val: v}}
}

// Select returns the index of the chosen case (-1: default), the received value and ok.
func Select(hasDefault bool, cases ...Case) (int, interface{}, bool) {
	s := mine()
	o := &op{kind: opSelect, def: hasDefault, site: site()}
	for _, c := range cases {
		o.cases = append(o.cases, c.c)
	}
	s.point(o)
	return o.chosen, o.rv, o.rok
}

// As converts a value received through Select to the channel's element type.
func As[T any](ch <-chan T, v interface{}) T {
	var zero T
	if v == nil {
		return zero
	}
	return v.(T)
}

func AfterFunc(d time.Duration, f func()) *Timer {
	s := mine()
	s.mu.Lock()
	t := &Timer{s: s, id: len(s.timers), armed: true, f: f, site: site()}
	if s.cur != nil {
		t.vc = s.cur.vc.copy()
		s.cur.tick()
	}
	s.timers = append(s.timers, t)
	s.mu.Unlock()
	return t
}

// After is time.After under the scheduler: the returned channel receives one value when the scheduler takes the
// timer's firing transition (fire budget).
func After(d time.Duration) <-chan time.Time {
	s := mine()
	ch := make(chan time.Time, 1)
	s.mu.Lock()
	t := &Timer{s: s, id: len(s.timers), armed: true, after: ch, site: site()}
	if s.cur != nil {
		t.vc = s.cur.vc.copy()
		s.cur.tick()
	}
	s.timers = append(s.timers, t)
	s.vc(ch)
	s.mu.Unlock()
	return ch
}

func (t *Timer) Stop() bool {
	if t == nil {
		panic("Stop called on nil Timer")
	}
	t.s.mu.Lock()
	was := t.armed
	t.armed = false
	t.s.mu.Unlock()
	return was
}

// Armed tells whether the timer is still pending (harness use).
func (t *Timer) Armed() bool { t.s.mu.Lock(); defer t.s.mu.Unlock(); return t.armed }

func NewTicker(d time.Duration) *Ticker {
	s := mine()
	s.mu.Lock()
	tk := &Ticker{C: make(chan time.Time, 1), s: s, id: len(s.tickers), armed: true}
	s.tickers = append(s.tickers, tk)
	s.names[chanKey(tk.C)] = fmt.Sprintf("ticker#%d.C", tk.id)
	s.mu.Unlock()
	return tk
}

func (t *Ticker) Stop() { t.s.mu.Lock(); t.armed = false; t.s.mu.Unlock() }

// ExtBegin / ExtEnd bracket a call that blocks in the operating system (UDP read): the thread releases the
// run token and is not schedulable until the call has returned, which only a harness action brings about.
// ExtProbe, when set by the world, tells whether the bracketed OS call would return at once (data already queued
// in the socket). Such a call is performed inline - the thread keeps the token - and its end is an ordinary
// scheduling point; only a call that really has to wait makes its thread external.
var ExtProbe func() bool

func ExtBegin() {
	s := mine()
	t := s.self()
	if ExtProbe != nil && ExtProbe() {
		t.extInline = true
		return
	}
	s.mu.Lock()
	t.state = tExternal
	t.op = nil
	if s.cur == t {
		s.cur = nil
		s.step(nil)
	}
	s.mu.Unlock()
}

func ExtEnd() {
	s := mine()
	t := s.self()
	if t.extInline {
		t.extInline = false
		s.point(&op{kind: opYield, site: site()})
		return
	}
	s.mu.Lock()
	if s.finished {
		s.mu.Unlock()
		runtime.Goexit()
	}
	t.state = tRunnable
	o := &op{kind: opYield, site: site()}
	t.op = o
	s.mu.Unlock()
	for {
		<-t.wake
		s.mu.Lock()
		if s.finished {
			s.mu.Unlock()
			runtime.Goexit()
		}
		won := s.cur == t && o.done
		s.mu.Unlock()
		if won {
			return
		}
	}
}

// ExternalThreads: how many threads are inside an OS call right now.
func ExternalThreads() int {
	s := mine()
	s.mu.Lock()
	defer s.mu.Unlock()
	n := 0
	for _, t := range s.threads {
		if t.state == tExternal {
			n++
		}
	}
	return n
}

// AwaitExternalReturn blocks the calling harness thread (keeping the token) until no thread is inside an OS
// call any more: used right after the action that makes the call return (closing the socket).
func AwaitExternalReturn() {
	s := mine()
	for i := 0; ; i++ {
		s.mu.Lock()
		n := 0
		for _, t := range s.threads {
			if t.state == tExternal {
				n++
			}
		}
		s.mu.Unlock()
		if n == 0 {
			return
		}
		if i > 2000000 {
			panic("vsched: a thread did not return from its OS call")
		}
		runtime.Gosched()
	}
}

// Setup runs f as a deterministic, unrecorded prologue: while it runs, every other thread is run until it
// blocks before the calling thread continues, and none of these steps is a choice point of the exploration.
// When f returns the other threads are run to quiescence once more.
func Setup(f func()) {
	s := mine()
	t := s.self()
	s.mu.Lock()
	s.setup, s.setupT = true, t
	s.mu.Unlock()
	f()
	// quiescence: yield until the calling thread is the only one that can move
	for i := 0; i < 100000; i++ {
		s.mu.Lock()
		t.op = &op{kind: opYield, site: "setup"}
		others := 0
		for _, a := range s.alts() {
			if a.Thread >= 0 && a.Thread != t.id {
				others++
			}
		}
		t.op = nil
		s.mu.Unlock()
		if others == 0 {
			break
		}
		s.point(&op{kind: opYield, site: "setup"})
	}
	s.mu.Lock()
	s.setup, s.setupT = false, nil
	s.mu.Unlock()
}

// SetKeyFn installs the harness-visible part of the global state key for the current execution.
func SetKeyFn(f func() string) { mine().KeyFn = f }

// Yield is a plain scheduling point for harness code.
func Yield() { mine().point(&op{kind: opYield, site: site()}) }

// ---- map iteration ------------------------------------------------------------------------------------------
//
// `for k, v := range m` over a map is rewritten to range over MapEntries(m): Go leaves the iteration order
// unspecified (and randomises it), which is nondeterminism the explorer must own. The entries are taken in the
// sorted order of their keys; with Config.MapOrders the scheduler additionally chooses the entry the iteration
// starts at (every rotation is an explored alternative). As with the built-in, an entry removed before it is
// reached is skipped and the value is read when the entry is reached.

type MapEntry[K comparable, V any] struct {
	K K
	m map[K]V
}

func (e MapEntry[K, V]) Live() bool { _, ok := e.m[e.K]; return ok }
func (e MapEntry[K, V]) Val() V     { return e.m[e.K] }

// MapOrders: iteration start is a scheduler choice (set by the explorer from Config.MapOrders).
var MapOrders bool

// PlainOrder: iteration order of maps in the free-running flavours (no scheduler): 0 ascending keys, 1 descending.
// The sequential explorer (seqx) runs a scenario once per order instead of leaving the order to the runtime.
var PlainOrder atomic.Int32

func MapEntries[K comparable, V any](m map[K]V) []MapEntry[K, V] {
	if len(m) == 0 {
		return nil
	}
	out := make([]MapEntry[K, V], 0, len(m))
	for k := range m {
		out = append(out, MapEntry[K, V]{K: k, m: m})
	}
	sort.Slice(out, func(i, j int) bool { return lessKey(out[i].K, out[j].K) })
	if cur == nil && PlainOrder.Load() == 1 {
		for i, j := 0, len(out)-1; i < j; i, j = i+1, j-1 {
			out[i], out[j] = out[j], out[i]
		}
	}
	if MapOrders && len(out) > 1 && cur != nil {
		if _, managed := gids.Load(goid()); managed {
			s := mine()
			if !s.setup && !s.finished {
				o := s.point(&op{kind: opChoice, nalt: len(out), site: site()})
				if k := o.chosen; k > 0 && k < len(out) {
					out = append(append([]MapEntry[K, V]{}, out[k:]...), out[:k]...)
				}
			}
		}
	}
	return out
}

func lessKey(a, b interface{}) bool {
	switch x := a.(type) {
	case int:
		return x < b.(int)
	case uint64:
		return x < b.(uint64)
	case uint32:
		return x < b.(uint32)
	case uint16:
		return x < b.(uint16)
	case uint8:
		return x < b.(uint8)
	case int64:
		return x < b.(int64)
	case string:
		return x < b.(string)
	case time.Duration:
		return x < b.(time.Duration)
	}
	return fmt.Sprint(a) < fmt.Sprint(b)
}

// ---- running one execution -----------------------------------------------------------------------------------

type Result struct {
	Points    []Point
	Trace     []string
	Cycle     string
	Deadlock  string
	Panics    []string
	Diverged  string
	Truncated bool
	Idle      []string
	Armed     int // timers still armed at the end
	TickersOn int
	Threads   int
	Left      int      // threads not finished at the end
	Races     []string // "signature\ndescription" per distinct race (RaceMode)
	Accesses  int64
}

// Run executes body (which sets up the world and starts harness threads with GoHarness) under the choice prefix.
// UseStateKeys switches the recording of global state keys on (set by the explorer).
var UseStateKeys bool

func Run(prefix []int, fireBudget, tickBudget, maxPoints int, body func()) Result {
	s := &Sched{chans: map[uintptr]*vchan{}, capOv: map[uintptr]int{}, names: map[uintptr]string{}, prefix: prefix, done: make(chan struct{}),
		FireBudget: fireBudget, TickBudget: tickBudget, MaxPoints: maxPoints, UseKeys: UseStateKeys}
	if prev := cur; prev != nil {
		// the goroutines of the previous execution were released to unwind when it ended; they must be gone before
		// this one starts (their deferred functions run implementation code)
		gone := make(chan struct{})
		go func() { prev.alive.Wait(); close(gone) }()
		select {
		case <-gone:
		case <-time.After(20 * time.Second):
			s.Diverged = "goroutines of the previous execution did not terminate"
		}
	}
	s.race = raceState{on: RaceMode, locs: map[uintptr]*shadow{}, Races: map[string]string{}}
	cur = s
	s.mu.Lock()
	main := s.spawn("scenario", body, false)
	s.cur = nil
	_ = main
	s.step(nil)
	s.mu.Unlock()
	select {
	case <-s.done:
	case <-time.After(120 * time.Second):
		s.mu.Lock()
		s.Diverged = "execution did not finish (a managed thread blocked outside the scheduler?)\n" + s.dump()
		if os.Getenv("VERIF_DEBUG") != "" {
			buf := make([]byte, 1<<20)
			fmt.Fprintf(os.Stderr, "DIVERGED\n%s\n", buf[:runtime.Stack(buf, true)])
		}
		s.finished = true
		s.mu.Unlock()
	}
	// let woken goroutines run off
	time.Sleep(0)
	s.mu.Lock()
	defer s.mu.Unlock()
	r := Result{Points: s.Points, Trace: s.Trace, Deadlock: s.Deadlock, Cycle: s.Cycle, Panics: s.Panics, Diverged: s.Diverged, Truncated: s.Truncated, Idle: s.idleAtEnd, Threads: len(s.threads)}
	r.Armed, r.TickersOn, r.Left = s.endArmed, s.endTickers, s.endLeft
	r.Races, r.Accesses = s.raceList(), s.race.nAcc
	return r
}

func (s *Sched) dump() string {
	var l []string
	for _, t := range s.threads {
		l = append(l, fmt.Sprintf("%s state=%d %s", t.name, t.state, s.describe(t)))
	}
	return strings.Join(l, "\n")
}
