//go:build verif

package vsched

import (
	"fmt"
	"sort"
	"strings"
	"sync"
	"time"
	"unsafe"
)

// SelfTest explores small programs whose outcome sets are known (and cross-checked against real goroutines)
// and seeded bugs that must be found within two preemptions. It returns the list of failures.
func SelfTest() []string {
	var fails []string
	expect := func(name string, cfg Config, want []string, wantFinding string) {
		got := map[string]bool{}
		var mu sync.Mutex
		body := cfg.Body
		cfg.Body = func(x *Exec) { body(x) }
		cfg.Check = func(x *Exec, r Result) []Finding {
			mu.Lock()
			if o, ok := x.V["outcome"].(string); ok {
				got[o] = true
			}
			mu.Unlock()
			return nil
		}
		st := Explore(cfg)
		var g []string
		for k := range got {
			g = append(g, k)
		}
		sort.Strings(g)
		sort.Strings(want)
		if want != nil && strings.Join(g, "|") != strings.Join(want, "|") {
			fails = append(fails, fmt.Sprintf("%s: outcomes %v, want %v (%d executions)", name, g, want, st.Executions))
		}
		if wantFinding != "" {
			found := false
			for sig, f := range st.Findings {
				if strings.Contains(sig, wantFinding) {
					found = true
					if p := len(f.Schedule); p == 0 {
						_ = p
					}
				}
			}
			if !found {
				fails = append(fails, fmt.Sprintf("%s: seeded bug %q not found (%d executions, findings %v)", name, wantFinding, st.Executions, keys(st.Findings)))
			}
		} else if len(st.Findings) > 0 {
			fails = append(fails, fmt.Sprintf("%s: unexpected findings %v", name, keys(st.Findings)))
		}
		if !st.Exhaustive {
			fails = append(fails, name+": exploration not exhaustive")
		}
	}
	set := func(x *Exec, parts *[]string, mu *sync.Mutex) func() {
		return func() {
			mu.Lock()
			x.V["outcome"] = strings.Join(*parts, ",")
			mu.Unlock()
		}
	}
	// 1. buffered FIFO
	expect("fifo", Config{Bound: -1, Body: func(x *Exec) {
		ch := make(chan int, 1)
		var out []string
		var mu sync.Mutex
		GoHarness("prod", func() { Send(ch, 1); Send(ch, 2) })
		GoHarness("cons", func() {
			a := Recv1(ch)
			b := Recv1(ch)
			out = append(out, fmt.Sprint(a), fmt.Sprint(b))
			set(x, &out, &mu)()
		})
	}}, []string{"1,2"}, "")
	// 2. two producers on an unbuffered channel
	expect("rendezvous", Config{Bound: -1, Body: func(x *Exec) {
		ch := make(chan string)
		var out []string
		var mu sync.Mutex
		GoHarness("pa", func() { Send(ch, "a") })
		GoHarness("pb", func() { Send(ch, "b") })
		GoHarness("cons", func() {
			out = append(out, Recv1(ch))
			out = append(out, Recv1(ch))
			set(x, &out, &mu)()
		})
	}}, []string{"a,b", "b,a"}, "")
	// 3. select with default
	expect("select-default", Config{Bound: -1, Body: func(x *Exec) {
		ch := make(chan int, 1)
		GoHarness("send", func() { Send(ch, 7) })
		GoHarness("sel", func() {
			i, v, _ := Select(true, RecvCase(ch))
			if i == 0 {
				x.V["outcome"] = fmt.Sprint("got", As(ch, v))
			} else {
				x.V["outcome"] = "none"
			}
		})
	}}, []string{"got7", "none"}, "")
	// 4. close while a receiver is blocked
	expect("close-wakes-receiver", Config{Bound: -1, Body: func(x *Exec) {
		ch := make(chan int)
		GoHarness("recv", func() {
			_, ok := Recv2(ch)
			x.V["outcome"] = fmt.Sprint(ok)
		})
		GoHarness("close", func() { Close(ch) })
	}}, []string{"false"}, "")
	// 5. select between two ready channels: both cases are explored
	expect("select-both-ready", Config{Bound: -1, Body: func(x *Exec) {
		a, b := make(chan int, 1), make(chan int, 1)
		Send(a, 1)
		Send(b, 2)
		GoHarness("sel", func() {
			i, _, _ := Select(false, RecvCase(a), RecvCase(b))
			x.V["outcome"] = fmt.Sprint(i)
		})
	}}, []string{"0", "1"}, "")
	// 6. seeded: AB/BA deadlock on unbuffered channels
	expect("seeded-abba-deadlock", Config{Bound: 2, Body: func(x *Exec) {
		a, b := make(chan int), make(chan int)
		Name(a, "a")
		Name(b, "b")
		GoHarness("t1", func() { Send(a, 1); Recv1(b) })
		GoHarness("t2", func() { Send(b, 1); Recv1(a) })
	}}, nil, "deadlock")
	// 7. seeded: send racing a close
	expect("seeded-send-on-closed", Config{Bound: 2, Body: func(x *Exec) {
		ch := make(chan int, 4)
		GoHarness("closer", func() { Yield(); Close(ch) })
		GoHarness("sender", func() { Send(ch, 1) })
	}}, nil, "send on closed channel")
	// 8. seeded: lost wake-up (check-then-wait on a flag with a one-shot notification)
	expect("seeded-lost-wakeup", Config{Bound: 2, Body: func(x *Exec) {
		note := make(chan struct{}) // unbuffered notification, sent with a non-blocking select
		ready := false
		GoHarness("waiter", func() {
			if !ready {
				Yield() // the window between check and wait
				Recv1(note)
			}
		})
		GoHarness("notifier", func() {
			ready = true
			Select(true, SendCase(note, struct{}{})) // notify only if someone is waiting right now
		})
	}}, nil, "blocked forever")
	// 9. timer: stop before / after fire
	expect("timer-stop-race", Config{Bound: -1, FireBudget: 1, Body: func(x *Exec) {
		fired := false
		t := AfterFunc(time.Hour, func() { fired = true })
		GoHarness("stopper", func() {
			was := t.Stop()
			Yield()
			x.V["outcome"] = fmt.Sprintf("stopped-armed=%v fired=%v", was, fired)
		})
	}}, []string{"stopped-armed=true fired=false", "stopped-armed=false fired=true", "stopped-armed=false fired=false"}, "")
	// 10. differential: the outcome of the same programs on real goroutines is in the explored set
	for i := 0; i < 200; i++ {
		ch := make(chan string)
		res := make(chan string, 1)
		go func() { ch <- "a" }()
		go func() { ch <- "b" }()
		go func() { res <- (<-ch + "," + <-ch) }()
		if r := <-res; r != "a,b" && r != "b,a" {
			fails = append(fails, "differential rendezvous: real outcome "+r)
		}
	}
	// 11. replay: the same schedule twice gives the same trace
	body := func() {
		ch := make(chan string)
		GoHarness("pa", func() { Send(ch, "a") })
		GoHarness("pb", func() { Send(ch, "b") })
		GoHarness("cons", func() { Recv1(ch); Recv1(ch) })
	}
	r1 := Run([]int{0, 1, 1}, 0, 0, 1000, body)
	r2 := Run([]int{0, 1, 1}, 0, 0, 1000, body)
	if strings.Join(r1.Trace, ";") != strings.Join(r2.Trace, ";") || r1.Diverged != "" {
		fails = append(fails, fmt.Sprintf("replay: traces differ or diverged (%q)\n%v\n%v", r1.Diverged, r1.Trace, r2.Trace))
	}
	// an out-of-range choice must fail loudly
	r3 := Run([]int{99}, 0, 0, 1000, body)
	if r3.Diverged == "" {
		fails = append(fails, "replay: out-of-range choice accepted")
	}
	fails = append(fails, raceSelfTest(expect)...)
	return fails
}

// raceSelfTest: the happens-before oracle on programs whose racy / race-free status is known.
func raceSelfTest(expect func(name string, cfg Config, want []string, wantFinding string)) []string {
	type cell struct{ v int }
	w := func(c *cell, fn string) {
		Acc(func() unsafe.Pointer { return unsafe.Pointer(&c.v) }, "cell.v", fn, true)
	}
	r := func(c *cell, fn string) {
		Acc(func() unsafe.Pointer { return unsafe.Pointer(&c.v) }, "cell.v", fn, false)
	}
	// R1: two unsynchronised writers -> race
	expect("race: unsynchronised writes", Config{Bound: 1, Races: true, Body: func(x *Exec) {
		c := &cell{}
		GoHarness("a", func() { w(c, "a") })
		GoHarness("b", func() { w(c, "b") })
	}}, nil, "race:cell.v")
	// R2: ordered by a channel -> no race (buffered and unbuffered)
	for _, n := range []int{0, 1} {
		n := n
		expect(fmt.Sprintf("race: ordered by a channel (cap %d)", n), Config{Bound: 2, Races: true, Body: func(x *Exec) {
			c := &cell{}
			ch := make(chan int, n)
			GoHarness("a", func() { w(c, "a"); Send(ch, 1) })
			GoHarness("b", func() { Recv1(ch); w(c, "b") })
		}}, nil, "")
	}
	// R3: the receive does not order what the sender does AFTER the send (buffered) -> race
	expect("race: write after a buffered send", Config{Bound: 2, Races: true, Body: func(x *Exec) {
		c := &cell{}
		ch := make(chan int, 1)
		GoHarness("a", func() { Send(ch, 1); w(c, "a") })
		GoHarness("b", func() { Recv1(ch); r(c, "b") })
	}}, nil, "race:cell.v")
	// R4: go statement and AfterFunc order what came before them, not what comes after
	expect("race: state prepared before go / AfterFunc", Config{Bound: 2, FireBudget: 1, Races: true, Body: func(x *Exec) {
		c := &cell{}
		w(c, "main")
		GoHarness("child", func() { r(c, "child") })
		AfterFunc(time.Hour, func() { r(c, "timer") })
	}}, nil, "")
	expect("race: write after arming the timer", Config{Bound: 2, FireBudget: 1, Races: true, Body: func(x *Exec) {
		c := &cell{}
		AfterFunc(time.Hour, func() { r(c, "timer") })
		w(c, "main")
	}}, nil, "race:cell.v")
	// R5: close orders the closer's past before a receive that sees the close
	expect("race: ordered by close", Config{Bound: 2, Races: true, Body: func(x *Exec) {
		c := &cell{}
		ch := make(chan int)
		GoHarness("a", func() { w(c, "a"); Close(ch) })
		GoHarness("b", func() { Recv2(ch); w(c, "b") })
	}}, nil, "")
	// R6: confinement handed over by message: loop owns the cell, producers only post -> no race; a producer that
	// also touches the cell -> race even though every schedule serialises the accesses
	for _, breach := range []bool{false, true} {
		breach := breach
		want := ""
		if breach {
			want = "race:cell.v"
		}
		expect(fmt.Sprintf("race: confinement (breach=%v)", breach), Config{Bound: 2, Races: true, StateKeys: true, Body: func(x *Exec) {
			c := &cell{}
			ch := make(chan int, 2)
			GoHarness("loop", func() {
				for i := 0; i < 2; i++ {
					Recv1(ch)
					w(c, "loop")
				}
			})
			GoHarness("p1", func() { Send(ch, 1) })
			GoHarness("p2", func() {
				if breach {
					r(c, "p2")
				}
				Send(ch, 2)
			})
		}}, nil, want)
	}
	return nil
}

func keys(m map[string]FoundAt) []string {
	var k []string
	for s := range m {
		k = append(k, s)
	}
	sort.Strings(k)
	return k
}
