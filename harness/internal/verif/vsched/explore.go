//go:build verif

package vsched

import (
	"crypto/sha256"
	"encoding/hex"
	"fmt"
	"strings"
	"time"
)

// Config of one exploration.
type Config struct {
	Name       string
	Bound      int  // preemption bound (-1: unbounded)
	FireBudget int  // timer firings the scheduler may take per execution
	TickBudget int  // ticker ticks per execution
	MaxPoints  int  // safety net against livelock (0: 20000)
	MaxExec    int  // cap on executions (0: none); hitting it makes the result non-exhaustive
	MapOrders  bool // the entry a map iteration starts at is a scheduler choice (default: sorted key order)
	Races      bool // happens-before race oracle on (needs the -races instrumentation of the rewriter)
	StateKeys  bool // prune by global state key: alternatives of a point are not explored again from a state that
	// was already expanded with at least the same remaining preemption budget
	Deadline time.Duration
	// Body builds the world and starts the scenario threads; it runs as the first managed thread.
	Body func(x *Exec)
	// Check judges one finished execution (called outside the scheduler).
	Check func(x *Exec, r Result) []Finding
}

// Exec carries per-execution state between Body and Check.
type Exec struct {
	V       map[string]interface{}
	Cleanup []func()
}

type Finding struct {
	Sig  string
	What string
}

type Stats struct {
	Executions  int64
	Points      int64
	MaxPoints   int
	Preemptions int // highest number of preemptions in an explored schedule
	Outcomes    map[string]int64
	Exhaustive  bool
	BoundDone   int
	Findings    map[string]FoundAt
	Samples     []string
	Truncated   int64
	Pruned      int64
	Accesses    int64 // memory accesses checked by the race oracle
	// prefixes that could not be replayed (nondeterminism outside the scheduler): their subtrees are not explored
	DivergedPrefixes int64
	DivergenceSample string
}

type FoundAt struct {
	Finding
	Schedule []int
	Trace    []string
}

func preemptions(pts []Point, upto int) int {
	n := 0
	for i := 0; i < upto && i < len(pts); i++ {
		p := pts[i]
		if p.RunEn && p.Alts[p.Chosen].Thread != p.Running {
			n++
		}
	}
	return n
}

// Explore runs the scenario under every schedule whose preemption count stays within the bound (iterating the
// bound 0, 1, ... so that the first counterexample has the fewest preemptions).
func Explore(cfg Config) Stats {
	st := Stats{Outcomes: map[string]int64{}, Findings: map[string]FoundAt{}, Exhaustive: true}
	if cfg.MaxPoints == 0 {
		cfg.MaxPoints = 20000
	}
	start := time.Now()
	seenSched := map[string]bool{}
	UseStateKeys = cfg.StateKeys
	RaceMode = cfg.Races
	MapOrders = cfg.MapOrders
	defer func() { UseStateKeys = false; RaceMode = false; MapOrders = false }()
	maxB := cfg.Bound
	if maxB < 0 {
		maxB = 1 << 30
	}
	for b := 0; b <= maxB; b++ {
		newWork := false
		expanded := map[string]int{} // state key -> largest remaining budget it was expanded with (+1)
		stack := [][]int{{}}
		parent := map[string][]string{} // child prefix -> the parent's trace up to the branching point + its alternatives there
		for len(stack) > 0 {
			if (cfg.MaxExec > 0 && st.Executions >= int64(cfg.MaxExec)) || (cfg.Deadline > 0 && time.Since(start) > cfg.Deadline) {
				st.Exhaustive = false
				return st
			}
			prefix := stack[len(stack)-1]
			stack = stack[:len(stack)-1]
			x := &Exec{V: map[string]interface{}{}}
			r := Run(prefix, cfg.FireBudget, cfg.TickBudget, cfg.MaxPoints, func() { cfg.Body(x) })
			pk := fmt.Sprint(prefix)
			for attempt := 0; r.Diverged != "" && strings.HasPrefix(r.Diverged, "replaying") && attempt < 3; attempt++ {
				// the prefix did not replay: nondeterminism the scheduler does not own (e.g. Go's map iteration order
				// inside the implementation). Try again; if it keeps diverging the subtree is given up and counted.
				for _, f := range x.Cleanup {
					f()
				}
				x = &Exec{V: map[string]interface{}{}}
				r = Run(prefix, cfg.FireBudget, cfg.TickBudget, cfg.MaxPoints, func() { cfg.Body(x) })
			}
			if r.Diverged != "" && strings.HasPrefix(r.Diverged, "replaying") {
				st.DivergedPrefixes++
				st.Exhaustive = false
				if st.DivergenceSample == "" {
					pt := parent[pk]
					first := ""
					for j := 0; j < len(pt) && j < len(r.Trace); j++ {
						if pt[j] != r.Trace[j] && !strings.HasPrefix(pt[j], "ALTS:") {
							first = fmt.Sprintf("step %d was %q when the prefix was recorded and is %q now", j, pt[j], r.Trace[j])
							break
						}
					}
					st.DivergenceSample = r.Diverged + " | " + first + " | recorded: " + strings.Join(pt, " > ")
				}
				for _, f := range x.Cleanup {
					f()
				}
				delete(parent, pk)
				continue
			}
			delete(parent, pk)
			var checked []Finding
			if cfg.Check != nil {
				checked = cfg.Check(x, r) // before the clean-up: it reads what the peers received
			}
			for _, f := range x.Cleanup {
				f()
			}
			choices := make([]int, len(r.Points))
			for i, p := range r.Points {
				choices[i] = p.Chosen
			}
			key := fmt.Sprint(choices)
			fresh := !seenSched[key]
			if fresh {
				seenSched[key] = true
				st.Executions++
				st.Points += int64(len(r.Points))
				if len(r.Points) > st.MaxPoints {
					st.MaxPoints = len(r.Points)
				}
				if r.Truncated {
					st.Truncated++
				}
				if p := preemptions(r.Points, len(r.Points)); p > st.Preemptions {
					st.Preemptions = p
				}
				if r.Diverged != "" {
					st.Findings["INFRA:diverged"] = FoundAt{Finding{"INFRA:diverged", r.Diverged}, choices, r.Trace}
				}
				var fs []Finding
				for _, p := range r.Panics {
					fs = append(fs, Finding{"panic:" + panicSite(p), p})
				}
				if r.Deadlock != "" {
					sig := deadlockSig(r.Deadlock)
					if r.Cycle != "" {
						sig = r.Cycle
					}
					fs = append(fs, Finding{"deadlock:" + sig, "no thread can make progress: " + r.Deadlock})
				}
				for _, e := range r.Races {
					sig, what := raceSig(e)
					fs = append(fs, Finding{"race:" + sig, what})
				}
				st.Accesses += r.Accesses
				fs = append(fs, checked...)
				out := "ok"
				for _, f := range fs {
					out = f.Sig
					if _, ok := st.Findings[f.Sig]; !ok {
						st.Findings[f.Sig] = FoundAt{f, choices, r.Trace}
					}
				}
				if o, ok := x.V["outcome"].(string); ok && len(fs) == 0 {
					out = o
				}
				h := sha256.Sum256([]byte(out))
				st.Outcomes[hex.EncodeToString(h[:6])]++
				if len(st.Samples) < 6 && len(r.Trace) > 0 {
					st.Samples = append(st.Samples, strings.Join(shorten(r.Trace, 14), " > "))
				}
			}
			// children: every alternative at every point beyond the prefix whose cost stays within the bound
			for i := len(prefix); i < len(r.Points); i++ {
				p := r.Points[i]
				before := preemptions(r.Points, i)
				if p.Key != "" {
					remaining := b - before + 1
					if expanded[p.Key] >= remaining {
						st.Pruned++
						continue
					}
					expanded[p.Key] = remaining
				}
				for alt := 1; alt < len(p.Alts); alt++ {
					cost := before
					if p.RunEn && p.Alts[alt].Thread != p.Running {
						cost++
					}
					if cost > b {
						newWork = true // needs a higher bound
						continue
					}
					if b > 0 && cost < b && !fresh {
						// explored under a lower bound already
					}
					child := append(append([]int{}, choices[:i]...), alt)
					stack = append(stack, child)
					if len(parent) < 20000 {
						var alts []string
						for _, a := range p.Alts {
							alts = append(alts, a.Desc)
						}
						parent[fmt.Sprint(child)] = append(append([]string{}, r.Trace[:min(i, len(r.Trace))]...), "ALTS: "+strings.Join(alts, " || "))
					}
				}
			}
		}
		st.BoundDone = b
		if !newWork {
			break // nothing left that needs more preemptions: the exploration is complete (unbounded)
		}
	}
	return st
}

func shorten(t []string, n int) []string {
	if len(t) <= n {
		return t
	}
	return append(append([]string{}, t[:n]...), fmt.Sprintf("... (%d more)", len(t)-n))
}

// panicSite: "<thread kind>: <message> @<first function of the implementation on the stack>" (no numbers).
func panicSite(p string) string {
	head := p
	rest := ""
	if i := strings.Index(p, "\n"); i >= 0 {
		head, rest = p[:i], p[i+1:]
	}
	// "T5(name): panic: message"
	if i := strings.Index(head, "("); i >= 0 {
		head = head[i+1:]
	}
	head = strings.Replace(head, "):", ":", 1)
	var sb strings.Builder
	for _, c := range head {
		if c < '0' || c > '9' {
			sb.WriteRune(c)
		}
	}
	head = strings.ReplaceAll(sb.String(), "#-", "-")
	head = strings.ReplaceAll(head, "producer-:", "producer:")
	site := ""
	for _, fr := range strings.Split(rest, " <- ") {
		if k := strings.Index(fr, "("); k >= 0 && strings.Contains(fr, ".") {
			f := fr
			if j := strings.LastIndex(f, "("); j > 0 {
				f = f[:j]
			}
			site = " @" + f[strings.LastIndex(f, "/")+1:]
			break
		}
	}
	if len(head) > 90 {
		head = head[:90]
	}
	return head + site
}

// deadlockSig: the wait-for description without buffer occupancies
func deadlockSig(d string) string {
	var parts []string
	for _, p := range strings.Split(d, " || ") {
		if i := strings.Index(p, " ("); i >= 0 {
			if j := strings.Index(p[i:], ")"); j >= 0 {
				p = p[:i] + p[i+j+1:]
			}
		}
		parts = append(parts, p)
	}
	return strings.Join(parts, " || ")
}
