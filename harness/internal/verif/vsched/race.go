//go:build verif

package vsched

import (
	"fmt"
	"hash/fnv"
	"reflect"
	"sort"
	"strings"
	"unsafe"
)

// Happens-before race oracle (evaluated on every explored schedule).
//
// A cooperative scheduler orders all accesses, so the runtime race detector sees nothing under it. The ordering
// the PROGRAM establishes is tracked here instead: every thread carries a vector clock; the edges are those of
// the Go memory model for the constructs the scheduler owns -
//   go statement           -> start of the new goroutine
//   send                   -> the receive that takes that value (both directions for an unbuffered rendezvous)
//   close                  -> a receive that observes the close
//   time.AfterFunc(f)      -> start of f
// (the k-th-receive -> (k+C)-th-send rule of buffered channels is NOT used: leaving an edge out can only add
// reports, never hide one). Field, map and slice-element accesses of the rewritten packages are reported to Acc /
// AccMap by instrumentation the source rewriter inserts (rewrite -races); two accesses to one location, at least
// one a write, with no happens-before path between them, are a data race - whatever the schedule did.

type vclock []uint32

func (v vclock) get(i int) uint32 {
	if i < len(v) {
		return v[i]
	}
	return 0
}

func (v *vclock) set(i int, x uint32) {
	for len(*v) <= i {
		*v = append(*v, 0)
	}
	(*v)[i] = x
}

func (v *vclock) join(o vclock) {
	for i, x := range o {
		if x > v.get(i) {
			v.set(i, x)
		}
	}
}

func (v vclock) copy() vclock { return append(vclock(nil), v...) }

// tick: the thread's own component advances after every release operation.
func (t *thread) tick() { t.vc.set(t.id, t.vc.get(t.id)+1) }

type epoch struct {
	tid   int
	clock uint32
	who   string // thread (without number)
	where string // static label: function
	write bool
}

type shadow struct {
	w     *epoch
	reads map[int]*epoch
	keep  interface{} // keeps the object alive so that its address is not reused within the execution
}

type raceState struct {
	on    bool
	locs  map[uintptr]*shadow
	Races map[string]string
	quiet int
	nAcc  int64
	nLocs int
	seen  map[string]bool // (location label, thread kind, read/write) combinations so far
	sum   uint64          // order-independent digest of seen: part of the global state key
}

// RaceMode switches access recording on for the executions that follow (set by the explorer).
var RaceMode bool

func (s *Sched) hb(e *epoch, t *thread) bool { return e.tid == t.id || t.vc.get(e.tid) >= e.clock }

func (s *Sched) access(p uintptr, keep interface{}, label, fn string, write bool) {
	t := s.cur
	if t == nil || s.finished || s.race.quiet > 0 {
		return
	}
	s.race.nAcc++
	sh := s.race.locs[p]
	if sh == nil {
		sh = &shadow{reads: map[int]*epoch{}, keep: keep}
		s.race.locs[p] = sh
	}
	me := &epoch{tid: t.id, clock: t.vc.get(t.id), who: base(t.name), where: fn, write: write}
	if k := label + "|" + stripNum(me.who) + "|" + kindOf(write); !s.race.seen[k] {
		if s.race.seen == nil {
			s.race.seen = map[string]bool{}
		}
		s.race.seen[k] = true
		h := fnv.New64a()
		_, _ = h.Write([]byte(k))
		s.race.sum ^= h.Sum64()
	}
	report := func(o *epoch) {
		// the signature names the location and the two accessing functions; which threads ran them is scenario
		// vocabulary and goes into the description only
		l := []string{fmt.Sprintf("%s in %s", kindOf(o.write), o.where), fmt.Sprintf("%s in %s", kindOf(write), fn)}
		sort.Strings(l)
		sig := fmt.Sprintf("%s: %s / %s", label, l[0], l[1])
		if _, ok := s.race.Races[sig]; !ok {
			s.race.Races[sig] = fmt.Sprintf("unordered conflicting accesses to %s: %s in %s by thread %s and %s in %s by thread %s (no happens-before path: no channel operation, goroutine start or timer arming orders them)",
				label, kindOf(o.write), o.where, stripNum(o.who), kindOf(write), fn, stripNum(me.who))
		}
	}
	if sh.w != nil && !s.hb(sh.w, t) {
		report(sh.w)
	}
	if write {
		for _, r := range sh.reads {
			if !s.hb(r, t) {
				report(r)
			}
		}
		sh.w = me
		sh.reads = map[int]*epoch{}
	} else {
		sh.reads[t.id] = me
	}
}

func kindOf(w bool) string {
	if w {
		return "write"
	}
	return "read"
}

// Acc records an access to the location whose address addr returns (evaluated under recover: the statement the
// call was inserted in front of may be about to fault, or guard the dereference itself).
func Acc(addr func() unsafe.Pointer, label, fn string, write bool) {
	s := cur
	if s == nil || !s.race.on {
		return
	}
	var p unsafe.Pointer
	func() {
		defer func() { _ = recover() }()
		p = addr()
	}()
	if p == nil {
		return
	}
	s.mu.Lock()
	s.access(uintptr(p), p, label, fn, write)
	s.mu.Unlock()
}

// AccMap records an access to a map (Go maps are not safe for concurrent use: every write conflicts with every
// other access of the same map).
func AccMap(m func() interface{}, label, fn string, write bool) {
	s := cur
	if s == nil || !s.race.on {
		return
	}
	var v interface{}
	func() {
		defer func() { _ = recover() }()
		v = m()
	}()
	if v == nil {
		return
	}
	rv := reflect.ValueOf(v)
	if rv.Kind() != reflect.Map || rv.IsNil() {
		return
	}
	s.mu.Lock()
	s.access(rv.Pointer(), v, "map "+label, fn, write)
	s.mu.Unlock()
}

// Quiet brackets harness code that looks at implementation state from inside a managed thread.
func Quiet(f func()) {
	s := cur
	if s == nil {
		f()
		return
	}
	s.race.quiet++
	defer func() { s.race.quiet-- }()
	f()
}

func (s *Sched) raceList() []string {
	var l []string
	for sig, what := range s.race.Races {
		l = append(l, sig+"\n"+what)
	}
	sort.Strings(l)
	return l
}

func raceSig(entry string) (sig, what string) {
	if i := strings.Index(entry, "\n"); i >= 0 {
		return entry[:i], entry[i+1:]
	}
	return entry, entry
}
