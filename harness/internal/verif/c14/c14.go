//go:build verif

// Package c14: re-injected packets are well-formed GTP-U G-PDUs carrying the full QFI (exhaustive domain).
package c14

import (
	"bytes"
	"encoding/binary"
	"fmt"
	"net"

	"github.com/free5gc/go-gtp5gnl"
	"github.com/free5gc/go-upf/internal/forwarder"
	"github.com/free5gc/go-upf/internal/gtpv1"
	"github.com/free5gc/go-upf/internal/verif/evid"
	"github.com/free5gc/go-upf/internal/verif/netx"
)

// GPDU is what the reference decoder extracts.
type GPDU struct {
	TEID    uint32
	HasExt  bool
	PDUType uint8
	QFI     uint8
	Payload []byte
}

// Decode is an independent decoder of the G-PDU form the UPF may emit, written from TS 29.281 clause 5
// (header, extension header chaining) and TS 38.415 clause 5.5.2 (PDU session information frames).
// wantExt: whether a PDU Session Container is expected.
func Decode(b []byte) (*GPDU, error) {
	if len(b) < 8 {
		return nil, fmt.Errorf("shorter than the mandatory 8-octet header (%d)", len(b))
	}
	if v := b[0] >> 5; v != 1 {
		return nil, fmt.Errorf("version %d, want 1", v)
	}
	if b[0]&0x10 == 0 {
		return nil, fmt.Errorf("protocol type bit is 0 (GTP'), want 1 (GTP)")
	}
	if b[0]&0x08 != 0 {
		return nil, fmt.Errorf("spare bit 4 of octet 1 set")
	}
	if b[1] != 255 {
		return nil, fmt.Errorf("message type %d, want 255 (G-PDU)", b[1])
	}
	l := int(binary.BigEndian.Uint16(b[2:4]))
	if l != len(b)-8 {
		return nil, fmt.Errorf("length field %d, but %d octets follow the mandatory header", l, len(b)-8)
	}
	g := &GPDU{TEID: binary.BigEndian.Uint32(b[4:8])}
	e, s, pn := b[0]&0x04 != 0, b[0]&0x02 != 0, b[0]&0x01 != 0
	pos := 8
	if e || s || pn {
		if len(b) < 12 {
			return nil, fmt.Errorf("E/S/PN set but optional field octets 9-12 missing")
		}
		if !s && (b[8] != 0 || b[9] != 0) {
			return nil, fmt.Errorf("sequence number octets % x not zero although S=0", b[8:10])
		}
		if !pn && b[10] != 0 {
			return nil, fmt.Errorf("N-PDU number octet %#x not zero although PN=0", b[10])
		}
		next := b[11]
		pos = 12
		if !e && next != 0 {
			return nil, fmt.Errorf("next extension header type %#x although E=0", next)
		}
		for next != 0 {
			if pos >= len(b) {
				return nil, fmt.Errorf("extension header type %#x announced but no octets left", next)
			}
			n := int(b[pos]) * 4
			if n == 0 {
				return nil, fmt.Errorf("extension header length 0")
			}
			if pos+n > len(b) {
				return nil, fmt.Errorf("extension header of %d octets exceeds the packet", n)
			}
			content := b[pos+1 : pos+n-1]
			switch next {
			case 0x85:
				if g.HasExt {
					return nil, fmt.Errorf("two PDU Session Containers")
				}
				if n != 4 {
					return nil, fmt.Errorf("PDU Session Container of %d octets, want one 4-octet unit", n)
				}
				g.HasExt = true
				g.PDUType = content[0] >> 4
				if content[0]&0x0f != 0 {
					return nil, fmt.Errorf("PDU session information octet 1 low nibble %#x, want 0 (QMP/SNP/spare)", content[0]&0x0f)
				}
				if content[1]&0xc0 != 0 {
					return nil, fmt.Errorf("PDU session information octet 2 upper bits %#x set (PPP/RQI resp. delay indications)", content[1]&0xc0)
				}
				g.QFI = content[1] & 0x3f
			default:
				return nil, fmt.Errorf("unexpected extension header type %#x", next)
			}
			next = b[pos+n-1]
			pos += n
		}
	}
	g.Payload = b[pos:]
	return g, nil
}

func payload(n int) []byte {
	p := make([]byte, n)
	for i := range p {
		p[i] = byte(i*7 + 3)
	}
	return p
}

type checker struct {
	run   *evid.Run
	evals int64
	nontr int64
	dist  evid.Distinct
	smp   evid.Samples
}

func (c *checker) judge(where string, raw []byte, teid uint32, wantExt bool, pduType, qfi uint8, pl []byte, replay map[string]interface{}) {
	c.evals++
	if wantExt || len(pl) > 0 {
		c.nontr++
	}
	g, err := Decode(raw)
	qclass := "qfi<16"
	if qfi >= 16 {
		qclass = "qfi>=16"
	}
	if err != nil {
		c.run.Report(evid.Violation{Signature: "C14:" + where + ":malformed", Engine: "E2-shapes", Scenario: where,
			What: fmt.Sprintf("not a well-formed G-PDU: %v (packet % x)", err, head(raw)), Replay: replay})
		return
	}
	bad := func(field, what string) {
		sig := "C14:" + where + ":" + field
		if field == "qfi" {
			sig += ":" + qclass
		}
		c.run.Report(evid.Violation{Signature: sig, Engine: "E2-shapes", Scenario: where, What: what + fmt.Sprintf(" (packet % x)", head(raw)), Replay: replay})
	}
	if g.TEID != teid {
		bad("teid", fmt.Sprintf("TEID %#x, want %#x", g.TEID, teid))
	}
	if g.HasExt != wantExt {
		bad("ext-presence", fmt.Sprintf("PDU Session Container present=%v, want %v", g.HasExt, wantExt))
	}
	if wantExt && g.HasExt {
		if g.PDUType != pduType {
			bad("pdu-type", fmt.Sprintf("PDU type %d, want %d", g.PDUType, pduType))
		}
		if g.QFI != qfi {
			bad("qfi", fmt.Sprintf("QFI %d, want %d", g.QFI, qfi))
		}
	}
	if !bytes.Equal(g.Payload, pl) {
		bad("payload", fmt.Sprintf("payload of %d octets differs from the %d given", len(g.Payload), len(pl)))
	}
}

// Stage is what a check stage living in another package (the end-to-end re-injection stage of fworld, which
// imports this package for the decoder) needs from the checker.
type Stage interface {
	Judge(where string, raw []byte, teid uint32, wantExt bool, pduType, qfi uint8, pl []byte, replay map[string]interface{})
	Report(v evid.Violation)
	Eval()
}

// Reinject is registered by fworld.
var Reinject func(c Stage, tier string) int

func (c *checker) Judge(where string, raw []byte, teid uint32, wantExt bool, pduType, qfi uint8, pl []byte, replay map[string]interface{}) {
	c.judge(where, raw, teid, wantExt, pduType, qfi, pl, replay)
}
func (c *checker) Report(v evid.Violation) { c.run.Report(v) }
func (c *checker) Eval()                   { c.evals++ }
func Payload(n int) []byte                 { return payload(n) }
func Head(b []byte) []byte                 { return head(b) }

func head(b []byte) []byte {
	if len(b) > 20 {
		return b[:20]
	}
	return b
}

func (c *checker) encode(teid uint32, ext bool, pduType, qfi uint8, plen int) {
	pl := payload(plen)
	m := gtpv1.Message{Flags: 0x34, Type: gtpv1.MsgTypeTPDU, TEID: teid, Payload: pl}
	if ext {
		m.Exts = []gtpv1.Encoder{gtpv1.PDUSessionContainer{PDUType: pduType, QoSFlowID: qfi}}
	}
	replay := map[string]interface{}{"kind": "encode", "teid": teid, "ext": ext, "pdu_type": pduType, "qfi": qfi, "payload_len": plen}
	n := m.Len()
	b := make([]byte, n)
	var wrote int
	var err error
	func() {
		defer func() {
			if p := recover(); p != nil {
				err = fmt.Errorf("panic: %v", p)
			}
		}()
		wrote, err = m.Encode(b)
	}()
	if err != nil || wrote != n {
		c.evals++
		c.run.Report(evid.Violation{Signature: "C14:encode:fault", Engine: "E2-shapes", Scenario: "encode",
			What: fmt.Sprintf("Encode into a buffer of Len()=%d octets: n=%d err=%v", n, wrote, err), Replay: replay})
		return
	}
	c.judge("encode", b, teid, ext, pduType, qfi, pl, replay)
	c.smp.Offer(replay)
}

func Run(tier string) {
	run := evid.NewRun("C14", tier)
	c := &checker{run: run}
	teids := []uint32{0, 1, 0x7fffffff, 0x80000000, 0xffffffff, 0x01020304}
	maxLen := 64
	// full product: QFI x PDU type x ext x TEID x payload length 0..64
	for _, teid := range teids {
		for plen := 0; plen <= maxLen; plen++ {
			c.encode(teid, false, 0, 0, plen)
			for qfi := 0; qfi < 64; qfi++ {
				for pt := 0; pt < 16; pt++ {
					c.encode(teid, true, uint8(pt), uint8(qfi), plen)
				}
			}
		}
	}
	// every payload length 0..1500 (MTU) against 8 (QFI, type) pairs and no extension
	pairs := [][2]uint8{{0, 0}, {1, 0}, {9, 0}, {15, 1}, {16, 0}, {37, 1}, {63, 0}, {63, 15}}
	top := 1500
	if tier == "thorough" {
		top = 9000
	}
	for plen := 0; plen <= top; plen++ {
		c.encode(0x01020304, false, 0, 0, plen)
		for _, p := range pairs {
			c.encode(0x01020304, true, p[1], p[0], plen)
		}
	}
	// Gtp5g.WritePacket through a real UDP socket to a simulated gNB
	blk := netx.Get()
	gnb := netx.Listen(blk.IP(9), 2152)
	defer gnb.Close()
	out, err := net.ListenUDP("udp4", &net.UDPAddr{IP: blk.IP(1), Port: 0})
	if err != nil {
		evid.Infra("bind: %v", err)
	}
	defer out.Close()
	g := forwarder.VNewGtp5gForWrite(out)
	for _, teid := range []uint32{1, 0x01020304, 0xffffffff} {
		far := &gtp5gnl.FAR{Param: &gtp5gnl.ForwardParam{Creation: &gtp5gnl.HeaderCreation{
			Desc: 0x0100, TEID: teid, PeerAddr: blk.IP(9), Port: 2152}}}
		for _, plen := range []int{0, 1, 3, 4, 5, 1400} {
			for q := -1; q < 64; q++ {
				var qer *gtp5gnl.QER
				if q >= 0 {
					qer = &gtp5gnl.QER{ID: 1, QFI: uint8(q)}
				}
				pl := payload(plen)
				replay := map[string]interface{}{"kind": "WritePacket", "teid": teid, "qer_qfi": q, "payload_len": plen}
				if err := g.WritePacket(far, qer, pl); err != nil {
					c.evals++
					run.Report(evid.Violation{Signature: "C14:write-packet:error", Engine: "E2-shapes", Scenario: "WritePacket",
						What: fmt.Sprintf("WritePacket error %v", err), Replay: replay})
					continue
				}
				got := gnb.Drain()
				if len(got) != 1 {
					c.evals++
					run.Report(evid.Violation{Signature: "C14:write-packet:count", Engine: "E2-shapes", Scenario: "WritePacket",
						What: fmt.Sprintf("%d datagrams reached the FAR's peer, want 1", len(got)), Replay: replay})
					continue
				}
				qfi := uint8(0)
				if q >= 0 {
					qfi = uint8(q)
				}
				c.judge("write-packet", got[0], teid, q >= 0, 0, qfi, pl, replay)
			}
		}
	}
	out.Close()
	gnb.Close()
	sess := 0
	if Reinject != nil {
		sess = Reinject(c, tier)
	}
	run.Set("reinject_sessions", sess)
	run.Set("evaluations", c.evals)
	run.Set("distinct_nontrivial", c.nontr)
	run.Set("rule", "full product QFI 0..63 x PDU type 0..15 x {with,without PDU Session Container} x 6 TEIDs x payload length 0..64; all payload lengths 0..MTU against 8 (QFI,type) pairs; WritePacket for QER QFI 0..63 and no QER x 6 payload lengths x 3 TEIDs through a real UDP socket; end-to-end re-injection (real PfcpServer + gtp5g driver over the simulated kernel): one buffering FAR serving two PDRs whose own QERs carry QFI q1, q2 in {none, 0..63} (quick: every q against {none,0,1,15,16,37,63} in both roles; thorough: the full 65x65 product), BUFF->FORW, each datagram judged against its own PDR's flow; every case is a distinct input; non-trivial iff it has an extension header or a non-empty payload")
	run.Set("exhaustive", true)
	run.Set("samples", c.smp.List())
	run.Set("bound", fmt.Sprintf("flags 0x34 only; payload <= %d octets", top))
	run.Assumption("the reference decoder in harness/internal/verif/c14 (TS 29.281 clause 5, TS 38.415 clause 5.5.2) is right")
	run.Finish()
}
