//go:build verif

// Package evid: evidence files, violation artefacts and the known-findings list shared by all checks.
package evid

import (
	"crypto/sha256"
	"encoding/hex"
	"encoding/json"
	"fmt"
	"os"
	"path/filepath"
	"sort"
	"strconv"
	"strings"
	"sync"
	"time"
)

func Dir() string {
	if d := os.Getenv("VERIF_DIR"); d != "" {
		return d
	}
	return "/verif"
}

func Seed() int64 {
	v, err := strconv.ParseInt(os.Getenv("VERIF_SEED"), 10, 64)
	if err != nil {
		return 0
	}
	return v
}

// Evidence mirrors EVIDENCE.schema.json.
type Evidence struct {
	PropertyID  string                 `json:"property_id"`
	Tier        string                 `json:"tier"`
	Seed        int64                  `json:"seed"`
	Level       string                 `json:"level"`
	Coverage    map[string]interface{} `json:"coverage"`
	Assumptions []string               `json:"assumptions,omitempty"`
	WallS       float64                `json:"wall_s"`
	Violations  int                    `json:"violations"`
}

// Run collects what one check run covered and found.
type Run struct {
	mu         sync.Mutex
	ID         string
	Tier       string
	start      time.Time
	Cov        map[string]interface{}
	Assume     []string
	viol       []Violation
	known      map[string]bool // signatures already printed as KNOWN-FINDING
	kf         []KnownFinding
	NewViol    int
	KnownCount int
}

type Violation struct {
	Property  string      `json:"property"`
	Signature string      `json:"signature"`
	Engine    string      `json:"engine"`
	Scenario  string      `json:"scenario"`
	What      string      `json:"what"`
	Replay    interface{} `json:"replay"` // engine-specific: event list, schedule, input shape
	Path      string      `json:"-"`
}

type KnownFinding struct {
	Property  string `json:"property"`
	Status    string `json:"status"` // "known" or "fixed"
	Signature string `json:"signature"`
	What      string `json:"what"`
	Commit    string `json:"commit,omitempty"`
}

func NewRun(id, tier string) *Run {
	r := &Run{ID: id, Tier: tier, start: time.Now(), Cov: map[string]interface{}{}, known: map[string]bool{}}
	b, err := os.ReadFile(filepath.Join(Dir(), "known_findings.json"))
	if err == nil {
		var f struct {
			Findings []KnownFinding `json:"findings"`
		}
		if err := json.Unmarshal(b, &f); err != nil {
			Infra("known_findings.json unreadable: %v", err)
		}
		r.kf = f.Findings
	}
	return r
}

// Infra reports an infrastructure problem: exit 2, never a VIOLATION line.
func Infra(format string, a ...interface{}) {
	fmt.Printf("INFRA "+format+"\n", a...)
	os.Exit(2)
}

func (r *Run) isKnown(sig string) *KnownFinding {
	for i := range r.kf {
		k := &r.kf[i]
		if k.Status == "known" && k.Property == r.ID && k.Signature == sig {
			return k
		}
	}
	return nil
}

// IsKnownSig tells whether a violation with this signature is a recorded (unrepaired) finding.
func (r *Run) IsKnownSig(sig string) bool { return r.isKnown(sig) != nil }

// Report records a violation. Known findings print a KNOWN-FINDING line once; anything else writes a
// replay file and prints a VIOLATION line (once per signature, to keep output readable).
func (r *Run) Report(v Violation) {
	r.mu.Lock()
	defer r.mu.Unlock()
	v.Property = r.ID
	if k := r.isKnown(v.Signature); k != nil {
		if !r.known[v.Signature] {
			r.known[v.Signature] = true
			r.KnownCount++
			// the artefact that reproduces it (scratch, like every replay file; the known-findings file itself is
			// never touched at run time)
			if b, err := json.MarshalIndent(v, "", " "); err == nil {
				h := sha256.Sum256([]byte(v.Signature))
				dir := filepath.Join(Dir(), "replays", r.ID)
				_ = os.MkdirAll(dir, 0o755)
				_ = os.WriteFile(filepath.Join(dir, "known-"+hex.EncodeToString(h[:6])+".json"), b, 0o644)
			}
			fmt.Printf("KNOWN-FINDING: property=%s %s [%s]\n", r.ID, k.What, v.Signature)
		}
		return
	}
	for _, o := range r.viol {
		if o.Signature == v.Signature {
			return
		}
	}
	b, _ := json.MarshalIndent(v, "", " ")
	h := sha256.Sum256(b)
	dir := filepath.Join(Dir(), "replays", r.ID)
	_ = os.MkdirAll(dir, 0o755)
	v.Path = filepath.Join(dir, hex.EncodeToString(h[:6])+".json")
	_ = os.WriteFile(v.Path, b, 0o644)
	r.viol = append(r.viol, v)
	r.NewViol++
	fmt.Printf("VIOLATION property=%s replay=%s\n", r.ID, v.Path)
	fmt.Printf("  signature: %s\n  what: %s\n", v.Signature, v.What)
}

func (r *Run) Set(k string, v interface{}) {
	r.mu.Lock()
	r.Cov[k] = v
	r.mu.Unlock()
}

func (r *Run) Add(k string, n int64) {
	r.mu.Lock()
	cur, _ := r.Cov[k].(int64)
	r.Cov[k] = cur + n
	r.mu.Unlock()
}

func (r *Run) Assumption(s string) { r.Assume = append(r.Assume, s) }

// Finish writes evidence/<id>.json and exits with the check's status.
func (r *Run) Finish() {
	r.mu.Lock()
	ev := Evidence{
		PropertyID: r.ID, Tier: r.Tier, Seed: Seed(), Level: "model_checking",
		Coverage: r.Cov, Assumptions: r.Assume,
		WallS:      time.Since(r.start).Seconds(),
		Violations: r.NewViol,
	}
	if ev.Tier != "quick" && ev.Tier != "thorough" {
		ev.Tier = "quick"
	}
	r.Cov["known_findings_reproduced"] = sortedKeys(r.known)
	b, _ := json.MarshalIndent(ev, "", " ")
	path := filepath.Join(Dir(), "evidence", r.ID+".json")
	_ = os.MkdirAll(filepath.Dir(path), 0o755)
	if err := os.WriteFile(path, append(b, '\n'), 0o644); err != nil {
		Infra("cannot write evidence: %v", err)
	}
	n := r.NewViol
	r.mu.Unlock()
	fmt.Printf("%s %s: violations=%d known_findings=%d wall=%.1fs evidence=%s\n", r.ID, r.Tier, n, len(r.known), ev.WallS, path)
	if n > 0 {
		os.Exit(1)
	}
	os.Exit(0)
}

func sortedKeys(m map[string]bool) []string {
	out := []string{}
	for k := range m {
		out = append(out, k)
	}
	sort.Strings(out)
	return out
}

// Samples keeps the first n and a spread of later cases.
type Samples struct {
	mu   sync.Mutex
	N    int
	seen int
	list []interface{}
}

func (s *Samples) Offer(v interface{}) {
	s.mu.Lock()
	defer s.mu.Unlock()
	s.seen++
	if s.N == 0 {
		s.N = 8
	}
	if len(s.list) < s.N {
		s.list = append(s.list, v)
		return
	}
	// keep exponentially spaced later cases
	if s.seen&(s.seen-1) == 0 {
		s.list[s.N/2+(bitlen(s.seen)%(s.N-s.N/2))] = v
	}
}

func bitlen(x int) int {
	n := 0
	for x > 0 {
		n++
		x >>= 1
	}
	return n
}

func (s *Samples) List() []interface{} {
	s.mu.Lock()
	defer s.mu.Unlock()
	if len(s.list) == 0 {
		return []interface{}{"(none)"}
	}
	return append([]interface{}{}, s.list...)
}

// Distinct counts distinct strings by hash.
type Distinct struct {
	mu sync.Mutex
	m  map[[8]byte]struct{}
}

func (d *Distinct) Add(s string) bool {
	h := sha256.Sum256([]byte(s))
	var k [8]byte
	copy(k[:], h[:8])
	d.mu.Lock()
	defer d.mu.Unlock()
	if d.m == nil {
		d.m = map[[8]byte]struct{}{}
	}
	if _, ok := d.m[k]; ok {
		return false
	}
	d.m[k] = struct{}{}
	return true
}

func (d *Distinct) Len() int {
	d.mu.Lock()
	defer d.mu.Unlock()
	return len(d.m)
}

func Short(s string, n int) string {
	s = strings.ReplaceAll(s, "\n", " | ")
	if len(s) > n {
		return s[:n] + "..."
	}
	return s
}
