//go:build verif

// Package c20: start-up accepts only a valid configuration (and a compatible gtp5g).
// Exhaustive single and pairwise faults of a valid YAML document against a reference validity predicate.
package c20

import (
	"fmt"
	"net"
	"os"
	"path/filepath"
	"regexp"
	"sort"
	"strings"
	"time"

	"gopkg.in/yaml.v2"

	"github.com/free5gc/go-upf/internal/pfcp"
	"github.com/free5gc/go-upf/internal/verif/evid"
	"github.com/free5gc/go-upf/pkg/factory"
)

// ---- documents as trees ---------------------------------------------------------------------------

type M = yaml.MapSlice

func base() M {
	return M{
		{Key: "version", Value: "1.0.3"},
		{Key: "description", Value: "UPF configuration"},
		{Key: "pfcp", Value: M{
			{Key: "addr", Value: "127.0.0.8"},
			{Key: "nodeID", Value: "127.0.0.8"},
			{Key: "retransTimeout", Value: "1s"},
			{Key: "maxRetrans", Value: 3},
		}},
		{Key: "gtpu", Value: M{
			{Key: "forwarder", Value: "gtp5g"},
			{Key: "ifList", Value: []interface{}{
				M{{Key: "addr", Value: "127.0.0.8"}, {Key: "type", Value: "N3"}, {Key: "name", Value: "upf.5gc.nctu.me"}, {Key: "ifname", Value: "gtpif"}, {Key: "mtu", Value: 1400}},
				M{{Key: "addr", Value: "10.200.200.102"}, {Key: "type", Value: "N9"}},
			}},
		}},
		{Key: "dnnList", Value: []interface{}{
			M{{Key: "dnn", Value: "internet"}, {Key: "cidr", Value: "10.60.0.0/16"}, {Key: "natifname", Value: "eth0"}},
			M{{Key: "dnn", Value: "ims"}, {Key: "cidr", Value: "10.61.0.0/24"}},
		}},
		{Key: "logger", Value: M{
			{Key: "enable", Value: true},
			{Key: "level", Value: "info"},
			{Key: "reportCaller", Value: false},
		}},
	}
}

type step struct {
	key string
	idx int // list index when key == ""
}

type path []step

func (p path) String() string {
	s := ""
	for _, x := range p {
		if x.key == "" {
			s += fmt.Sprintf("[%d]", x.idx)
		} else {
			if s != "" {
				s += "."
			}
			s += x.key
		}
	}
	return s
}

func clone(v interface{}) interface{} {
	switch t := v.(type) {
	case M:
		out := make(M, len(t))
		for i, it := range t {
			out[i] = yaml.MapItem{Key: it.Key, Value: clone(it.Value)}
		}
		return out
	case []interface{}:
		out := make([]interface{}, len(t))
		for i, it := range t {
			out[i] = clone(it)
		}
		return out
	}
	return v
}

// get returns the node at p.
func get(v interface{}, p path) (interface{}, bool) {
	for _, s := range p {
		switch t := v.(type) {
		case M:
			found := false
			for _, it := range t {
				if it.Key == s.key && s.key != "" {
					v, found = it.Value, true
					break
				}
			}
			if !found {
				return nil, false
			}
		case []interface{}:
			if s.key != "" || s.idx >= len(t) {
				return nil, false
			}
			v = t[s.idx]
		default:
			return nil, false
		}
	}
	return v, true
}

type deleted struct{}

// set replaces (or with deleted{} removes) the node at p; returns the new tree and whether p existed.
func set(v interface{}, p path, nv interface{}) (interface{}, bool) {
	if len(p) == 0 {
		return nv, true
	}
	s := p[0]
	switch t := v.(type) {
	case M:
		for i, it := range t {
			if it.Key == s.key && s.key != "" {
				c, ok := set(it.Value, p[1:], nv)
				if !ok {
					return v, false
				}
				out := append(M{}, t...)
				if _, del := c.(deleted); del {
					return append(out[:i], out[i+1:]...), true
				}
				out[i] = yaml.MapItem{Key: it.Key, Value: c}
				return out, true
			}
		}
	case []interface{}:
		if s.key == "" && s.idx < len(t) {
			c, ok := set(t[s.idx], p[1:], nv)
			if !ok {
				return v, false
			}
			out := append([]interface{}{}, t...)
			if _, del := c.(deleted); del {
				return append(out[:s.idx], out[s.idx+1:]...), true
			}
			out[s.idx] = c
			return out, true
		}
	}
	return v, false
}

func paths(v interface{}, pre path, out *[]path) {
	switch t := v.(type) {
	case M:
		for _, it := range t {
			p := append(append(path{}, pre...), step{key: it.Key.(string)})
			*out = append(*out, p)
			paths(it.Value, p, out)
		}
	case []interface{}:
		for i := range t {
			p := append(append(path{}, pre...), step{idx: i})
			*out = append(*out, p)
			paths(t[i], p, out)
		}
	}
}

// ---- faults -----------------------------------------------------------------------------------------

type fault struct {
	p    path
	name string
	val  interface{}
}

func (f fault) String() string { return f.p.String() + ":" + f.name }

func faultsFor(doc M) []fault {
	var ps []path
	paths(doc, nil, &ps)
	var out []fault
	for _, p := range ps {
		cur, _ := get(doc, p)
		add := func(n string, v interface{}) { out = append(out, fault{p, n, v}) }
		add("delete", deleted{})
		add("null", nil)
		switch cur.(type) {
		case M:
			add("empty-map", M{})
			add("as-scalar", "x")
			add("as-list", []interface{}{"x"})
		case []interface{}:
			add("empty-list", []interface{}{})
			add("as-scalar", "x")
			add("as-map", M{{Key: "k", Value: "v"}})
		default:
			add("empty", "")
			add("as-list", []interface{}{"x"})
			add("as-map", M{{Key: "k", Value: "v"}})
		}
		leaf := p[len(p)-1].key
		switch leaf {
		case "version":
			add("1.0.2", "1.0.2")
			add("1.0.4", "1.0.4")
			add("1.0.30", "1.0.30")
		case "forwarder":
			add("dpdk", "dpdk")
			add("GTP5G", "GTP5G")
		case "type":
			add("N6", "N6")
			add("n3", "n3")
		case "cidr":
			add("prefix-33", "10.0.0.0/33")
			add("no-prefix", "10.0.0.0")
			add("garbage", "internet")
		case "level":
			add("verbose", "verbose")
			add("INFO", "INFO")
		case "addr", "nodeID":
			add("not-a-host", "not a host!")
			add("bad-ip", "300.1.1.1.1:")
			add("ipv6-literal", "2001:db8::20")
			add("ipv6-loopback", "::1")
			add("unresolvable-name", "no-such-host.invalid")
		case "retransTimeout":
			add("0s", "0s")
			add("abc", "abc")
			add("-1s", "-1s")
		case "maxRetrans":
			add("256", 256)
			add("-1", -1)
		case "mtu":
			add("-1", -1)
			add("2^32", 4294967296)
		}
	}
	return out
}

// ---- reference predicate ----------------------------------------------------------------------------

var rxDNS = regexp.MustCompile(`^([a-zA-Z0-9_][a-zA-Z0-9_-]{0,62})(\.[a-zA-Z0-9_][a-zA-Z0-9_-]{0,62})*[\._]?$`)

func isHost(v interface{}) bool {
	s, ok := v.(string)
	if !ok || s == "" {
		return false
	}
	return net.ParseIP(s) != nil || rxDNS.MatchString(s)
}

func resolvable(v interface{}) bool {
	s, _ := v.(string)
	if ip := net.ParseIP(s); ip != nil {
		return ip.To4() != nil
	}
	return s == "localhost" // no DNS in this sandbox: the only name with an offline answer
}

func str(v interface{}) (string, bool) { s, ok := v.(string); return s, ok }

var levels = map[string]bool{"trace": true, "debug": true, "info": true, "warn": true, "error": true, "fatal": true, "panic": true}

// violated lists the conditions of the property statement that the document does not meet.
// silent=true marks documents the statement says nothing about (excluded from the verdict).
func violated(doc interface{}) (reasons []string, silent bool) {
	top, ok := doc.(M)
	if !ok {
		return []string{"document is not a mapping"}, false
	}
	g := func(p ...string) (interface{}, bool) {
		var pp path
		for _, k := range p {
			pp = append(pp, step{key: k})
		}
		return get(top, pp)
	}
	if v, _ := g("version"); v != "1.0.3" {
		reasons = append(reasons, "version is not the supported 1.0.3")
	}
	if v, _ := g("pfcp", "addr"); !isHost(v) {
		reasons = append(reasons, "no PFCP listen address")
	}
	if v, _ := g("pfcp", "nodeID"); !isHost(v) || !resolvable(v) {
		reasons = append(reasons, "no resolvable node id")
	}
	if v, ok := g("pfcp", "retransTimeout"); !ok {
		reasons = append(reasons, "no retransmission timeout")
	} else {
		s, isS := str(v)
		d, err := time.ParseDuration(s)
		if !isS || err != nil || d == 0 {
			reasons = append(reasons, "no retransmission timeout")
		} else if d < 0 {
			silent = true // a negative timeout: the statement only asks for "a retransmission timeout"
		}
	}
	if v, _ := g("gtpu", "forwarder"); v != "gtp5g" {
		reasons = append(reasons, "forwarder is not gtp5g")
	}
	if v, ok := g("gtpu", "ifList"); !ok || v == nil {
		silent = true // no interface list at all: not covered by "well-formed interface entries"
	} else if l, isL := v.([]interface{}); !isL {
		reasons = append(reasons, "interface list is not a list")
	} else {
		if len(l) == 0 {
			silent = true
		}
		for i, e := range l {
			m, isM := e.(M)
			if !isM {
				reasons = append(reasons, fmt.Sprintf("interface entry %d malformed", i))
				continue
			}
			a, _ := get(m, path{{key: "addr"}})
			t, _ := get(m, path{{key: "type"}})
			if !isHost(a) || (t != "N3" && t != "N9") {
				reasons = append(reasons, fmt.Sprintf("interface entry %d malformed", i))
			}
		}
	}
	if v, ok := g("dnnList"); !ok || v == nil {
		silent = true
	} else if l, isL := v.([]interface{}); !isL {
		reasons = append(reasons, "DNN list is not a list")
	} else {
		if len(l) == 0 {
			silent = true
		}
		for i, e := range l {
			m, isM := e.(M)
			if !isM {
				reasons = append(reasons, fmt.Sprintf("DNN entry %d malformed", i))
				continue
			}
			c, _ := get(m, path{{key: "cidr"}})
			cs, _ := str(c)
			if _, _, err := net.ParseCIDR(cs); err != nil {
				reasons = append(reasons, fmt.Sprintf("DNN entry %d has no valid CIDR", i))
			}
			if d, _ := get(m, path{{key: "dnn"}}); d == nil || d == "" {
				silent = true // a DNN entry without a name: the statement only names the CIDR
			}
		}
	}
	if v, _ := g("logger", "level"); !levels[fmt.Sprint(v)] {
		reasons = append(reasons, "no valid log level")
	} else if _, isS := v.(string); !isS {
		reasons = append(reasons, "no valid log level")
	}
	return reasons, silent
}

// ---- comparing an accepted configuration with its document ----------------------------------------------

func leafEq(doc interface{}, got interface{}) bool {
	if doc == nil {
		// null / absent: zero value
		switch g := got.(type) {
		case string:
			return g == ""
		case bool:
			return !g
		case uint8:
			return g == 0
		case uint32:
			return g == 0
		case time.Duration:
			return g == 0
		}
		return false
	}
	if d, ok := got.(time.Duration); ok {
		s, _ := doc.(string)
		p, err := time.ParseDuration(s)
		return err == nil && p == d
	}
	return fmt.Sprint(doc) == fmt.Sprint(got)
}

func compare(doc M, cfg *factory.Config) []string {
	var diffs []string
	chk := func(name string, dv interface{}, ok bool, got interface{}) {
		if !ok {
			dv = nil
		}
		switch dv.(type) {
		case M, []interface{}:
			diffs = append(diffs, name+" (mistyped in the document but accepted)")
			return
		}
		if !leafEq(dv, got) {
			diffs = append(diffs, fmt.Sprintf("%s: document %v, running configuration %v", name, dv, got))
		}
	}
	g := func(root interface{}, p ...string) (interface{}, bool) {
		var pp path
		for _, k := range p {
			pp = append(pp, step{key: k})
		}
		return get(root, pp)
	}
	v, ok := g(doc, "version")
	chk("version", v, ok, cfg.Version)
	v, ok = g(doc, "description")
	chk("description", v, ok, cfg.Description)
	if cfg.Pfcp != nil {
		v, ok = g(doc, "pfcp", "addr")
		chk("pfcp.addr", v, ok, cfg.Pfcp.Addr)
		v, ok = g(doc, "pfcp", "nodeID")
		chk("pfcp.nodeID", v, ok, cfg.Pfcp.NodeID)
		v, ok = g(doc, "pfcp", "retransTimeout")
		chk("pfcp.retransTimeout", v, ok, cfg.Pfcp.RetransTimeout)
		v, ok = g(doc, "pfcp", "maxRetrans")
		chk("pfcp.maxRetrans", v, ok, cfg.Pfcp.MaxRetrans)
	} else {
		diffs = append(diffs, "pfcp section nil in the running configuration")
	}
	if cfg.Gtpu != nil {
		v, ok = g(doc, "gtpu", "forwarder")
		chk("gtpu.forwarder", v, ok, cfg.Gtpu.Forwarder)
		lv, _ := g(doc, "gtpu", "ifList")
		l, _ := lv.([]interface{})
		if len(l) != len(cfg.Gtpu.IfList) {
			diffs = append(diffs, fmt.Sprintf("gtpu.ifList: %d entries in the document, %d running", len(l), len(cfg.Gtpu.IfList)))
		} else {
			for i, e := range l {
				x := cfg.Gtpu.IfList[i]
				for _, f := range []struct {
					k   string
					got interface{}
				}{{"addr", x.Addr}, {"type", x.Type}, {"name", x.Name}, {"ifname", x.IfName}, {"mtu", x.MTU}} {
					v, ok = g(e, f.k)
					chk(fmt.Sprintf("gtpu.ifList[%d].%s", i, f.k), v, ok, f.got)
				}
			}
		}
	} else {
		diffs = append(diffs, "gtpu section nil in the running configuration")
	}
	lv, _ := g(doc, "dnnList")
	l, _ := lv.([]interface{})
	if len(l) != len(cfg.DnnList) {
		diffs = append(diffs, fmt.Sprintf("dnnList: %d entries in the document, %d running", len(l), len(cfg.DnnList)))
	} else {
		for i, e := range l {
			x := cfg.DnnList[i]
			for _, f := range []struct {
				k   string
				got interface{}
			}{{"dnn", x.Dnn}, {"cidr", x.Cidr}, {"natifname", x.NatIfName}} {
				v, ok = g(e, f.k)
				chk(fmt.Sprintf("dnnList[%d].%s", i, f.k), v, ok, f.got)
			}
		}
	}
	if cfg.Logger != nil {
		v, ok = g(doc, "logger", "enable")
		chk("logger.enable", v, ok, cfg.Logger.Enable)
		v, ok = g(doc, "logger", "level")
		chk("logger.level", v, ok, cfg.Logger.Level)
		v, ok = g(doc, "logger", "reportCaller")
		chk("logger.reportCaller", v, ok, cfg.Logger.ReportCaller)
	} else {
		diffs = append(diffs, "logger section nil in the running configuration")
	}
	return diffs
}

// ---- the check ----------------------------------------------------------------------------------------

type checker struct {
	run      *evid.Run
	dir      string
	n        int
	evals    int64
	accepted int64
	rejected int64
	silentN  int64
	nontr    evid.Distinct
	smp      evid.Samples
}

func (c *checker) try(doc M, label string, mustAccept bool) {
	c.evals++
	b, err := yaml.Marshal(doc)
	if err != nil {
		evid.Infra("yaml marshal: %v", err)
	}
	c.nontr.Add(string(b))
	f := filepath.Join(c.dir, "cfg.yaml")
	if err := os.WriteFile(f, b, 0o600); err != nil {
		evid.Infra("%v", err)
	}
	var cfg *factory.Config
	var rerr error
	func() {
		defer func() {
			if p := recover(); p != nil {
				rerr = fmt.Errorf("PANIC: %v", p)
			}
		}()
		cfg, rerr = factory.ReadConfig(f)
	}()
	rep := map[string]interface{}{"faults": label, "yaml": string(b)}
	if rerr != nil && strings.HasPrefix(rerr.Error(), "PANIC") {
		c.run.Report(evid.Violation{Signature: "C20:read-config-fault:" + sigOf(label), Engine: "E2-shapes", Scenario: "config", What: fmt.Sprintf("ReadConfig faulted on [%s]: %v", label, rerr), Replay: rep})
		return
	}
	reasons, silent := violated(doc)
	if rerr != nil {
		c.rejected++
		if cfg != nil {
			c.run.Report(evid.Violation{Signature: "C20:error-with-config:" + sigOf(label), Engine: "E2-shapes", Scenario: "config", What: fmt.Sprintf("[%s]: ReadConfig returned an error together with a (partially initialised) configuration", label), Replay: rep})
		}
		if mustAccept {
			c.run.Report(evid.Violation{Signature: "C20:valid-config-rejected:" + sigOf(label), Engine: "E2-shapes", Scenario: "config", What: fmt.Sprintf("valid configuration [%s] rejected: %v", label, rerr), Replay: rep})
		}
		return
	}
	c.accepted++
	if cfg == nil {
		c.run.Report(evid.Violation{Signature: "C20:nil-config-without-error", Engine: "E2-shapes", Scenario: "config", What: fmt.Sprintf("[%s]: neither error nor configuration", label), Replay: rep})
		return
	}
	if len(reasons) > 0 {
		c.run.Report(evid.Violation{Signature: "C20:invalid-config-accepted:" + sigOf(label), Engine: "E2-shapes", Scenario: "config",
			What: fmt.Sprintf("configuration with faults [%s] accepted although: %s", label, strings.Join(reasons, "; ")), Replay: rep})
		return
	}
	if silent && !mustAccept {
		c.silentN++
	}
	if d := compare(doc, cfg); len(d) > 0 {
		c.run.Report(evid.Violation{Signature: "C20:value-changed:" + sigOf(label), Engine: "E2-shapes", Scenario: "config",
			What: fmt.Sprintf("accepted configuration [%s] differs from its document: %s", label, strings.Join(d, "; ")), Replay: rep})
	}
}

// sigOf: the fault names without list indices, sorted (stable finding signature)
func sigOf(label string) string {
	ps := strings.Split(label, " + ")
	for i := range ps {
		ps[i] = regexp.MustCompile(`\[\d+\]`).ReplaceAllString(ps[i], "[]")
	}
	sort.Strings(ps)
	return strings.Join(ps, "+")
}

func apply(doc M, fs ...fault) (M, bool) {
	cur := interface{}(doc)
	for _, f := range fs {
		n, ok := set(cur, f.p, f.val)
		if !ok {
			return nil, false
		}
		cur = n
	}
	m, ok := cur.(M)
	return m, ok
}

// RunConfig is the configuration half of C20; the version half lives with the simulated kernel.
func RunConfig(run *evid.Run, tier string) (evals int64, distinct int, samples []interface{}) {
	dir, err := os.MkdirTemp("", "verif-c20-")
	if err != nil {
		evid.Infra("%v", err)
	}
	defer os.RemoveAll(dir)
	pfcp.VQuietLog()
	c := &checker{run: run, dir: dir}
	b := base()
	c.try(b, "none", true)
	// benign variations stay accepted
	for lv := range levels {
		d, _ := apply(b, fault{path{{key: "logger"}, {key: "level"}}, "level=" + lv, lv})
		c.try(d, "benign:level="+lv, true)
	}
	for _, id := range []string{"localhost", "127.0.0.1", "10.0.0.1"} {
		d, _ := apply(b, fault{path{{key: "pfcp"}, {key: "nodeID"}}, "nodeID=" + id, id})
		c.try(d, "benign:nodeID="+id, true)
	}
	for _, p := range []path{{{key: "description"}}, {{key: "pfcp"}, {key: "maxRetrans"}}, {{key: "logger"}, {key: "enable"}}, {{key: "logger"}, {key: "reportCaller"}},
		{{key: "gtpu"}, {key: "ifList"}, {idx: 0}, {key: "name"}}, {{key: "gtpu"}, {key: "ifList"}, {idx: 0}, {key: "ifname"}}, {{key: "gtpu"}, {key: "ifList"}, {idx: 0}, {key: "mtu"}},
		{{key: "dnnList"}, {idx: 0}, {key: "natifname"}}, {{key: "gtpu"}, {key: "ifList"}, {idx: 1}}, {{key: "dnnList"}, {idx: 1}}} {
		d, _ := apply(b, fault{p, "delete", deleted{}})
		c.try(d, "benign:delete "+p.String(), true)
	}
	rev := append(M{}, b...)
	for i, j := 0, len(rev)-1; i < j; i, j = i+1, j-1 {
		rev[i], rev[j] = rev[j], rev[i]
	}
	c.try(rev, "benign:key-order-reversed", true)
	for _, mr := range []int{0, 1, 255} {
		d, _ := apply(b, fault{path{{key: "pfcp"}, {key: "maxRetrans"}}, "", mr})
		c.try(d, fmt.Sprintf("benign:maxRetrans=%d", mr), true)
	}
	// single faults, exhaustively
	fs := faultsFor(b)
	for _, f := range fs {
		d, ok := apply(b, f)
		if ok {
			c.try(d, f.String(), false)
		}
	}
	c.smp.Offer(fs[3].String())
	// all pairs (second fault addressed in the document after the first; pairs whose second path vanished are skipped)
	pairs := 0
	for i, f1 := range fs {
		for _, f2 := range fs[i+1:] {
			if f1.p.String() == f2.p.String() {
				continue
			}
			// apply the fault with the longer path first so that list indices stay valid
			a, bb := f1, f2
			if len(a.p) < len(bb.p) {
				a, bb = bb, a
			}
			d, ok := apply(b, a, bb)
			if !ok {
				continue
			}
			pairs++
			c.try(d, f1.String()+" + "+f2.String(), false)
		}
	}
	c.smp.Offer(fs[10].String() + " + " + fs[40].String())
	if tier == "thorough" {
		// triples over the value faults (not the structural ones) of distinct top-level sections
		var sem []fault
		for _, f := range fs {
			switch f.name {
			case "delete", "null", "empty", "as-list", "as-map", "as-scalar", "empty-map", "empty-list":
			default:
				sem = append(sem, f)
			}
		}
		for i := range sem {
			for j := i + 1; j < len(sem); j++ {
				for k := j + 1; k < len(sem); k++ {
					if sem[i].p.String() == sem[j].p.String() || sem[j].p.String() == sem[k].p.String() || sem[i].p.String() == sem[k].p.String() {
						continue
					}
					d, ok := apply(b, sem[i], sem[j], sem[k])
					if ok {
						c.try(d, sem[i].String()+" + "+sem[j].String()+" + "+sem[k].String(), false)
					}
				}
			}
		}
	}
	run.Set("config_documents", c.evals)
	run.Set("config_single_faults", len(fs))
	run.Set("config_fault_pairs", pairs)
	run.Set("config_accepted", c.accepted)
	run.Set("config_rejected", c.rejected)
	run.Set("config_statement_silent_accepted", c.silentN)
	return c.evals, c.nontr.Len(), c.smp.List()
}

// VersionHalf is provided by the package that owns the simulated gtp5g endpoint.
var VersionHalf func(run *evid.Run, tier string) (evals int64, distinct int, samples []interface{})

func Run(tier string) {
	run := evid.NewRun("C20", tier)
	ev, di, smp := RunConfig(run, tier)
	if VersionHalf == nil {
		evid.Infra("C20: version half not linked")
	}
	ev2, di2, smp2 := VersionHalf(run, tier)
	run.Set("evaluations", ev+ev2)
	run.Set("distinct_nontrivial", di+di2)
	run.Set("samples", append(smp, smp2...))
	run.Set("exhaustive", true)
	run.Set("rule", "configuration: one valid document, every single fault (delete / null / empty / wrong YAML type / out-of-range replacement) at every path and every pair of single faults (thorough: triples of value faults), plus benign variations that must stay accepted; each distinct YAML text counted once. version: every x.y.z of the stated grid answered by the simulated gtp5g GET_VERSION, through the real Gtp5g.checkVersion")
	run.Set("bound", "single and pairwise faults exhaustive (the property's 'multiple faults randomly' is replaced by complete pairs); node ids limited to IPv4 literals and localhost (no DNS in the sandbox)")
	run.Assumption("the reference predicate in harness/internal/verif/c20 transcribes the property statement; documents it is silent about (no ifList / dnnList at all, a DNN entry without a name, a negative timeout) are enumerated but not judged")
	run.Finish()
}
