//go:build verif

// Package smf: the simulated control-plane peer. wire.go is a small independent PFCP decoder
// (TS 29.244 clause 7.2.2 header, clause 8.1 IE format); it shares no code with go-pfcp or go-upf.
package smf

import (
	"encoding/binary"
	"fmt"
	"net"
	"sort"
	"time"
)

// IE type numbers (TS 29.244 table 8.1.2-1)
const (
	TCreatePDR    = 1
	TPDI          = 2
	TCreateFAR    = 3
	TForwParams   = 4
	TCreateURR    = 6
	TCreateQER    = 7
	TCreatedPDR   = 8
	TUpdatePDR    = 9
	TUpdateFAR    = 10
	TUpdForwParam = 11
	TUpdateURR    = 13
	TUpdateQER    = 14
	TRemovePDR    = 15
	TRemoveFAR    = 16
	TRemoveURR    = 17
	TRemoveQER    = 18
	TCause        = 19
	TReportType   = 39
	TPDRID        = 56
	TFSEID        = 57
	TNodeID       = 60
	TUsageTrigger = 63
	TVolumeMeas   = 66
	TDurationMeas = 67
	TStartTime    = 75
	TEndTime      = 76
	TQueryURR     = 77
	TURModRsp     = 78
	TURDelRsp     = 79
	TURRepReq     = 80
	TURRID        = 81
	TDLDataReport = 83
	TCreateBAR    = 85
	TUpdateBAR    = 86
	TRemoveBAR    = 87
	TBARID        = 88
	TUEIPAddress  = 93
	TRecoveryTS   = 96
	TURSEQN       = 104
)

// message types
const (
	MHeartbeatReq = 1
	MHeartbeatRsp = 2
	MAssocReq     = 5
	MAssocRsp     = 6
	MEstReq       = 50
	MEstRsp       = 51
	MModReq       = 52
	MModRsp       = 53
	MDelReq       = 54
	MDelRsp       = 55
	MReportReq    = 56
	MReportRsp    = 57
)

const (
	CauseAccepted        = 1
	CauseContextNotFound = 65
)

type IE struct {
	Type    uint16
	Payload []byte
}

type Msg struct {
	Type    uint8
	HasSEID bool
	SEID    uint64
	Seq     uint32
	IEs     []IE
	Raw     []byte
}

func ParseIEs(b []byte) ([]IE, error) {
	var out []IE
	for len(b) > 0 {
		if len(b) < 4 {
			return out, fmt.Errorf("truncated IE header")
		}
		t := binary.BigEndian.Uint16(b)
		l := int(binary.BigEndian.Uint16(b[2:]))
		if 4+l > len(b) {
			return out, fmt.Errorf("IE %d length %d exceeds %d", t, l, len(b)-4)
		}
		p := b[4 : 4+l]
		if t&0x8000 != 0 { // enterprise-specific: 2-octet enterprise id first
			if len(p) < 2 {
				return out, fmt.Errorf("enterprise IE too short")
			}
			p = p[2:]
		}
		out = append(out, IE{Type: t, Payload: p})
		b = b[4+l:]
	}
	return out, nil
}

func Parse(b []byte) (*Msg, error) {
	if len(b) < 8 {
		return nil, fmt.Errorf("short PFCP message (%d)", len(b))
	}
	if v := b[0] >> 5; v != 1 {
		return nil, fmt.Errorf("PFCP version %d", v)
	}
	m := &Msg{Type: b[1], HasSEID: b[0]&1 != 0, Raw: b}
	l := int(binary.BigEndian.Uint16(b[2:4]))
	if l+4 != len(b) {
		return nil, fmt.Errorf("length field %d, datagram %d", l, len(b))
	}
	off := 4
	if m.HasSEID {
		if len(b) < 16 {
			return nil, fmt.Errorf("short PFCP session message")
		}
		m.SEID = binary.BigEndian.Uint64(b[4:12])
		off = 12
	}
	m.Seq = uint32(b[off])<<16 | uint32(b[off+1])<<8 | uint32(b[off+2])
	off += 4
	ies, err := ParseIEs(b[off:])
	m.IEs = ies
	return m, err
}

func (m *Msg) Find(t uint16) []IE {
	var out []IE
	for _, i := range m.IEs {
		if i.Type == t {
			out = append(out, i)
		}
	}
	return out
}

func (i IE) Children() []IE {
	c, _ := ParseIEs(i.Payload)
	return c
}

func (i IE) Child(t uint16) (IE, bool) {
	for _, c := range i.Children() {
		if c.Type == t {
			return c, true
		}
	}
	return IE{}, false
}

// Cause returns the cause value, 0 if absent.
func (m *Msg) Cause() uint8 {
	for _, i := range m.Find(TCause) {
		if len(i.Payload) >= 1 {
			return i.Payload[0]
		}
	}
	return 0
}

// NodeID returns the node id as text ("" if absent).
func (m *Msg) NodeID() string {
	for _, i := range m.Find(TNodeID) {
		p := i.Payload
		if len(p) < 1 {
			return ""
		}
		switch p[0] & 0x0f {
		case 0:
			if len(p) >= 5 {
				return net.IP(p[1:5]).String()
			}
		case 1:
			if len(p) >= 17 {
				return net.IP(p[1:17]).String()
			}
		case 2: // FQDN: DNS label encoding
			s := ""
			q := p[1:]
			for len(q) > 0 {
				n := int(q[0])
				if n == 0 || 1+n > len(q) {
					break
				}
				if s != "" {
					s += "."
				}
				s += string(q[1 : 1+n])
				q = q[1+n:]
			}
			return s
		}
	}
	return ""
}

// FSEID returns (seid, ipv4, present).
func (m *Msg) FSEID() (uint64, net.IP, bool) {
	for _, i := range m.Find(TFSEID) {
		p := i.Payload
		if len(p) < 9 {
			return 0, nil, false
		}
		seid := binary.BigEndian.Uint64(p[1:9])
		var ip net.IP
		if p[0]&0x02 != 0 && len(p) >= 13 {
			ip = net.IP(p[9:13])
		}
		return seid, ip, true
	}
	return 0, nil, false
}

// RecoveryTS returns the raw 4-octet NTP seconds value.
func (m *Msg) RecoveryTS() (uint32, bool) {
	for _, i := range m.Find(TRecoveryTS) {
		if len(i.Payload) >= 4 {
			return binary.BigEndian.Uint32(i.Payload), true
		}
	}
	return 0, false
}

type CreatedPDR struct {
	ID   uint16
	UEIP net.IP
}

func (m *Msg) CreatedPDRs() []CreatedPDR {
	var out []CreatedPDR
	for _, i := range m.Find(TCreatedPDR) {
		var c CreatedPDR
		if x, ok := i.Child(TPDRID); ok && len(x.Payload) >= 2 {
			c.ID = binary.BigEndian.Uint16(x.Payload)
		}
		if x, ok := i.Child(TUEIPAddress); ok && len(x.Payload) >= 5 && x.Payload[0]&0x02 != 0 {
			c.UEIP = net.IP(x.Payload[1:5])
		}
		out = append(out, c)
	}
	return out
}

// UsageReport as decoded by the simulated SMF.
type UsageReport struct {
	Carrier uint16 // IE type of the usage report (78 mod rsp, 79 del rsp, 80 report req)
	URRID   uint32
	SEQN    uint32
	HasSEQN bool
	Trigger uint32 // octets 5..7 little-endian
	HasVol  bool
	VolFlag uint8
	Vol     [6]uint64 // total, ul, dl volume; total, ul, dl packets
	HasDur  bool
	Dur     uint32
	HasTime bool
	Start   uint32 // NTP seconds
	End     uint32
}

const ntpOffset = 2208988800

func NTP(t time.Time) uint32 { return uint32(t.Unix() + ntpOffset) }

func (m *Msg) UsageReports() []UsageReport {
	var out []UsageReport
	for _, i := range m.IEs {
		if i.Type != TURModRsp && i.Type != TURDelRsp && i.Type != TURRepReq {
			continue
		}
		u := UsageReport{Carrier: i.Type}
		for _, c := range i.Children() {
			p := c.Payload
			switch c.Type {
			case TURRID:
				if len(p) >= 4 {
					u.URRID = binary.BigEndian.Uint32(p)
				}
			case TURSEQN:
				if len(p) >= 4 {
					u.SEQN = binary.BigEndian.Uint32(p)
					u.HasSEQN = true
				}
			case TUsageTrigger:
				for k := 0; k < len(p) && k < 3; k++ {
					u.Trigger |= uint32(p[k]) << (8 * k)
				}
			case TVolumeMeas:
				if len(p) >= 1 {
					u.HasVol = true
					u.VolFlag = p[0]
					off := 1
					for k := 0; k < 6; k++ {
						if p[0]&(1<<k) != 0 && off+8 <= len(p) {
							u.Vol[k] = binary.BigEndian.Uint64(p[off:])
							off += 8
						}
					}
				}
			case TDurationMeas:
				u.HasDur = true
				if len(p) >= 4 {
					u.Dur = binary.BigEndian.Uint32(p)
				}
			case TStartTime:
				if len(p) >= 4 {
					u.HasTime = true
					u.Start = binary.BigEndian.Uint32(p)
				}
			case TEndTime:
				if len(p) >= 4 {
					u.End = binary.BigEndian.Uint32(p)
				}
			}
		}
		out = append(out, u)
	}
	return out
}

// DLDRs returns the PDR ids of Downlink Data Report IEs.
func (m *Msg) DLDRs() []uint16 {
	var out []uint16
	for _, i := range m.Find(TDLDataReport) {
		if x, ok := i.Child(TPDRID); ok && len(x.Payload) >= 2 {
			out = append(out, binary.BigEndian.Uint16(x.Payload))
		}
	}
	return out
}

func (m *Msg) String() string { return m.StringL(nil) }

// StringL renders the message with UP SEIDs replaced by logical labels and usage reports sorted
// (their order inside one message follows Go map iteration in the implementation).
func (m *Msg) StringL(lab func(uint64) string) string {
	normalise := lab != nil
	if lab == nil {
		lab = func(x uint64) string { return fmt.Sprintf("%#x", x) }
	}
	s := fmt.Sprintf("type=%d seq=%d", m.Type, m.Seq)
	if normalise && m.Type == MReportReq {
		// the order in which one tick's reports are forwarded follows Go map iteration: the wire sequence
		// numbers of UPF-initiated requests are not part of a normalised observation
		s = fmt.Sprintf("type=%d seq=*", m.Type)
	}
	if m.HasSEID {
		s += fmt.Sprintf(" seid=%#x", m.SEID)
	}
	if c := m.Cause(); c != 0 {
		s += fmt.Sprintf(" cause=%d", c)
	}
	if f, _, ok := m.FSEID(); ok {
		s += " fseid=" + lab(f)
	}
	var urs []string
	for _, u := range m.UsageReports() {
		urs = append(urs, fmt.Sprintf(" UR{urr=%d seqn=%d trig=%#x}", u.URRID, u.SEQN, u.Trigger))
	}
	sort.Strings(urs)
	for _, u := range urs {
		s += u
	}
	for _, d := range m.DLDRs() {
		s += fmt.Sprintf(" DLDR{pdr=%d}", d)
	}
	for _, c := range m.CreatedPDRs() {
		s += fmt.Sprintf(" CreatedPDR{%d %v}", c.ID, c.UEIP)
	}
	return s
}
