//go:build verif

package smf

// Request builders of the simulated SMF (go-pfcp constructors: the library every free5GC SMF uses).

import (
	"net"
	"time"

	"github.com/wmnsk/go-pfcp/ie"
	"github.com/wmnsk/go-pfcp/message"
)

// RuleOp is one Create/Update/Remove/Query IE of a session request.
type RuleOp struct {
	Verb byte // 'C' create, 'U' update, 'R' remove, 'Q' query
	Kind byte // 'P' PDR, 'F' FAR, 'Q' QER, 'U' URR, 'B' BAR
	ID   uint32

	// PDR
	URRs     []uint32
	NoURRs   bool // (unused marker: URRs == nil means no URR ID IE)
	QERs     []uint32
	FAR      uint32
	UEIP     string // UE IPv4 address inside the PDI ("" = none)
	SrcIf    uint8
	PDIFirst bool // Create PDR: the PDI child is encoded before the PDR ID (child order is free in TS 29.244)
	// FAR
	Action      []byte // apply-action octets (nil = omit in updates; create default FORW)
	TEID        uint32
	Peer        string // outer header creation peer IPv4 ("" = no forwarding parameters)
	ActionFirst bool
	// URR
	Trig   []byte // reporting-trigger octets (nil: create default VOLTH)
	Period uint32 // measurement period in seconds (0 = omit)
	Method uint8  // bit0 DURAT, bit1 VOLUM, bit2 EVENT (create default VOLUM)
	MInfo  int    // measurement information octet, -1 = omit
	// QER
	QFI uint8
}

func (o RuleOp) IE() *ie.IE {
	switch o.Kind {
	case 'P':
		switch o.Verb {
		case 'C', 'U':
			var c []*ie.IE
			c = append(c, ie.NewPDRID(uint16(o.ID)))
			if o.Verb == 'C' {
				c = append(c, ie.NewPrecedence(255))
				pdi := []*ie.IE{ie.NewSourceInterface(o.SrcIf)}
				if o.UEIP != "" {
					pdi = append(pdi, ie.NewUEIPAddress(2, o.UEIP, "", 0, 0))
				}
				c = append(c, ie.NewPDI(pdi...))
			}
			if o.FAR != 0 {
				c = append(c, ie.NewFARID(o.FAR))
			}
			for _, q := range o.QERs {
				c = append(c, ie.NewQERID(q))
			}
			for _, u := range o.URRs {
				c = append(c, ie.NewURRID(u))
			}
			if o.Verb == 'C' {
				if o.PDIFirst && len(c) >= 3 {
					c[0], c[2] = c[2], c[0] // PDR ID <-> PDI
				}
				return ie.NewCreatePDR(c...)
			}
			return ie.NewUpdatePDR(c...)
		case 'R':
			return ie.NewRemovePDR(ie.NewPDRID(uint16(o.ID)))
		}
	case 'F':
		switch o.Verb {
		case 'C', 'U':
			var c []*ie.IE
			act := o.Action
			if act == nil && o.Verb == 'C' {
				act = []byte{0x02}
			}
			if o.ActionFirst && act != nil {
				c = append(c, ie.NewApplyAction(act...))
			}
			c = append(c, ie.NewFARID(o.ID))
			if !o.ActionFirst && act != nil {
				c = append(c, ie.NewApplyAction(act...))
			}
			if o.Peer != "" {
				fp := []*ie.IE{ie.NewDestinationInterface(ie.DstInterfaceAccess),
					ie.NewOuterHeaderCreation(0x0100, o.TEID, o.Peer, "", 0, 0, 0)}
				if o.Verb == 'C' {
					c = append(c, ie.NewForwardingParameters(fp...))
				} else {
					c = append(c, ie.NewUpdateForwardingParameters(fp...))
				}
			}
			if o.Verb == 'C' {
				return ie.NewCreateFAR(c...)
			}
			return ie.NewUpdateFAR(c...)
		case 'R':
			return ie.NewRemoveFAR(ie.NewFARID(o.ID))
		}
	case 'Q':
		switch o.Verb {
		case 'C', 'U':
			c := []*ie.IE{ie.NewQERID(o.ID), ie.NewGateStatus(0, 0)}
			if o.QFI != 0 {
				c = append(c, ie.NewQFI(o.QFI))
			}
			if o.Verb == 'C' {
				return ie.NewCreateQER(c...)
			}
			return ie.NewUpdateQER(c...)
		case 'R':
			return ie.NewRemoveQER(ie.NewQERID(o.ID))
		}
	case 'U':
		switch o.Verb {
		case 'C', 'U':
			c := []*ie.IE{ie.NewURRID(o.ID)}
			m := o.Method
			if m == 0 && o.Verb == 'C' {
				m = 2
			}
			if m != 0 {
				c = append(c, ie.NewMeasurementMethod(int(m>>2&1), int(m>>1&1), int(m&1)))
			}
			tr := o.Trig
			if tr == nil && o.Verb == 'C' {
				tr = []byte{0x02, 0x00}
			}
			if tr != nil {
				c = append(c, ie.NewReportingTriggers(tr...))
			}
			if o.Period != 0 {
				c = append(c, ie.NewMeasurementPeriod(time.Duration(o.Period)*time.Second))
			}
			if o.MInfo >= 0 {
				c = append(c, ie.NewMeasurementInformation(uint8(o.MInfo)))
			}
			if o.Verb == 'C' {
				return ie.NewCreateURR(c...)
			}
			return ie.NewUpdateURR(c...)
		case 'R':
			return ie.NewRemoveURR(ie.NewURRID(o.ID))
		case 'Q':
			return ie.NewQueryURR(ie.NewURRID(o.ID))
		}
	case 'B':
		switch o.Verb {
		case 'C':
			return ie.NewCreateBAR(ie.NewBARID(uint8(o.ID)))
		case 'U':
			return ie.NewUpdateBARWithinSessionModificationRequest(ie.NewBARID(uint8(o.ID)), ie.NewDownlinkDataNotificationDelay(100*time.Millisecond))
		case 'R':
			return ie.NewRemoveBAR(ie.NewBARID(uint8(o.ID)))
		}
	}
	panic("smf: bad RuleOp " + string([]byte{o.Verb, o.Kind}))
}

func marshal(m message.Message) []byte {
	b := make([]byte, m.MarshalLen())
	if err := m.MarshalTo(b); err != nil {
		panic(err)
	}
	return b
}

func nodeIE(id string) *ie.IE {
	if ip := net.ParseIP(id); ip != nil && ip.To4() != nil {
		return ie.NewNodeID(id, "", "")
	}
	return ie.NewNodeID("", "", id)
}

func Heartbeat(seq uint32) []byte {
	return marshal(message.NewHeartbeatRequest(seq, ie.NewRecoveryTimeStamp(time.Unix(1600000000, 0)), nil))
}

// Assoc builds an Association Setup Request; nodeID "" omits the Node ID IE.
func Assoc(seq uint32, nodeID string) []byte {
	ies := []*ie.IE{ie.NewRecoveryTimeStamp(time.Unix(1600000000, 0))}
	if nodeID != "" {
		ies = append([]*ie.IE{nodeIE(nodeID)}, ies...)
	}
	return marshal(message.NewAssociationSetupRequest(seq, ies...))
}

// Est builds a Session Establishment Request. nodeID "" omits Node ID; withFSEID false omits CP F-SEID.
func Est(seq uint32, nodeID string, withFSEID bool, cpSEID uint64, cpIP string, ops ...RuleOp) []byte {
	var ies []*ie.IE
	if nodeID != "" {
		ies = append(ies, nodeIE(nodeID))
	}
	if withFSEID {
		ies = append(ies, ie.NewFSEID(cpSEID, net.ParseIP(cpIP).To4(), nil))
	}
	for _, o := range ops {
		ies = append(ies, o.IE())
	}
	return marshal(message.NewSessionEstablishmentRequest(0, 0, 0, seq, 0, ies...))
}

// Mod builds a Session Modification Request; takeover "" omits the Node ID IE.
func Mod(seq uint32, seid uint64, takeover string, ops ...RuleOp) []byte {
	var ies []*ie.IE
	if takeover != "" {
		ies = append(ies, nodeIE(takeover))
	}
	for _, o := range ops {
		ies = append(ies, o.IE())
	}
	return marshal(message.NewSessionModificationRequest(0, 0, seid, seq, 0, ies...))
}

// ModRawNode is Mod with a Node ID IE of the given raw payload (e.g. an undecodable one).
func ModRawNode(seq uint32, seid uint64, node []byte, ops ...RuleOp) []byte {
	ies := []*ie.IE{ie.New(ie.NodeID, node)}
	for _, o := range ops {
		ies = append(ies, o.IE())
	}
	return marshal(message.NewSessionModificationRequest(0, 0, seid, seq, 0, ies...))
}

func Del(seq uint32, seid uint64) []byte {
	return marshal(message.NewSessionDeletionRequest(0, 0, seid, seq, 0))
}

// ReportRsp builds a Session Report Response with the given header SEID.
func ReportRsp(seq uint32, seid uint64, cause uint8) []byte {
	return marshal(message.NewSessionReportResponse(0, 0, seid, seq, 0, ie.NewCause(cause)))
}
