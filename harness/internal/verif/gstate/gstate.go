//go:build verif

// Package gstate: wait states of goroutines read from a stop-the-world runtime.Stack dump.
package gstate

import (
	"bytes"
	"runtime"
	"strings"
)

var buf = make([]byte, 512<<10)

func Dump() []byte {
	for {
		n := runtime.Stack(buf, true)
		if n < len(buf) {
			return buf[:n]
		}
		buf = make([]byte, 2*len(buf))
	}
}

func header(g []byte) (id, st string) {
	if !bytes.HasPrefix(g, []byte("goroutine ")) {
		return "", ""
	}
	a := bytes.IndexByte(g, '[')
	b := bytes.IndexByte(g, ']')
	if a < 0 || b < a {
		return "", "unknown"
	}
	id = string(bytes.TrimSpace(g[len("goroutine "):a]))
	st = string(g[a+1 : b])
	if i := strings.IndexByte(st, ','); i >= 0 {
		st = st[:i]
	}
	return id, st
}

// Find returns id and state of the first goroutine whose stack contains fn ("", "gone" if none).
func Find(dump []byte, fn string) (id, st string) {
	for _, g := range bytes.Split(dump, []byte("\n\n")) {
		if bytes.Contains(g, []byte(fn)) {
			return header(g)
		}
	}
	return "", "gone"
}

// StateOf returns the state of goroutine id ("gone" if it no longer exists).
func StateOf(dump []byte, gid string) string {
	for _, g := range bytes.Split(dump, []byte("\n\n")) {
		if id, st := header(g); id == gid {
			return st
		}
	}
	return "gone"
}

// Count returns how many goroutines have fn in their stack.
func Count(dump []byte, fn string) int {
	n := 0
	for _, g := range bytes.Split(dump, []byte("\n\n")) {
		if bytes.Contains(g, []byte(fn)) {
			n++
		}
	}
	return n
}

// Top returns the wait state of goroutine gid and the first function on its stack that is not a runtime
// function ("gone", "" if the goroutine no longer exists). "chan receive" alone is ambiguous: a goroutine may
// be parked in its own idle receive or deep inside a call (e.g. waiting for a netlink reply).
func Top(dump []byte, gid string) (st, fn string) {
	for _, g := range bytes.Split(dump, []byte("\n\n")) {
		id, s := header(g)
		if id != gid {
			continue
		}
		lines := bytes.Split(g, []byte("\n"))
		for _, l := range lines[1:] {
			if len(l) == 0 || l[0] == '\t' {
				continue
			}
			if bytes.HasPrefix(l, []byte("runtime.")) {
				continue
			}
			return s, string(l)
		}
		return s, ""
	}
	return "gone", ""
}
