//go:build verif

package xlate

import (
	"fmt"
	"sort"
	"time"

	"github.com/wmnsk/go-pfcp/ie"

	"github.com/free5gc/go-upf/internal/verif/evid"
	"github.com/free5gc/go-upf/internal/verif/nlw"
	"github.com/free5gc/go-upf/internal/verif/simk"
)

// ---- QER ----------------------------------------------------------------------------------------------

type qerSpec struct {
	update bool
	seid   uint64
	id     uint32
	corr   *uint32
	gate   *uint8 // IE octet: bits 3-4 UL gate, bits 1-2 DL gate
	mbr    *[2]uint64
	gbr    *[2]uint64
	qfi    *uint8
	rqi    *uint8
	ppi    *uint8
}

func (s qerSpec) children() []*ie.IE {
	c := []*ie.IE{ie.NewQERID(s.id)}
	if s.corr != nil {
		c = append(c, ie.NewQERCorrelationID(*s.corr))
	}
	if s.gate != nil {
		c = append(c, ie.NewGateStatus(*s.gate>>2&3, *s.gate&3))
	}
	if s.mbr != nil {
		c = append(c, ie.NewMBR(s.mbr[0], s.mbr[1]))
	}
	if s.gbr != nil {
		c = append(c, ie.NewGBR(s.gbr[0], s.gbr[1]))
	}
	if s.qfi != nil {
		c = append(c, ie.NewQFI(*s.qfi))
	}
	if s.rqi != nil {
		c = append(c, ie.NewRQI(*s.rqi))
	}
	if s.ppi != nil {
		c = append(c, ie.NewPagingPolicyIndicator(*s.ppi))
	}
	return c
}

func head(cmd uint8, update bool, seid uint64, id uint32) []string {
	out := []string{fmt.Sprintf("CMD=%d", cmd), "LINK=ok", fmt.Sprintf("ID=%d", id), fmt.Sprintf("SEID=%#x", seid)}
	if update {
		return append(out, "MODE=update(REPLACE)")
	}
	return append(out, "MODE=create(EXCL)")
}

func (s qerSpec) expect() []string {
	out := head(simk.CmdAddQER, s.update, s.seid, s.id)
	if s.corr != nil {
		out = append(out, fmt.Sprintf("CORR_ID=%d", *s.corr))
	}
	if s.gate != nil {
		out = append(out, fmt.Sprintf("GATE=%d", *s.gate))
	}
	if s.mbr != nil {
		out = append(out, fmt.Sprintf("MBR=UL=%d DL=%d", s.mbr[0], s.mbr[1]))
	}
	if s.gbr != nil {
		out = append(out, fmt.Sprintf("GBR=UL=%d DL=%d", s.gbr[0], s.gbr[1]))
	}
	if s.qfi != nil {
		out = append(out, fmt.Sprintf("QFI=%d", *s.qfi))
	}
	if s.rqi != nil {
		out = append(out, fmt.Sprintf("RQI=%d", *s.rqi))
	}
	if s.ppi != nil {
		out = append(out, fmt.Sprintf("PPI=%d", *s.ppi))
	}
	sort.Strings(out)
	return out
}

func (s qerSpec) String() string {
	d := fmt.Sprintf("seid=%#x id=%#x", s.seid, s.id)
	if s.corr != nil {
		d += fmt.Sprintf(" corr=%#x", *s.corr)
	}
	if s.gate != nil {
		d += fmt.Sprintf(" gate=%#x", *s.gate)
	}
	if s.mbr != nil {
		d += fmt.Sprintf(" mbr=%#x/%#x", s.mbr[0], s.mbr[1])
	}
	if s.gbr != nil {
		d += fmt.Sprintf(" gbr=%#x/%#x", s.gbr[0], s.gbr[1])
	}
	if s.qfi != nil {
		d += fmt.Sprintf(" qfi=%d", *s.qfi)
	}
	if s.rqi != nil {
		d += fmt.Sprintf(" rqi=%d", *s.rqi)
	}
	if s.ppi != nil {
		d += fmt.Sprintf(" ppi=%d", *s.ppi)
	}
	return d
}

func (c *checker) qer(s qerSpec, order []int, note string) {
	ch := s.children()
	if order != nil {
		ch = permute(ch, order)
		c.orderN++
	}
	what, mk, f := "CreateQER", ie.NewCreateQER, c.w.G.CreateQER
	if s.update {
		what, mk, f = "UpdateQER", ie.NewUpdateQER, c.w.G.UpdateQER
	}
	c.judge(what, 'Q', s.seid, s.id, s.update, mk(ch...), s.expect(), fmt.Sprintf("%s order=%v %s", s, order, note), f)
}

func baseQER(update bool) qerSpec {
	return qerSpec{update: update, seid: seids[0], id: 0x31323334, corr: u32p(0x91929394), gate: u8p(0x06),
		mbr: &[2]uint64{0x0102030405, 0x1112131415}, gbr: &[2]uint64{0x2122232425, 0x3132333435}, qfi: u8p(37), rqi: u8p(1), ppi: u8p(5)}
}

var rates = []uint64{0, 1, 255, 256, 1<<32 - 1, 1 << 32, 1<<40 - 1, 0x0102030405}

func (c *checker) allQER(thorough bool) {
	for _, update := range []bool{false, true} {
		for m := 0; m < 128; m++ { // every presence subset of the 7 optional children
			s := baseQER(update)
			if m&1 == 0 {
				s.corr = nil
			}
			if m&2 == 0 {
				s.gate = nil
			}
			if m&4 == 0 {
				s.mbr = nil
			}
			if m&8 == 0 {
				s.gbr = nil
			}
			if m&16 == 0 {
				s.qfi = nil
			}
			if m&32 == 0 {
				s.rqi = nil
			}
			if m&64 == 0 {
				s.ppi = nil
			}
			c.qer(s, nil, "")
		}
		full := baseQER(update)
		for _, o := range orders(len(full.children()), 5) {
			c.qer(full, o, "")
		}
		small := qerSpec{update: update, seid: seids[0], id: 3, gate: u8p(0), mbr: &[2]uint64{0x0102030405, 0x1112131415}, gbr: &[2]uint64{0x2122232425, 0x3132333435}, qfi: u8p(9)}
		for _, o := range orders(len(small.children()), 5) { // 5 children: all 120 permutations
			c.qer(small, o, "")
		}
		for g := 0; g < 16; g++ {
			s := baseQER(update)
			s.gate = u8p(uint8(g))
			c.qer(s, nil, "gate")
		}
		for _, ul := range rates {
			for _, dl := range rates {
				if ul == dl && ul != 0 {
					continue
				}
				s := baseQER(update)
				s.mbr = &[2]uint64{ul, dl}
				c.qer(s, nil, "mbr")
				s = baseQER(update)
				s.gbr = &[2]uint64{ul, dl}
				c.qer(s, nil, "gbr")
			}
		}
		for q := 0; q < 64; q++ {
			s := baseQER(update)
			s.qfi = u8p(uint8(q))
			c.qer(s, nil, "qfi")
		}
		for _, v := range []uint8{0, 1} {
			s := baseQER(update)
			s.rqi = u8p(v)
			c.qer(s, nil, "rqi")
		}
		for v := 0; v < 8; v++ {
			s := baseQER(update)
			s.ppi = u8p(uint8(v))
			c.qer(s, nil, "ppi")
		}
		for _, v := range []uint32{0, 1, 0xfffffffe, 0xffffffff, 0x00010000} {
			s := baseQER(update)
			s.id = v
			c.qer(s, nil, "id")
			s = baseQER(update)
			s.corr = u32p(v)
			c.qer(s, nil, "corr")
		}
		for _, v := range seids {
			s := baseQER(update)
			s.seid = v
			c.qer(s, nil, "seid")
		}
		if thorough {
			// every order of all eight children
			for _, o := range orders(len(full.children()), 8) {
				c.qer(full, o, "")
			}
			// every presence subset under three more orders (reversed, rotated, interleaved)
			for m := 0; m < 128; m++ {
				s := baseQER(update)
				if m&1 == 0 {
					s.corr = nil
				}
				if m&2 == 0 {
					s.gate = nil
				}
				if m&4 == 0 {
					s.mbr = nil
				}
				if m&8 == 0 {
					s.gbr = nil
				}
				if m&16 == 0 {
					s.qfi = nil
				}
				if m&32 == 0 {
					s.rqi = nil
				}
				if m&64 == 0 {
					s.ppi = nil
				}
				n := len(s.children())
				rev, rot := make([]int, n), make([]int, n)
				for i := 0; i < n; i++ {
					rev[i], rot[i] = n-1-i, (i+1)%n
				}
				c.qer(s, rev, "")
				c.qer(s, rot, "")
			}
			// bit rates: 2^k-1, 2^k, 2^k+1 for every k up to 40 against a fixed partner on either side, and the
			// full product of the 24 byte-boundary values
			var wide, bnd []uint64
			for k := uint(0); k <= 40; k++ {
				for _, d := range []int64{-1, 0, 1} {
					v := int64(1)<<k + d
					if v >= 0 && uint64(v) < 1<<40 {
						wide = append(wide, uint64(v))
					}
				}
			}
			for k := uint(0); k <= 40; k += 8 {
				for _, d := range []int64{-1, 0, 1, 0x55} {
					v := int64(1)<<k + d
					if v >= 0 && uint64(v) < 1<<40 {
						bnd = append(bnd, uint64(v))
					}
				}
			}
			for _, v := range wide {
				for _, side := range []int{0, 1} {
					p := [2]uint64{0x0102030405, 0x0102030405}
					p[side] = v
					s := baseQER(update)
					s.mbr = &[2]uint64{p[0], p[1]}
					c.qer(s, nil, "mbr-wide")
					s = baseQER(update)
					s.gbr = &[2]uint64{p[0], p[1]}
					c.qer(s, nil, "gbr-wide")
				}
			}
			for _, ul := range bnd {
				for _, dl := range bnd {
					s := baseQER(update)
					s.mbr = &[2]uint64{ul, dl}
					s.gbr = &[2]uint64{dl ^ 1, ul ^ 1}
					c.qer(s, nil, "mbr-gbr-product")
				}
			}
			// QFI x RQI x PPI x gate
			for q := 0; q < 64; q++ {
				for r := 0; r < 2; r++ {
					for pp := 0; pp < 8; pp++ {
						s := baseQER(update)
						s.qfi, s.rqi, s.ppi, s.gate = u8p(uint8(q)), u8p(uint8(r)), u8p(uint8(pp)), u8p(uint8((q+pp)&15))
						c.qer(s, nil, "qfi-rqi-ppi-gate")
					}
				}
			}
		}
	}
}

// ---- URR ----------------------------------------------------------------------------------------------

type volSpec struct {
	flags   uint8
	t, u, d uint64
}

type urrSpec struct {
	update bool
	seid   uint64
	id     uint32
	method *uint8 // bit0 DURAT bit1 VOLUM bit2 EVENT
	trig   []byte
	period uint32 // seconds, 0 = absent
	minfo  *uint8
	volth  *volSpec
	volqu  *volSpec
}

func (s urrSpec) children() []*ie.IE {
	c := []*ie.IE{ie.NewURRID(s.id)}
	if s.method != nil {
		c = append(c, ie.NewMeasurementMethod(int(*s.method>>2&1), int(*s.method>>1&1), int(*s.method&1)))
	}
	if s.trig != nil {
		c = append(c, ie.NewReportingTriggers(s.trig...))
	}
	if s.period != 0 {
		c = append(c, ie.NewMeasurementPeriod(time.Duration(s.period)*time.Second))
	}
	if s.minfo != nil {
		c = append(c, ie.NewMeasurementInformation(*s.minfo))
	}
	if s.volth != nil {
		c = append(c, ie.NewVolumeThreshold(s.volth.flags, s.volth.t, s.volth.u, s.volth.d))
	}
	if s.volqu != nil {
		c = append(c, ie.NewVolumeQuota(s.volqu.flags, s.volqu.t, s.volqu.u, s.volqu.d))
	}
	return c
}

func volLines(name string, v *volSpec) []string {
	out := []string{fmt.Sprintf("%s.FLAG=%d", name, v.flags)}
	if v.flags&1 != 0 {
		out = append(out, fmt.Sprintf("%s.TOVOL=%d", name, v.t))
	}
	if v.flags&2 != 0 {
		out = append(out, fmt.Sprintf("%s.UVOL=%d", name, v.u))
	}
	if v.flags&4 != 0 {
		out = append(out, fmt.Sprintf("%s.DVOL=%d", name, v.d))
	}
	return out
}

func (s urrSpec) expect() []string {
	out := head(simk.CmdAddURR, s.update, s.seid, s.id)
	if s.method != nil {
		out = append(out, fmt.Sprintf("MEASUREMENT_METHOD=%d", *s.method))
	}
	if s.trig != nil {
		var w uint32
		for i, b := range s.trig {
			if i < 3 {
				w |= uint32(b) << (8 * i)
			}
		}
		out = append(out, fmt.Sprintf("REPORTING_TRIGGER=%d", w))
	}
	if s.minfo != nil {
		out = append(out, fmt.Sprintf("MEASUREMENT_INFO=%d", *s.minfo))
	}
	if s.volth != nil {
		out = append(out, volLines("VOLUME_THRESHOLD", s.volth)...)
	}
	if s.volqu != nil {
		out = append(out, volLines("VOLUME_QUOTA", s.volqu)...)
	}
	sort.Strings(out)
	return out
}

func (s urrSpec) String() string {
	d := fmt.Sprintf("seid=%#x id=%#x trig=% x period=%d", s.seid, s.id, s.trig, s.period)
	if s.method != nil {
		d += fmt.Sprintf(" method=%#x", *s.method)
	}
	if s.minfo != nil {
		d += fmt.Sprintf(" minfo=%#x", *s.minfo)
	}
	if s.volth != nil {
		d += fmt.Sprintf(" volth=%+v", *s.volth)
	}
	if s.volqu != nil {
		d += fmt.Sprintf(" volqu=%+v", *s.volqu)
	}
	return d
}

func (c *checker) urr(s urrSpec, order []int, note string) {
	ch := s.children()
	if order != nil {
		ch = permute(ch, order)
		c.orderN++
	}
	if s.update {
		f := func(seid uint64, i *ie.IE) error { _, err := c.w.G.UpdateURR(seid, i); return err }
		c.judge("UpdateURR", 'U', s.seid, s.id, true, ie.NewUpdateURR(ch...), s.expect(), fmt.Sprintf("%s order=%v %s", s, order, note), f)
		return
	}
	c.judge("CreateURR", 'U', s.seid, s.id, false, ie.NewCreateURR(ch...), s.expect(), fmt.Sprintf("%s order=%v %s", s, order, note), c.w.G.CreateURR)
}

func baseURR(update bool) urrSpec {
	return urrSpec{update: update, seid: seids[0], id: 0x41424344, method: u8p(2), trig: []byte{0x02, 0x01, 0x00}, minfo: u8p(0x10),
		volth: &volSpec{7, 0x0102030405060708, 0x1112131415161718, 0x2122232425262728},
		volqu: &volSpec{7, 0x3132333435363738, 0x4142434445464748, 0x5152535455565758}}
}

var vols = []uint64{0, 1, 1<<32 - 1, 1 << 32, 1 << 63, 1<<64 - 1, 0x0102030405060708}

func (c *checker) allURR(thorough bool) {
	for _, update := range []bool{false, true} {
		for m := 0; m < 32; m++ { // presence subsets of method, triggers(with/without), minfo, threshold, quota
			s := baseURR(update)
			if m&1 == 0 {
				s.method = nil
			}
			if m&2 == 0 {
				s.trig = nil
			}
			if m&4 == 0 {
				s.minfo = nil
			}
			if m&8 == 0 {
				s.volth = nil
			}
			if m&16 == 0 {
				s.volqu = nil
			}
			c.urr(s, nil, "")
		}
		full := baseURR(update)
		for _, o := range orders(len(full.children()), 6) { // 6 children: all 720 permutations
			c.urr(full, o, "")
		}
		for mth := 0; mth < 8; mth++ {
			s := baseURR(update)
			s.method = u8p(uint8(mth))
			c.urr(s, nil, "method")
		}
		// reporting triggers (PERIO excluded here: registration is judged separately): 2- and 3-octet forms
		for bit := 1; bit < 24; bit++ {
			w := uint32(1) << bit
			s := baseURR(update)
			s.trig = []byte{byte(w), byte(w >> 8), byte(w >> 16)}
			c.urr(s, nil, "trigger-bit")
			if bit < 16 {
				s.trig = []byte{byte(w), byte(w >> 8)}
				c.urr(s, nil, "trigger-bit-2octets")
			}
		}
		for _, w := range []uint32{0, 0xfffffe, 0x03fffe, 0x010204} {
			s := baseURR(update)
			s.trig = []byte{byte(w), byte(w >> 8), byte(w >> 16)}
			c.urr(s, nil, "trigger-word")
		}
		for bit := 0; bit < 8; bit++ {
			s := baseURR(update)
			s.minfo = u8p(1 << bit)
			c.urr(s, nil, "minfo-bit")
		}
		for fl := 1; fl < 8; fl++ { // a threshold/quota IE carries at least one volume (TS 29.244 8.2.13/8.2.50)
			for _, v := range vols {
				s := baseURR(update)
				s.volth = &volSpec{uint8(fl), v, v ^ 0x1111, v ^ 0x2222}
				c.urr(s, nil, "threshold")
				s = baseURR(update)
				s.volqu = &volSpec{uint8(fl), v, v ^ 0x1111, v ^ 0x2222}
				c.urr(s, nil, "quota")
			}
		}
		for _, v := range []uint32{0, 1, 0xfffffffe, 0xffffffff, 0x00010000} {
			s := baseURR(update)
			s.id = v
			c.urr(s, nil, "id")
		}
		for _, v := range seids {
			s := baseURR(update)
			s.seid = v
			c.urr(s, nil, "seid")
		}
		if thorough {
			// every subset of the first trigger octet (PERIO excluded), every pair of bits over all three octets
			for w := 0; w < 256; w += 2 {
				s := baseURR(update)
				s.trig = []byte{byte(w), 0, 0}
				c.urr(s, nil, "trigger-octet1-subset")
				s.trig = []byte{byte(w), 0}
				c.urr(s, nil, "trigger-octet1-subset-2octets")
			}
			for a := 1; a < 24; a++ {
				for b := a + 1; b < 24; b++ {
					w := uint32(1)<<a | uint32(1)<<b
					s := baseURR(update)
					s.trig = []byte{byte(w), byte(w >> 8), byte(w >> 16)}
					c.urr(s, nil, "trigger-bit-pair")
				}
			}
			// measurement information: all 256 octets; method x measurement information
			for v := 0; v < 256; v++ {
				for mth := 0; mth < 8; mth += 7 {
					s := baseURR(update)
					s.minfo, s.method = u8p(uint8(v)), u8p(uint8(mth))
					c.urr(s, nil, "minfo-octet")
				}
			}
			// thresholds and quotas together: every flag subset pair x independent 64-bit boundary values
			wide := []uint64{0, 1, 0xff, 0x100, 0xffff, 0x10000, 0xffffffff, 0x100000000, 0x7fffffffffffffff, 0x8000000000000000, 0xfffffffffffffffe, 0xffffffffffffffff}
			for ft := 1; ft < 8; ft++ {
				for fq := 1; fq < 8; fq++ {
					for i, v := range wide {
						s := baseURR(update)
						s.volth = &volSpec{uint8(ft), v, wide[(i+3)%len(wide)], wide[(i+7)%len(wide)]}
						s.volqu = &volSpec{uint8(fq), wide[(i+5)%len(wide)], v, wide[(i+1)%len(wide)]}
						c.urr(s, nil, "threshold+quota")
					}
				}
			}
			// presence subsets under reversed and rotated child order
			for m := 0; m < 32; m++ {
				s := baseURR(update)
				if m&1 == 0 {
					s.method = nil
				}
				if m&2 == 0 {
					s.trig = nil
				}
				if m&4 == 0 {
					s.minfo = nil
				}
				if m&8 == 0 {
					s.volth = nil
				}
				if m&16 == 0 {
					s.volqu = nil
				}
				n := len(s.children())
				rev, rot := make([]int, n), make([]int, n)
				for i := 0; i < n; i++ {
					rev[i], rot[i] = n-1-i, (i+1)%n
				}
				c.urr(s, rev, "")
				c.urr(s, rot, "")
			}
		}
	}
}

// ---- BAR ----------------------------------------------------------------------------------------------

type barSpec struct {
	update bool
	seid   uint64
	id     uint8
	delay  *uint8 // IE octet: multiples of 50 ms
	count  *uint8
}

func (s barSpec) children() []*ie.IE {
	c := []*ie.IE{ie.NewBARID(s.id)}
	if s.delay != nil {
		c = append(c, ie.NewDownlinkDataNotificationDelay(time.Duration(*s.delay)*50*time.Millisecond))
	}
	if s.count != nil {
		c = append(c, ie.NewSuggestedBufferingPacketsCount(*s.count))
	}
	return c
}

func (s barSpec) expect() []string {
	out := head(simk.CmdAddBAR, s.update, s.seid, uint32(s.id))
	if s.delay != nil {
		out = append(out, fmt.Sprintf("DOWNLINK_DATA_NOTIFICATION_DELAY=%d", *s.delay))
	}
	if s.count != nil {
		out = append(out, fmt.Sprintf("BUFFERING_PACKETS_COUNT=%d", *s.count))
	}
	sort.Strings(out)
	return out
}

func (c *checker) bar(s barSpec, order []int, note string) {
	ch := s.children()
	if order != nil {
		ch = permute(ch, order)
		c.orderN++
	}
	d := fmt.Sprintf("seid=%#x id=%d", s.seid, s.id)
	if s.delay != nil {
		d += fmt.Sprintf(" delay=%d x 50ms", *s.delay)
	}
	if s.count != nil {
		d += fmt.Sprintf(" count=%d", *s.count)
	}
	d += fmt.Sprintf(" order=%v %s", order, note)
	if s.update {
		c.judge("UpdateBAR", 'B', s.seid, uint32(s.id), true, ie.NewUpdateBARWithinSessionModificationRequest(ch...), s.expect(), d, c.w.G.UpdateBAR)
		return
	}
	c.judge("CreateBAR", 'B', s.seid, uint32(s.id), false, ie.NewCreateBAR(ch...), s.expect(), d, c.w.G.CreateBAR)
}

func (c *checker) allBAR() {
	for _, update := range []bool{false, true} {
		for m := 0; m < 4; m++ {
			s := barSpec{update: update, seid: seids[0], id: 0x71}
			if m&1 != 0 {
				s.delay = u8p(3)
			}
			if m&2 != 0 {
				s.count = u8p(0x21)
			}
			for _, o := range orders(len(s.children()), 5) {
				c.bar(s, o, "")
			}
		}
		for v := 0; v < 256; v++ {
			c.bar(barSpec{update: update, seid: seids[0], id: 0x71, delay: u8p(uint8(v)), count: u8p(0x21)}, nil, "delay")
			c.bar(barSpec{update: update, seid: seids[0], id: 0x71, delay: u8p(3), count: u8p(uint8(v))}, nil, "count")
			c.bar(barSpec{update: update, seid: seids[0], id: uint8(v), delay: u8p(3), count: u8p(0x21)}, nil, "id")
		}
		for _, v := range seids {
			c.bar(barSpec{update: update, seid: v, id: 0x71, delay: u8p(3), count: u8p(0x21)}, nil, "seid")
		}
	}
}

var perms4 = func() [][]int {
	var out [][]int
	var rec func(cur []int, used int)
	rec = func(cur []int, used int) {
		if len(cur) == 4 {
			out = append(out, append([]int{}, cur...))
			return
		}
		for i := 0; i < 4; i++ {
			if used&(1<<i) == 0 {
				rec(append(cur, i), used|1<<i)
			}
		}
	}
	rec(nil, 0)
	return out
}()

// ---- periodic registration -------------------------------------------------------------------------------

// queried posts one tick of the period to the real periodic server and returns the (seid, urr) pairs the
// simulated kernel was asked for in GET_MULTI_REPORTS requests.
func (c *checker) queried(period time.Duration) map[[2]uint64]bool { return c.w.Queried(period) }

// Queried posts one tick of the period to the real periodic server and returns the (seid, urr) pairs the
// simulated kernel was asked for in GET_MULTI_REPORTS requests.
func (w *World) Queried(period time.Duration) map[[2]uint64]bool {
	c := struct{ w *World }{w}
	c.w.K.TakeLog()
	ps := c.w.G.VPerio()
	ps.VTick(period)
	if alive, st := ps.VQuiesce(&c.w.gid); !alive || st == "stuck" {
		evid.Infra("periodic server not quiescent (%v %s)", alive, st)
	}
	out := map[[2]uint64]bool{}
	for _, r := range c.w.K.TakeLog() {
		if r.Cmd != simk.CmdGetMultiReports {
			continue
		}
		for _, a := range nlw.Find(r.Attrs, 11) {
			ch := a.Children()
			ida, _ := nlw.One(ch, 3)
			sa, _ := nlw.One(ch, 8)
			id, _ := ida.U32()
			seid, _ := sa.U64()
			out[[2]uint64{seid, uint64(id)}] = true
		}
	}
	c.w.sink.take()
	return out
}

func (c *checker) perio() {
	P1, P2 := 3600*time.Second, 7200*time.Second
	seid := uint64(0x0102030405060708)
	rep := func(sig, what string, r map[string]interface{}) {
		c.run.Report(evid.Violation{Signature: "C03:" + sig, Engine: "E2-shapes", Scenario: "periodic-registration", What: what, Replay: r})
	}
	wait := func() {
		if alive, st := c.w.G.VPerio().VQuiesce(&c.w.gid); !alive || st == "stuck" {
			evid.Infra("periodic server not quiescent (%v %s)", alive, st)
		}
	}
	id := uint32(100)
	// Create URR: registered under its period iff the triggers include PERIO
	for _, form := range []int{2, 3} {
		for other := -1; other < 24; other++ {
			for _, perio := range []bool{true, false} {
				if other == 0 {
					continue
				}
				var w uint32
				if perio {
					w |= 1
				}
				if other > 0 {
					w |= 1 << other
				}
				if form == 2 && other >= 16 {
					continue
				}
				// the registration must not depend on the order of the child IEs: PERIO alone (and no PERIO) under all 24
				// orders of the four children, the other trigger combinations in the constructors' order
				orders := [][]int{{0, 1, 2, 3}}
				if other == -1 && form == 2 {
					orders = perms4
				}
				for _, order := range orders {
					id++
					c.evals++
					c.w.K.Reset()
					tr := []byte{byte(w), byte(w >> 8), byte(w >> 16)}[:form]
					base := []*ie.IE{ie.NewURRID(id), ie.NewMeasurementMethod(0, 1, 0), ie.NewReportingTriggers(tr...), ie.NewMeasurementPeriod(P1)}
					ch := make([]*ie.IE, len(base))
					for i, j := range order {
						ch[i] = base[j]
					}
					desc := map[string]interface{}{"op": "CreateURR", "triggers": fmt.Sprintf("% x", tr), "period_s": 3600, "child_order(0=URRID,1=Method,2=Triggers,3=Period)": fmt.Sprint(order)}
					c.nontr.Add(fmt.Sprint("perio", desc))
					if err := c.w.G.CreateURR(seid, ie.NewCreateURR(ch...)); err != nil {
						rep("perio:create-error", fmt.Sprintf("CreateURR with triggers % x failed: %v", tr, err), desc)
						continue
					}
					wait()
					q1, q2 := c.queried(P1), c.queried(P2)
					k := [2]uint64{seid, uint64(id)}
					if q1[k] != perio {
						rep(fmt.Sprintf("perio:create-registration:perio=%v", perio), fmt.Sprintf("URR with triggers % x (PERIO=%v, period 3600s): queried on a tick of its period = %v", tr, perio, q1[k]), desc)
					}
					if q2[k] {
						rep("perio:create-wrong-period", fmt.Sprintf("URR with period 3600s queried on a tick of period 7200s"), desc)
					}
					// removal unregisters
					if _, err := c.w.G.RemoveURR(seid, ie.NewRemoveURR(ie.NewURRID(id))); err != nil {
						rep("perio:remove-error", fmt.Sprintf("RemoveURR: %v", err), desc)
					}
					wait()
					if c.queried(P1)[k] {
						rep("perio:remove-keeps-registration", "a removed URR is still queried on a tick of its period", desc)
					}
				}
			}
		}
	}
	// Several sessions sharing a period: removing one session's periodic URR must leave the others registered
	{
		c.w.K.Reset()
		c.evals++
		a, b := seids[0], seids[1]
		ida, idb1, idb2 := id+1, id+2, id+3
		id += 3
		desc := map[string]interface{}{"op": "CreateURR x3 then RemoveURR", "sessions": fmt.Sprintf("%#x: urr %d; %#x: urr %d,%d", a, ida, b, idb1, idb2), "period_s": 3600}
		c.nontr.Add(fmt.Sprint("perio-shared", desc))
		mk := func(u uint32) *ie.IE {
			return ie.NewCreateURR(ie.NewURRID(u), ie.NewMeasurementMethod(0, 1, 0), ie.NewReportingTriggers(0x01, 0x00), ie.NewMeasurementPeriod(P1))
		}
		ok := true
		for _, x := range []struct {
			s uint64
			u uint32
		}{{a, ida}, {b, idb1}, {b, idb2}} {
			if err := c.w.G.CreateURR(x.s, mk(x.u)); err != nil {
				rep("perio:create-error", err.Error(), desc)
				ok = false
			}
		}
		if ok {
			wait()
			q := c.queried(P1)
			for _, k := range [][2]uint64{{a, uint64(ida)}, {b, uint64(idb1)}, {b, uint64(idb2)}} {
				if !q[k] {
					rep("perio:shared-period-registration", fmt.Sprintf("three periodic URRs of two sessions share a period: (%#x, %d) is not queried on its tick", k[0], k[1]), desc)
				}
			}
			if _, err := c.w.G.RemoveURR(a, ie.NewRemoveURR(ie.NewURRID(ida))); err != nil {
				rep("perio:remove-error", err.Error(), desc)
			}
			wait()
			q = c.queried(P1)
			if q[[2]uint64{a, uint64(ida)}] {
				rep("perio:remove-keeps-registration", "a removed URR is still queried on a tick of its period", desc)
			}
			for _, k := range [][2]uint64{{b, uint64(idb1)}, {b, uint64(idb2)}} {
				if !q[k] {
					rep("perio:removal-unregisters-others", fmt.Sprintf("after the only periodic URR of session %#x was removed, (%#x, %d) of the other session is no longer queried on the tick of the shared period", a, k[0], k[1]), desc)
				}
			}
			if _, err := c.w.G.RemoveURR(b, ie.NewRemoveURR(ie.NewURRID(idb1))); err != nil {
				rep("perio:remove-error", err.Error(), desc)
			}
			wait()
			q = c.queried(P1)
			if !q[[2]uint64{b, uint64(idb2)}] || q[[2]uint64{b, uint64(idb1)}] {
				rep("perio:removal-unregisters-others", "after one of two periodic URRs of a session was removed, the tick does not query exactly the remaining one", desc)
			}
		}
	}
	c.evals += int64(RemovalUnregisters(c.w, func(sig, what string, r map[string]interface{}) { rep(sig, what, r) }))
	// Update URR: the registration follows the triggers of the update
	for _, before := range []bool{false, true} {
		for _, after := range []bool{false, true} {
			id++
			c.evals++
			c.w.K.Reset()
			tb, ta := []byte{0x02, 0x00}, []byte{0x02, 0x00}
			if before {
				tb[0] |= 1
			}
			if after {
				ta[0] |= 1
			}
			desc := map[string]interface{}{"op": "CreateURR then UpdateURR", "triggers_before": fmt.Sprintf("% x", tb), "triggers_after": fmt.Sprintf("% x", ta)}
			c.nontr.Add(fmt.Sprint("perio-update", desc))
			if err := c.w.G.CreateURR(seid, ie.NewCreateURR(ie.NewURRID(id), ie.NewMeasurementMethod(0, 1, 0), ie.NewReportingTriggers(tb...), ie.NewMeasurementPeriod(P1))); err != nil {
				rep("perio:create-error", err.Error(), desc)
				continue
			}
			wait()
			if _, err := c.w.G.UpdateURR(seid, ie.NewUpdateURR(ie.NewURRID(id), ie.NewReportingTriggers(ta...), ie.NewMeasurementPeriod(P1))); err != nil {
				rep("perio:update-error", err.Error(), desc)
				continue
			}
			wait()
			k := [2]uint64{seid, uint64(id)}
			if got := c.queried(P1)[k]; got != after {
				rep("update-urr-perio-registration", fmt.Sprintf("Update URR changing the PERIO trigger %v -> %v: URR queried on a tick of its period = %v (want %v)", before, after, got, after), desc)
			}
			_, _ = c.w.G.RemoveURR(seid, ie.NewRemoveURR(ie.NewURRID(id)))
			wait()
		}
	}
}

// RunC03 is the check entry point.
func RunC03(tier string) {
	run := evid.NewRun("C03", tier)
	w := NewWorld()
	c := &checker{prop: "C03", run: run, w: w}
	c.allQER(tier == "thorough")
	c.smp.Offer(baseQER(false).String())
	c.allURR(tier == "thorough")
	c.smp.Offer(baseURR(true).String())
	c.allBAR()
	c.smp.Offer("BAR seid=0x102030405060708 id=113 delay=3 x 50ms count=33")
	c.perio()
	c.smp.Offer("CreateURR triggers 03 00 period 3600s, tick(3600s), tick(7200s), RemoveURR, tick(3600s)")
	w.Close()
	run.Set("evaluations", c.evals)
	run.Set("distinct_nontrivial", c.nontr.Len())
	run.Set("order_variants", c.orderN)
	run.Set("rule", "Create/Update QER, URR, BAR grouped IEs: every presence subset of the optional children, child orders (all permutations up to 5/6 children, reversal + adjacent transpositions beyond), all 16 gate values, MBR/GBR over all UL != DL pairs of {0,1,255,256,2^32-1,2^32,2^40-1,0x0102030405}, QFI 0..63, every reporting-trigger bit in 2- and 3-octet form, every threshold/quota flag subset x 64-bit boundary values, BAR delay/count/id 0..255; thorough adds all 40320 orders of the eight QER children, 2^k-1/2^k/2^k+1 bit rates for every k<=40 and a 24x24 MBR x GBR product, QFI x RQI x PPI, every subset of the first trigger octet and every pair of trigger bits, all 256 measurement-information octets, threshold x quota flag-subset pairs over a 12-value 64-bit set; periodic registration: Create URR with PERIO x every other single trigger bit x 2/3-octet form (PERIO alone and no trigger under all 24 orders of the four child IEs), tick of its period and of another period read from the simulated kernel's GET_MULTI_REPORTS requests, removal, three URRs of two sessions sharing a period with removals in between, and the four Update URR transitions of the PERIO bit; every evaluated shape is distinct")
	run.Set("exhaustive", true)
	run.Set("samples", c.smp.List())
	run.Set("bound", "value alphabets are boundary sets; the netlink measurement-period attribute is not compared (not in the property's list)")
	run.Assumption("the attribute schema in harness/internal/verif/xlate/canon.go transcribes the gtp5g UAPI; BAR delay is compared in the IE's unit (multiples of 50 ms, one octet)")
	run.Assumption("ticks are injected events (real tickers run with periods of an hour and more)")
	run.Finish()
}

// RemovalUnregisters: URR removal always unregisters the URR from periodic reporting - also when the data plane no
// longer knows the URR (it answers the removal with ENOENT): two periodic URRs of one session and one of another
// share a period; one of them is dropped from the simulated kernel out of band and then removed through the
// driver (Remove URR, or as part of the removal of all of a session's URRs); the next tick must query exactly the
// others. fail(sig, what, replay) reports; returns the number of evaluated cases.
func RemovalUnregisters(w *World, fail func(sig, what string, replay map[string]interface{})) (evals int) {
	P1 := 3600 * time.Second
	a, b := uint64(0x21), uint64(0x22)
	id := uint32(7000)
	wait := func() {
		if alive, st := w.G.VPerio().VQuiesce(&w.gid); !alive || st == "stuck" {
			evid.Infra("periodic server not quiescent (%v %s)", alive, st)
		}
	}
	mk := func(u uint32) *ie.IE {
		return ie.NewCreateURR(ie.NewURRID(u), ie.NewMeasurementMethod(0, 1, 0), ie.NewReportingTriggers(0x01, 0x00), ie.NewMeasurementPeriod(P1))
	}
	for _, lost := range []bool{false, true} {
		for victim := 0; victim < 3; victim++ {
			evals++
			w.K.Reset()
			us := []struct {
				s uint64
				u uint32
			}{{a, id + 1}, {a, id + 2}, {b, id + 3}}
			id += 3
			desc := map[string]interface{}{"op": "CreateURR x3 (one period), RemoveURR of one", "removed": fmt.Sprintf("(%#x, %d)", us[victim].s, us[victim].u),
				"data_plane_lost_the_urr_before": lost}
			ok := true
			for _, x := range us {
				if err := w.G.CreateURR(x.s, mk(x.u)); err != nil {
					fail("perio:create-error", err.Error(), desc)
					ok = false
				}
			}
			if !ok {
				continue
			}
			wait()
			v := us[victim]
			if lost {
				w.K.Drop(simk.Key{SEID: v.s, Kind: 'U', ID: v.u})
			}
			_, err := w.G.RemoveURR(v.s, ie.NewRemoveURR(ie.NewURRID(v.u)))
			if lost && err == nil {
				evid.Infra("simulated kernel answered the removal of a dropped URR without an error")
			}
			wait()
			q := w.Queried(P1)
			for i, x := range us {
				k := [2]uint64{x.s, uint64(x.u)}
				if i == victim && q[k] {
					fail(fmt.Sprintf("perio:remove-keeps-registration:lost=%v", lost), fmt.Sprintf("URR (%#x, %d) was removed (data plane had lost it before: %v, driver answered %v) but is still queried on the tick of its period", x.s, x.u, lost, err), desc)
				}
				if i != victim && !q[k] {
					fail(fmt.Sprintf("perio:removal-unregisters-others:lost=%v", lost), fmt.Sprintf("after the removal of (%#x, %d), (%#x, %d) is no longer queried on the tick of the shared period", v.s, v.u, x.s, x.u), desc)
				}
			}
			for i, x := range us {
				if i != victim {
					_, _ = w.G.RemoveURR(x.s, ie.NewRemoveURR(ie.NewURRID(x.u)))
				}
			}
			wait()
			q = w.Queried(P1)
			for _, x := range us {
				if q[[2]uint64{x.s, uint64(x.u)}] {
					fail("perio:remove-keeps-registration:all", fmt.Sprintf("all three periodic URRs removed, a tick still queries (%#x, %d)", x.s, x.u), desc)
				}
			}
		}
	}
	return
}

// CreateRegisters: a Create URR with the periodic trigger is registered under its period whatever the order of its
// child IEs (all 24 orders of URR ID, Measurement Method, Reporting Triggers, Measurement Period; child order is
// free in TS 29.244), and one without the trigger is not. Returns the number of evaluated cases.
func CreateRegisters(w *World, fail func(sig, what string, replay map[string]interface{})) (evals int) {
	P1, P2 := 3600*time.Second, 7200*time.Second
	seid := uint64(0x31)
	id := uint32(7500)
	wait := func() {
		if alive, st := w.G.VPerio().VQuiesce(&w.gid); !alive || st == "stuck" {
			evid.Infra("periodic server not quiescent (%v %s)", alive, st)
		}
	}
	for _, perio := range []bool{true, false} {
		for _, order := range perms4 {
			evals++
			id++
			w.K.Reset()
			tr := []byte{0x02, 0x00}
			if perio {
				tr[0] |= 0x01
			}
			base := []*ie.IE{ie.NewURRID(id), ie.NewMeasurementMethod(0, 1, 0), ie.NewReportingTriggers(tr...), ie.NewMeasurementPeriod(P1)}
			ch := make([]*ie.IE, len(base))
			for i, j := range order {
				ch[i] = base[j]
			}
			desc := map[string]interface{}{"op": "CreateURR", "triggers": fmt.Sprintf("% x", tr), "period_s": 3600, "child_order(0=URRID,1=Method,2=Triggers,3=Period)": fmt.Sprint(order)}
			if err := w.G.CreateURR(seid, ie.NewCreateURR(ch...)); err != nil {
				fail("perio:create-error", fmt.Sprintf("CreateURR failed: %v", err), desc)
				continue
			}
			wait()
			q1, q2 := w.Queried(P1), w.Queried(P2)
			k := [2]uint64{seid, uint64(id)}
			if q1[k] != perio {
				fail(fmt.Sprintf("perio:create-registration:perio=%v", perio), fmt.Sprintf("URR created with triggers % x (PERIO=%v, period 3600 s, child order %v): queried on a tick of its period = %v", tr, perio, order, q1[k]), desc)
			}
			if q2[k] {
				fail("perio:create-wrong-period", "URR with period 3600 s queried on a tick of period 7200 s", desc)
			}
			for u := range q1 {
				if u != k && u[0] == seid {
					fail("perio:create-registers-other-urr", fmt.Sprintf("creating URR %d registered (%#x, %d)", id, u[0], u[1]), desc)
				}
			}
			_, _ = w.G.RemoveURR(seid, ie.NewRemoveURR(ie.NewURRID(id)))
			wait()
		}
	}
	return
}
