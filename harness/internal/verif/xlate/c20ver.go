//go:build verif

package xlate

import (
	"fmt"

	"github.com/free5gc/go-upf/internal/verif/c20"
	"github.com/free5gc/go-upf/internal/verif/evid"
)

// The version half of C20: the real Gtp5g.checkVersion against the simulated kernel's GET_VERSION answer.
func init() {
	c20.VersionHalf = func(run *evid.Run, tier string) (int64, int, []interface{}) {
		w := NewWorld()
		defer w.Close()
		var n int64
		var smp []interface{}
		try := func(v string, x, y, z int) {
			n++
			w.K.Version = v
			err := w.G.VCheckVersion()
			// 0.9.5 <= v < 0.10.0 by numeric component comparison
			ge := x > 0 || (x == 0 && (y > 9 || (y == 9 && z >= 5)))
			lt := x == 0 && y < 10
			want := ge && lt
			if (err == nil) != want {
				verdict := "rejected"
				if err == nil {
					verdict = "accepted"
				}
				side := "below-0.9.5"
				if ge {
					side = "at-or-above-0.10.0"
				}
				if want {
					side = "inside-window"
				}
				run.Report(evid.Violation{Signature: "C20:version-window:" + side, Engine: "E2-shapes", Scenario: "gtp5g-version",
					What:   fmt.Sprintf("gtp5g module version %s was %s (err=%v); the forwarder may start only against 0.9.5 <= v < 0.10.0", v, verdict, err),
					Replay: map[string]interface{}{"version": v}})
			}
		}
		for _, x := range []int{0, 1} {
			for _, y := range []int{8, 9, 10, 11} {
				for _, z := range []int{0, 4, 5, 6, 99} {
					try(fmt.Sprintf("%d.%d.%d", x, y, z), x, y, z)
				}
			}
		}
		try("0.9.5", 0, 9, 5)
		try("0.10.0", 0, 10, 0)
		try("0.9.10", 0, 9, 10)
		try("0.9.49", 0, 9, 49)
		try("v0.9.5", 0, 9, 5)
		smp = append(smp, "gtp5g version 0.9.4 / 0.9.5 / 0.9.99 / 0.10.0 / 1.9.5")
		run.Set("version_strings", n)
		return n, int(n), smp
	}
}
