//go:build verif

package xlate

import (
	"fmt"
	"net"
	"sort"
	"strings"
	"sync"
	"time"

	"github.com/khirono/go-nl"
	"github.com/wmnsk/go-pfcp/ie"

	"github.com/free5gc/go-upf/internal/forwarder"
	"github.com/free5gc/go-upf/internal/pfcp"
	"github.com/free5gc/go-upf/internal/report"
	"github.com/free5gc/go-upf/internal/verif/c16"
	"github.com/free5gc/go-upf/internal/verif/evid"
	"github.com/free5gc/go-upf/internal/verif/netx"
	"github.com/free5gc/go-upf/internal/verif/simk"
)

// ---- the translation world -----------------------------------------------------------------------------

type sink struct {
	mu sync.Mutex
	rs []report.SessReport
}

func (s *sink) NotifySessReport(r report.SessReport) {
	s.mu.Lock()
	s.rs = append(s.rs, r)
	s.mu.Unlock()
}
func (s *sink) PopBufPkt(uint64, uint16) ([]byte, bool) { return nil, false }
func (s *sink) take() []report.SessReport {
	s.mu.Lock()
	defer s.mu.Unlock()
	r := s.rs
	s.rs = nil
	return r
}

type World struct {
	K    *simk.Kernel
	G    *forwarder.Gtp5g
	wg   sync.WaitGroup
	sink *sink
	gid  string
	udp  *net.UDPConn
}

func NewWorld() *World {
	pfcp.VQuietLog()
	w := &World{K: simk.New(), sink: &sink{}}
	blk := netx.Get()
	udp, err := net.ListenUDP("udp4", &net.UDPAddr{IP: blk.IP(1), Port: 0})
	if err != nil {
		evid.Infra("bind: %v", err)
	}
	w.udp = udp
	g, err := forwarder.VNewGtp5g(&w.wg, func() nl.Conner { return w.K.NewConn() }, int(w.K.FamilyID), int(w.K.LinkIndex), udp)
	if err != nil {
		evid.Infra("cannot assemble the gtp5g driver around the simulated kernel: %v", err)
	}
	w.G = g
	g.HandleReport(w.sink)
	return w
}

func (w *World) Close() {
	w.G.Close()
	w.K.CloseAll()
	done := make(chan struct{})
	go func() { w.wg.Wait(); close(done) }()
	select {
	case <-done:
	case <-time.After(10 * time.Second):
	}
}

// ---- order variants --------------------------------------------------------------------------------------

// orders returns the child orders tried for n children: all permutations for n <= limit, else identity,
// reversal and every adjacent transposition.
func orders(n, limit int) [][]int {
	id := make([]int, n)
	for i := range id {
		id[i] = i
	}
	if n <= 1 {
		return [][]int{id}
	}
	if n <= limit {
		var out [][]int
		var rec func(k int)
		p := append([]int{}, id...)
		rec = func(k int) {
			if k == n {
				out = append(out, append([]int{}, p...))
				return
			}
			for i := k; i < n; i++ {
				p[k], p[i] = p[i], p[k]
				rec(k + 1)
				p[k], p[i] = p[i], p[k]
			}
		}
		rec(0)
		return out
	}
	out := [][]int{id}
	rev := make([]int, n)
	for i := range rev {
		rev[i] = n - 1 - i
	}
	out = append(out, rev)
	for i := 0; i+1 < n; i++ {
		t := append([]int{}, id...)
		t[i], t[i+1] = t[i+1], t[i]
		out = append(out, t)
	}
	return out
}

func permute(c []*ie.IE, o []int) []*ie.IE {
	out := make([]*ie.IE, len(c))
	for i, k := range o {
		out[i] = c[k]
	}
	return out
}

// ---- specs -----------------------------------------------------------------------------------------------

type sdfSpec struct {
	fd  string
	fid uint32
}

type pdrSpec struct {
	update  bool
	seid    uint64
	id      uint16
	prec    *uint32
	noPDI   bool
	srcIf   uint8
	fteid   *[2]uint32 // teid, ipv4 as number
	ueip    *uint32
	netinst bool
	sdf     []sdfSpec
	ohr     *uint8
	far     *uint32
	qers    []uint32
	urrs    []uint32
}

func ip4(v uint32) net.IP { return net.IPv4(byte(v>>24), byte(v>>16), byte(v>>8), byte(v)).To4() }

func (s pdrSpec) pdiChildren() []*ie.IE {
	c := []*ie.IE{ie.NewSourceInterface(s.srcIf)}
	if s.fteid != nil {
		c = append(c, ie.NewFTEID(0x01, s.fteid[0], ip4(s.fteid[1]), nil, 0))
	}
	if s.netinst {
		c = append(c, ie.NewNetworkInstance("internet"))
	}
	if s.ueip != nil {
		c = append(c, ie.NewUEIPAddress(0x02, ip4(*s.ueip).String(), "", 0, 0))
	}
	for _, f := range s.sdf {
		c = append(c, ie.NewSDFFilter(f.fd, "", "", "", f.fid))
	}
	return c
}

func (s pdrSpec) children(pdiOrder []int) []*ie.IE {
	c := []*ie.IE{ie.NewPDRID(s.id)}
	if s.prec != nil {
		c = append(c, ie.NewPrecedence(*s.prec))
	}
	if !s.noPDI {
		pc := s.pdiChildren()
		if pdiOrder != nil {
			pc = permute(pc, pdiOrder)
		}
		c = append(c, ie.NewPDI(pc...))
	}
	if s.ohr != nil {
		c = append(c, ie.NewOuterHeaderRemoval(*s.ohr, 0))
	}
	if s.far != nil {
		c = append(c, ie.NewFARID(*s.far))
	}
	for _, q := range s.qers {
		c = append(c, ie.NewQERID(q))
	}
	for _, u := range s.urrs {
		c = append(c, ie.NewURRID(u))
	}
	return c
}

func list32(name string, l []uint32) string {
	var s []string
	for _, v := range l {
		s = append(s, fmt.Sprint(v))
	}
	sort.Strings(s)
	return name + "=[" + strings.Join(s, ",") + "]"
}

func (s pdrSpec) expect() []string {
	out := []string{fmt.Sprintf("CMD=%d", simk.CmdAddPDR), "LINK=ok", fmt.Sprintf("ID=%d", s.id), fmt.Sprintf("SEID=%#x", s.seid)}
	if s.update {
		out = append(out, "MODE=update(REPLACE)")
	} else {
		out = append(out, "MODE=create(EXCL)")
	}
	if s.prec != nil {
		out = append(out, fmt.Sprintf("PRECEDENCE=%d", *s.prec))
	}
	if !s.noPDI {
		out = append(out, fmt.Sprintf("PDI.SRC_INTF=%d", s.srcIf))
		if s.fteid != nil {
			out = append(out, fmt.Sprintf("PDI.F_TEID.I_TEID=%d", s.fteid[0]), "PDI.F_TEID.GTPU_ADDR_IPV4="+ip4(s.fteid[1]).String())
		}
		if s.ueip != nil {
			out = append(out, "PDI.UE_ADDR_IPV4="+ip4(*s.ueip).String())
		}
		if len(s.sdf) > 0 {
			var l []string
			for _, f := range s.sdf {
				ref, ok := c16.RefParse(f.fd)
				if !ok {
					evid.Infra("bad flow description in shape: %q", f.fd)
				}
				want := *ref
				if s.srcIf == 0 { // Access: uplink, source and destination exchanged
					want = c16.Swapped(want)
				}
				sub := []string{"FLOW_DESCRIPTION=" + want.String()}
				if f.fid != 0 {
					sub = append(sub, fmt.Sprintf("SDF_FILTER_ID=%d", f.fid))
				}
				sort.Strings(sub)
				l = append(l, "{"+strings.Join(sub, " ")+"}")
			}
			sort.Strings(l)
			out = append(out, "PDI.SDF_FILTER=["+strings.Join(l, ",")+"]")
		}
	}
	if s.ohr != nil {
		out = append(out, fmt.Sprintf("OUTER_HEADER_REMOVAL=%d", *s.ohr))
	}
	if s.far != nil {
		out = append(out, fmt.Sprintf("FAR_ID=%d", *s.far))
	}
	if len(s.qers) > 0 {
		out = append(out, list32("QER_ID", s.qers))
	}
	if len(s.urrs) > 0 {
		out = append(out, list32("URR_ID", s.urrs))
	}
	sort.Strings(out)
	return out
}

type ohcSpec struct {
	desc uint16
	teid uint32
	ip   uint32
	port uint16
}

type farSpec struct {
	update      bool
	seid        uint64
	id          uint32
	action      []byte
	fp          bool
	ohc         *ohcSpec
	policy      *string
	netinst     bool
	bar         *uint8
	actionFirst bool
}

func (s farSpec) fpChildren() []*ie.IE {
	c := []*ie.IE{ie.NewDestinationInterface(ie.DstInterfaceAccess)}
	if s.netinst {
		c = append(c, ie.NewNetworkInstance("internet"))
	}
	if s.ohc != nil {
		c = append(c, ie.NewOuterHeaderCreation(s.ohc.desc, s.ohc.teid, ip4(s.ohc.ip).String(), "", s.ohc.port, 0, 0))
	}
	if s.policy != nil {
		c = append(c, ie.NewForwardingPolicy(*s.policy))
	}
	return c
}

func (s farSpec) children(fpOrder []int) []*ie.IE {
	c := []*ie.IE{ie.NewFARID(s.id)}
	if s.action != nil {
		c = append(c, ie.NewApplyAction(s.action...))
	}
	if s.fp {
		fc := s.fpChildren()
		if fpOrder != nil {
			fc = permute(fc, fpOrder)
		}
		if s.update {
			c = append(c, ie.NewUpdateForwardingParameters(fc...))
		} else {
			c = append(c, ie.NewForwardingParameters(fc...))
		}
	}
	if s.bar != nil {
		c = append(c, ie.NewBARID(*s.bar))
	}
	return c
}

func (s farSpec) expect() []string {
	out := []string{fmt.Sprintf("CMD=%d", simk.CmdAddFAR), "LINK=ok", fmt.Sprintf("ID=%d", s.id), fmt.Sprintf("SEID=%#x", s.seid)}
	if s.update {
		out = append(out, "MODE=update(REPLACE)")
	} else {
		out = append(out, "MODE=create(EXCL)")
	}
	if s.action != nil {
		v := uint16(s.action[0])
		if len(s.action) > 1 {
			v |= uint16(s.action[1]) << 8
		}
		out = append(out, fmt.Sprintf("APPLY_ACTION=%d", v))
	}
	if s.fp {
		if s.ohc != nil {
			p := "FORWARDING_PARAMETER.OUTER_HEADER_CREATION."
			out = append(out, fmt.Sprintf(p+"DESCRIPTION=%d", s.ohc.desc))
			d := uint8(s.ohc.desc >> 8)
			if d&0x03 != 0 { // GTP-U: TEID, and the GTP-U port
				out = append(out, fmt.Sprintf(p+"O_TEID=%d", s.ohc.teid), fmt.Sprintf(p+"PORT=%d", 2152))
			} else {
				out = append(out, fmt.Sprintf(p+"PORT=%d", s.ohc.port))
			}
			if d&0x15 != 0 {
				out = append(out, p+"PEER_ADDR_IPV4="+ip4(s.ohc.ip).String())
			}
		}
		if s.policy != nil {
			out = append(out, fmt.Sprintf("FORWARDING_PARAMETER.FORWARDING_POLICY=%q", *s.policy))
		}
	}
	if s.bar != nil {
		out = append(out, fmt.Sprintf("BAR_ID=%d", *s.bar))
	}
	sort.Strings(out)
	return out
}

// ---- evaluation ----------------------------------------------------------------------------------------------

type checker struct {
	prop   string
	run    *evid.Run
	w      *World
	evals  int64
	nontr  evid.Distinct
	smp    evid.Samples
	orderN int64
}

func u32p(v uint32) *uint32 { return &v }
func u8p(v uint8) *uint8    { return &v }
func strp(s string) *string { return &s }

// call runs one driver call and returns the last ADD request of the given kind seen by the kernel.
func (c *checker) call(kind byte, f func() error) (simk.Req, error, bool) {
	c.w.K.TakeLog()
	var err error
	func() {
		defer func() {
			if p := recover(); p != nil {
				err = fmt.Errorf("PANIC: %v", p)
			}
		}()
		err = f()
	}()
	log := c.w.K.TakeLog()
	for i := len(log) - 1; i >= 0; i-- {
		if log[i].Cmd == addCmd[kind] {
			return log[i], err, true
		}
	}
	return simk.Req{}, err, false
}

func (c *checker) judge(what string, kind byte, seid uint64, id uint32, update bool, grouped *ie.IE, exp []string, desc string,
	f func(seid uint64, i *ie.IE) error) string {
	c.evals++
	c.nontr.Add(what + "|" + desc)
	key := simk.Key{SEID: seid, Kind: kind, ID: id}
	c.w.K.Reset()
	if update {
		c.w.K.Put(key)
	}
	req, err, ok := c.call(kind, func() error { return f(seid, grouped) })
	rep := map[string]interface{}{"operation": what, "shape": desc}
	if err != nil {
		c.run.Report(evid.Violation{Signature: c.prop + ":" + what + ":driver-error", Engine: "E2-shapes", Scenario: what,
			What: fmt.Sprintf("%s of a well-formed IE failed: %v -- shape %s", what, err, desc), Replay: rep})
		return ""
	}
	if !ok {
		c.run.Report(evid.Violation{Signature: c.prop + ":" + what + ":no-request", Engine: "E2-shapes", Scenario: what,
			What: fmt.Sprintf("%s sent no rule to the data plane -- shape %s", what, desc), Replay: rep})
		return ""
	}
	act := canonReq(kind, req, c.w.K.LinkIndex)
	if k, e, a := firstDiff(exp, act); k != "" {
		c.run.Report(evid.Violation{Signature: c.prop + ":" + what + ":" + k, Engine: "E2-shapes", Scenario: what,
			What:   fmt.Sprintf("%s: attribute %s handed to the data plane is %s, the IE says %s -- shape %s", what, k, a, e, desc),
			Replay: rep})
	}
	return strings.Join(act, "\n")
}
