//go:build verif

// Package xlate: the translation checks C02 (PDR, FAR) and C03 (QER, URR, BAR): bounded-exhaustive IE
// shapes through the real gtp5g driver, decoded from the simulated kernel's request log by an independent
// attribute schema (transcribed from the gtp5g UAPI headers), compared with what the IE says.
package xlate

import (
	"fmt"
	"sort"
	"strings"
	"syscall"

	"github.com/free5gc/go-upf/internal/verif/c16"
	"github.com/free5gc/go-upf/internal/verif/nlw"
	"github.com/free5gc/go-upf/internal/verif/simk"
)

// schema of the gtp5g netlink attributes: (context, attribute number) -> name and value kind
type akind int

const (
	kU8 akind = iota
	kU16
	kU32
	kU64
	kUint // any width, compared by value
	kIP4
	kStr
	kNest
	kFD
	kRate   // MBR/GBR: four attributes recombined into UL/DL 40-bit values
	kIgnore // attributes outside the property's list (measurement period, netlink unix socket path)
)

type adef struct {
	name string
	kind akind
	sub  string // schema name for kNest
	list bool   // may repeat
}

var schema = map[string]map[int]adef{
	"PDR": {4: {"PRECEDENCE", kU32, "", false}, 5: {"PDI", kNest, "PDI", false}, 6: {"OUTER_HEADER_REMOVAL", kU8, "", false},
		7: {"FAR_ID", kU32, "", false}, 9: {"UNIX_SOCKET_PATH", kIgnore, "", false}, 10: {"QER_ID", kU32, "", true}, 12: {"URR_ID", kU32, "", true}},
	"PDI":   {1: {"UE_ADDR_IPV4", kIP4, "", false}, 2: {"F_TEID", kNest, "FTEID", false}, 3: {"SDF_FILTER", kNest, "SDF", true}, 4: {"SRC_INTF", kU8, "", false}},
	"FTEID": {1: {"I_TEID", kU32, "", false}, 2: {"GTPU_ADDR_IPV4", kIP4, "", false}},
	"SDF":   {1: {"FLOW_DESCRIPTION", kFD, "", false}, 2: {"TOS_TRAFFIC_CLASS", kU16, "", false}, 3: {"SPI", kU32, "", false}, 4: {"FLOW_LABEL", kU32, "", false}, 5: {"SDF_FILTER_ID", kU32, "", false}},
	"FAR":   {4: {"APPLY_ACTION", kU16, "", false}, 5: {"FORWARDING_PARAMETER", kNest, "FP", false}, 8: {"BAR_ID", kU8, "", false}},
	"FP":    {1: {"OUTER_HEADER_CREATION", kNest, "OHC", false}, 2: {"FORWARDING_POLICY", kStr, "", false}, 3: {"PFCPSM_REQ_FLAGS", kU8, "", false}},
	"OHC":   {1: {"DESCRIPTION", kU16, "", false}, 2: {"O_TEID", kU32, "", false}, 3: {"PEER_ADDR_IPV4", kIP4, "", false}, 4: {"PORT", kU16, "", false}},
	"QER": {4: {"GATE", kU8, "", false}, 5: {"MBR", kRate, "", false}, 6: {"GBR", kRate, "", false}, 7: {"CORR_ID", kU32, "", false},
		8: {"RQI", kU8, "", false}, 9: {"QFI", kU8, "", false}, 10: {"PPI", kU8, "", false}},
	"URR": {4: {"MEASUREMENT_METHOD", kU8, "", false}, 5: {"REPORTING_TRIGGER", kU32, "", false}, 6: {"MEASUREMENT_PERIOD", kIgnore, "", false},
		7: {"MEASUREMENT_INFO", kUint, "", false}, 9: {"VOLUME_THRESHOLD", kNest, "VOL", false}, 10: {"VOLUME_QUOTA", kNest, "VOL", false}},
	"VOL": {1: {"FLAG", kU8, "", false}, 2: {"TOVOL", kU64, "", false}, 3: {"UVOL", kU64, "", false}, 4: {"DVOL", kU64, "", false}},
	"BAR": {4: {"DOWNLINK_DATA_NOTIFICATION_DELAY", kU8, "", false}, 5: {"BUFFERING_PACKETS_COUNT", kUint, "", false}},
}

var kindName = map[byte]string{'P': "PDR", 'F': "FAR", 'Q': "QER", 'U': "URR", 'B': "BAR"}
var addCmd = map[byte]uint8{'P': simk.CmdAddPDR, 'F': simk.CmdAddFAR, 'Q': simk.CmdAddQER, 'U': simk.CmdAddURR, 'B': simk.CmdAddBAR}

func uintOf(b []byte) (uint64, bool) {
	switch len(b) {
	case 1, 2, 4, 8:
		var v uint64
		for i := len(b) - 1; i >= 0; i-- {
			v = v<<8 | uint64(b[i])
		}
		return v, true
	}
	return 0, false
}

// canonAttrs renders decoded attributes as sorted "path=value" lines.
func canonAttrs(sc, prefix string, attrs []nlw.Attr, out *[]string) {
	defs := schema[sc]
	lists := map[string][]string{}
	seen := map[int]int{}
	for _, a := range attrs {
		d, ok := defs[a.Type]
		if !ok {
			*out = append(*out, fmt.Sprintf("%sUNKNOWN_ATTR_%d=% x", prefix, a.Type, a.Data))
			continue
		}
		seen[a.Type]++
		if seen[a.Type] > 1 && !d.list {
			*out = append(*out, fmt.Sprintf("%s%s=REPEATED", prefix, d.name))
			continue
		}
		p := prefix + d.name
		w := func(n int) string {
			if len(a.Data) != n {
				return fmt.Sprintf("BADWIDTH(%d octets % x)", len(a.Data), a.Data)
			}
			v, _ := uintOf(a.Data)
			return fmt.Sprintf("%d", v)
		}
		var val string
		switch d.kind {
		case kIgnore:
			continue
		case kU8:
			val = w(1)
		case kU16:
			val = w(2)
		case kU32:
			val = w(4)
		case kU64:
			val = w(8)
		case kUint:
			if v, ok := uintOf(a.Data); ok {
				val = fmt.Sprintf("%d", v)
			} else {
				val = fmt.Sprintf("BADWIDTH(%d)", len(a.Data))
			}
		case kIP4:
			if len(a.Data) != 4 {
				val = fmt.Sprintf("BADWIDTH(%d octets % x)", len(a.Data), a.Data)
			} else {
				val = fmt.Sprintf("%d.%d.%d.%d", a.Data[0], a.Data[1], a.Data[2], a.Data[3])
			}
		case kStr:
			val = fmt.Sprintf("%q", strings.TrimRight(string(a.Data), "\x00"))
		case kFD:
			f, err := c16.DecodeAttrs(a.Data)
			if err != nil {
				val = "MALFORMED(" + err.Error() + ")"
			} else {
				val = f.String()
			}
		case kRate:
			ch := a.Children()
			get := func(t, n int) (uint64, bool) {
				x, ok := nlw.One(ch, t)
				if !ok || len(x.Data) != n {
					return 0, false
				}
				v, _ := uintOf(x.Data)
				return v, true
			}
			ulh, ok1 := get(1, 4)
			ull, ok2 := get(2, 1)
			dlh, ok3 := get(3, 4)
			dll, ok4 := get(4, 1)
			if !ok1 || !ok2 || !ok3 || !ok4 || len(ch) != 4 {
				val = fmt.Sprintf("MALFORMED(% x)", a.Data)
			} else {
				val = fmt.Sprintf("UL=%d DL=%d", ulh<<8|ull, dlh<<8|dll)
			}
		case kNest:
			if d.list {
				var sub []string
				canonAttrs(d.sub, "", a.Children(), &sub)
				sort.Strings(sub)
				lists[p] = append(lists[p], "{"+strings.Join(sub, " ")+"}")
			} else {
				canonAttrs(d.sub, p+".", a.Children(), out)
			}
			continue
		}
		if d.list {
			lists[p] = append(lists[p], val)
		} else {
			*out = append(*out, p+"="+val)
		}
	}
	for p, l := range lists {
		sort.Strings(l) // multisets: the order of repeated attributes follows IE order, which is permuted
		*out = append(*out, p+"=["+strings.Join(l, ",")+"]")
	}
}

// canonReq renders one ADD request of the simulated kernel's log.
func canonReq(kind byte, r simk.Req, linkIndex uint32) []string {
	var out []string
	mode := "?"
	switch {
	case r.Excl() && !r.Replace():
		mode = "create(EXCL)"
	case r.Replace() && !r.Excl():
		mode = "update(REPLACE)"
	default:
		mode = fmt.Sprintf("flags=%#x", r.Flags)
	}
	if r.Flags&syscall.NLM_F_ACK == 0 {
		mode += "+noack"
	}
	out = append(out, "MODE="+mode)
	out = append(out, fmt.Sprintf("CMD=%d", r.Cmd))
	var rest []nlw.Attr
	seidT := map[byte]int{'P': 11, 'F': 7, 'Q': 13, 'U': 8, 'B': 6}[kind]
	for _, a := range r.Attrs {
		switch a.Type {
		case simk.AttrLink:
			v, ok := a.U32()
			if !ok || v != linkIndex {
				out = append(out, fmt.Sprintf("LINK=% x", a.Data))
			} else {
				out = append(out, "LINK=ok")
			}
		case simk.AttrID:
			if v, ok := uintOf(a.Data); ok {
				out = append(out, fmt.Sprintf("ID=%d", v))
			} else {
				out = append(out, fmt.Sprintf("ID=BADWIDTH(%d)", len(a.Data)))
			}
		case seidT:
			if v, ok := a.U64(); ok {
				out = append(out, fmt.Sprintf("SEID=%#x", v))
			} else {
				out = append(out, fmt.Sprintf("SEID=BADWIDTH(%d)", len(a.Data)))
			}
		default:
			rest = append(rest, a)
		}
	}
	canonAttrs(kindName[kind], "", rest, &out)
	sort.Strings(out)
	return out
}

// firstDiff returns the key of the first differing line and both lines.
func firstDiff(exp, act []string) (key, e, a string) {
	em, am := map[string]string{}, map[string]string{}
	for _, l := range exp {
		k, v, _ := strings.Cut(l, "=")
		em[k] = v
	}
	for _, l := range act {
		k, v, _ := strings.Cut(l, "=")
		am[k] = v
	}
	var keys []string
	for k := range em {
		keys = append(keys, k)
	}
	for k := range am {
		if _, ok := em[k]; !ok {
			keys = append(keys, k)
		}
	}
	sort.Strings(keys)
	for _, k := range keys {
		if em[k] != am[k] {
			ev, ok1 := em[k]
			av, ok2 := am[k]
			if !ok1 {
				ev = "(absent)"
			}
			if !ok2 {
				av = "(absent)"
			}
			return k, ev, av
		}
	}
	return "", "", ""
}
