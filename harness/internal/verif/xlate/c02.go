//go:build verif

package xlate

import (
	"fmt"

	"github.com/wmnsk/go-pfcp/ie"

	"github.com/free5gc/go-upf/internal/verif/evid"
)

var seids = []uint64{0x0102030405060708, 1, 1 << 32, 1 << 63, 1<<64 - 1}

var fds = []string{
	"permit out ip from any to assigned",
	"permit out 17 from 10.129.66.195/24 80,8080-8090 to 10.1.2.3 1-2",
	"permit in 6 from 10.1.2.3 to any 65535",
}

func (c *checker) pdr(s pdrSpec, top, pdi []int, note string) {
	ch := s.children(pdi)
	if top != nil {
		ch = permute(ch, top)
	}
	what, mk := "CreatePDR", ie.NewCreatePDR
	f := c.w.G.CreatePDR
	if s.update {
		what, mk, f = "UpdatePDR", ie.NewUpdatePDR, c.w.G.UpdatePDR
	}
	desc := fmt.Sprintf("%+v order=%v pdi-order=%v %s", descPDR(s), top, pdi, note)
	c.judge(what, 'P', s.seid, uint32(s.id), s.update, mk(ch...), s.expect(), desc, f)
	if top != nil || pdi != nil {
		c.orderN++
	}
}

func descPDR(s pdrSpec) string {
	d := fmt.Sprintf("seid=%#x id=%d srcIf=%d", s.seid, s.id, s.srcIf)
	if s.prec != nil {
		d += fmt.Sprintf(" prec=%d", *s.prec)
	}
	if s.fteid != nil {
		d += fmt.Sprintf(" fteid=%#x/%s", s.fteid[0], ip4(s.fteid[1]))
	}
	if s.ueip != nil {
		d += " ueip=" + ip4(*s.ueip).String()
	}
	if s.netinst {
		d += " netinst"
	}
	for _, f := range s.sdf {
		d += fmt.Sprintf(" sdf{%q,%#x}", f.fd, f.fid)
	}
	if s.ohr != nil {
		d += fmt.Sprintf(" ohr=%d", *s.ohr)
	}
	if s.far != nil {
		d += fmt.Sprintf(" far=%#x", *s.far)
	}
	d += fmt.Sprintf(" qers=%x urrs=%x", s.qers, s.urrs)
	return d
}

func basePDR(update bool) pdrSpec {
	return pdrSpec{update: update, seid: seids[0], id: 0x0102, prec: u32p(0x01020304), srcIf: 0,
		fteid: &[2]uint32{0x11121314, 0x0a0b0c0d}, ueip: u32p(0x14151617), netinst: true,
		sdf: []sdfSpec{{fds[1], 0x51525354}, {fds[2], 0}}, ohr: u8p(0), far: u32p(0x21222324),
		qers: []uint32{0x31323334, 0x35363738}, urrs: []uint32{0x41424344, 0x45464748}}
}

func (c *checker) allPDR(thorough bool) {
	for _, update := range []bool{false, true} {
		// 1. every presence subset of the optional children, canonical order
		for m := 0; m < 64; m++ {
			for nq := 0; nq <= 2; nq++ {
				for nu := 0; nu <= 2; nu++ {
					for ns := 0; ns <= 2; ns++ {
						for _, src := range []uint8{0, 1} {
							s := basePDR(update)
							s.srcIf = src
							if m&1 == 0 {
								s.prec = nil
							}
							if m&2 == 0 {
								s.ohr = nil
							}
							if m&4 == 0 {
								s.far = nil
							}
							if m&8 == 0 {
								s.fteid = nil
							}
							if m&16 == 0 {
								s.ueip = nil
							}
							s.netinst = m&32 != 0
							s.qers = s.qers[:nq]
							s.urrs = s.urrs[:nu]
							s.sdf = s.sdf[:ns]
							c.pdr(s, nil, nil, "")
						}
					}
				}
			}
		}
		// 2. child order: the full shape and reduced shapes, at both nesting levels
		full := basePDR(update)
		for _, src := range []uint8{0, 1, 2, 3} { // Access, Core, SGi-LAN, CP-function
			full.srcIf = src
			nTop := len(full.children(nil))
			nPdi := len(full.pdiChildren())
			for _, o := range orders(nTop, 5) {
				c.pdr(full, o, nil, "")
			}
			for _, o := range orders(nPdi, 6) { // <= 6 PDI children: all 720 permutations (source interface before, between, after the SDF filters)
				c.pdr(full, nil, o, "")
			}
			if thorough {
				for _, o := range orders(nTop, 5) {
					for _, p := range orders(nPdi, 3) {
						c.pdr(full, o, p, "")
					}
				}
			}
		}
		small := pdrSpec{update: update, seid: seids[0], id: 7, prec: u32p(9), srcIf: 0, sdf: []sdfSpec{{fds[1], 0}}, far: u32p(3), urrs: []uint32{5}}
		for _, o := range orders(len(small.children(nil)), 5) { // 5 children: all 120 permutations
			for _, p := range orders(len(small.pdiChildren()), 5) {
				c.pdr(small, o, p, "")
			}
		}
		// 3. each scalar over its boundary set, one at a time against the byte-distinct background
		for _, v := range seids {
			s := basePDR(update)
			s.seid = v
			c.pdr(s, nil, nil, "seid")
		}
		for _, v := range []uint16{0, 1, 0xfffe, 0xffff, 0x0100} {
			s := basePDR(update)
			s.id = v
			c.pdr(s, nil, nil, "id")
		}
		for _, v := range []uint32{0, 1, 0xfffffffe, 0xffffffff, 0x00010000} {
			s := basePDR(update)
			s.prec = u32p(v)
			c.pdr(s, nil, nil, "prec")
			s = basePDR(update)
			s.far = u32p(v)
			c.pdr(s, nil, nil, "far")
			s = basePDR(update)
			s.fteid = &[2]uint32{v, 0x0a0b0c0d}
			c.pdr(s, nil, nil, "teid")
			s = basePDR(update)
			s.fteid = &[2]uint32{0x11121314, v}
			c.pdr(s, nil, nil, "fteid-ip")
			s = basePDR(update)
			s.ueip = u32p(v)
			c.pdr(s, nil, nil, "ueip")
			s = basePDR(update)
			s.qers = []uint32{v, 0x35363738}
			c.pdr(s, nil, nil, "qer")
			s = basePDR(update)
			s.urrs = []uint32{0x41424344, v}
			c.pdr(s, nil, nil, "urr")
			s = basePDR(update)
			if v != 0 {
				s.sdf[0].fid = v
				c.pdr(s, nil, nil, "sdf-id")
			}
		}
		for v := 0; v < 8; v++ {
			s := basePDR(update)
			s.ohr = u8p(uint8(v))
			c.pdr(s, nil, nil, "ohr")
		}
		for _, src := range []uint8{0, 1, 2, 3} {
			for _, fd := range fds {
				s := basePDR(update)
				s.srcIf = src
				s.sdf = []sdfSpec{{fd, 0}}
				c.pdr(s, nil, nil, "sdf")
			}
		}
		// QER ids and URR ids are separate namespaces: lists whose numeric values coincide, in the constructors'
		// child order and reversed (URR ids before QER ids)
		for _, ids := range [][2][]uint32{{{1}, {1}}, {{1, 2}, {2, 5, 1}}, {{7}, {9, 7}}, {{0xffffffff, 0}, {0, 0xffffffff}}} {
			s := basePDR(update)
			s.qers, s.urrs = ids[0], ids[1]
			c.pdr(s, nil, nil, "qer-urr-same-values")
			n := len(s.children(nil))
			rev := make([]int, n)
			for i := range rev {
				rev[i] = n - 1 - i
			}
			c.pdr(s, rev, nil, "qer-urr-same-values")
		}
		if thorough {
			// pairs of boundary values
			bv := []uint32{0, 0xffffffff, 0x80000000}
			for _, a := range bv {
				for _, b := range bv {
					for _, sd := range seids {
						s := basePDR(update)
						s.seid = sd
						s.prec, s.far = u32p(a), u32p(b)
						s.qers = []uint32{a, b}
						s.urrs = []uint32{b, a}
						c.pdr(s, nil, nil, "pairs")
					}
				}
			}
		}
	}
}

func descFAR(s farSpec) string {
	d := fmt.Sprintf("seid=%#x id=%#x action=% x", s.seid, s.id, s.action)
	if s.fp {
		d += " fp{"
		if s.ohc != nil {
			d += fmt.Sprintf("ohc desc=%#x teid=%#x ip=%s port=%d", s.ohc.desc, s.ohc.teid, ip4(s.ohc.ip), s.ohc.port)
		}
		if s.policy != nil {
			d += " policy=" + *s.policy
		}
		if s.netinst {
			d += " netinst"
		}
		d += "}"
	}
	if s.bar != nil {
		d += fmt.Sprintf(" bar=%d", *s.bar)
	}
	return d
}

func (c *checker) far(s farSpec, top, fp []int, note string) {
	ch := s.children(fp)
	if top != nil {
		ch = permute(ch, top)
	}
	what, mk := "CreateFAR", ie.NewCreateFAR
	f := c.w.G.CreateFAR
	if s.update {
		what, mk, f = "UpdateFAR", ie.NewUpdateFAR, c.w.G.UpdateFAR
	}
	desc := fmt.Sprintf("%s order=%v fp-order=%v %s", descFAR(s), top, fp, note)
	c.judge(what, 'F', s.seid, s.id, s.update, mk(ch...), s.expect(), desc, f)
	if top != nil || fp != nil {
		c.orderN++
	}
}

func baseFAR(update bool) farSpec {
	return farSpec{update: update, seid: seids[0], id: 0x21222324, action: []byte{0x02, 0x00}, fp: true,
		ohc: &ohcSpec{desc: 0x0100, teid: 0x61626364, ip: 0x0a141e28}, policy: strp("policy-A"), netinst: true, bar: u8p(0x71)}
}

func (c *checker) allFAR(thorough bool) {
	gtpu := &ohcSpec{desc: 0x0100, teid: 0x61626364, ip: 0x0a141e28}
	udp := &ohcSpec{desc: 0x0400, ip: 0x0a141e28, port: 0x8182}
	for _, update := range []bool{false, true} {
		// presence subsets: action {none(update only), 1 octet, 2 octets} x fp {none, each ohc form, policy, netinst} x bar
		var actions [][]byte
		actions = append(actions, []byte{0x02}, []byte{0x0c, 0x00}, []byte{0x04, 0x10})
		if update {
			actions = append(actions, nil)
		}
		for _, a := range actions {
			for fpm := 0; fpm < 13; fpm++ {
				for _, bar := range []*uint8{nil, u8p(0x71)} {
					s := farSpec{update: update, seid: seids[0], id: 0x21222324, action: a, bar: bar}
					if fpm > 0 {
						s.fp = true
						switch (fpm - 1) % 3 {
						case 1:
							s.ohc = gtpu
						case 2:
							s.ohc = udp
						}
						if (fpm-1)/3%2 == 1 {
							s.policy = strp("policy-A")
						}
						s.netinst = (fpm-1)/6 == 1
					}
					c.far(s, nil, nil, "")
				}
			}
		}
		// order: all permutations at both levels (<= 4 children each)
		full := baseFAR(update)
		for _, o := range orders(len(full.children(nil)), 5) {
			for _, p := range orders(len(full.fpChildren()), 5) {
				c.far(full, o, p, "")
			}
		}
		// apply action: every single bit, zero, all ones and boundary combinations, 1- and 2-octet forms
		for bit := 0; bit < 16; bit++ {
			v := uint16(1) << bit
			s := baseFAR(update)
			s.action = []byte{byte(v), byte(v >> 8)}
			c.far(s, nil, nil, "action-bit")
			if bit < 8 {
				s.action = []byte{byte(v)}
				c.far(s, nil, nil, "action-bit-1octet")
			}
		}
		for _, v := range []uint16{0, 0xffff, 0x1fff, 0x00ff, 0xff00, 0x0102, 0x0c04} {
			s := baseFAR(update)
			s.action = []byte{byte(v), byte(v >> 8)}
			c.far(s, nil, nil, "action-value")
		}
		if thorough {
			for v := 0; v < 65536; v++ {
				s := farSpec{update: update, seid: seids[0], id: 5, action: []byte{byte(v), byte(v >> 8)}}
				c.far(s, nil, nil, "action-all")
			}
		}
		for _, v := range seids {
			s := baseFAR(update)
			s.seid = v
			c.far(s, nil, nil, "seid")
		}
		for _, v := range []uint32{0, 1, 0xfffffffe, 0xffffffff, 0x00010000} {
			s := baseFAR(update)
			s.id = v
			c.far(s, nil, nil, "id")
			s = baseFAR(update)
			s.ohc = &ohcSpec{desc: 0x0100, teid: v, ip: 0x0a141e28}
			c.far(s, nil, nil, "teid")
			s = baseFAR(update)
			s.ohc = &ohcSpec{desc: 0x0100, teid: 0x61626364, ip: v}
			c.far(s, nil, nil, "peer")
			s = baseFAR(update)
			s.ohc = &ohcSpec{desc: 0x0400, ip: v, port: uint16(v)}
			c.far(s, nil, nil, "udp-peer-port")
		}
		for _, v := range []uint16{0, 1, 2152, 0xfffe, 0xffff, 0x0102} {
			s := baseFAR(update)
			s.ohc = &ohcSpec{desc: 0x0400, ip: 0x0a141e28, port: v}
			c.far(s, nil, nil, "port")
		}
		for _, v := range []uint8{0, 1, 0x7f, 0x80, 0xff} {
			s := baseFAR(update)
			s.bar = u8p(v)
			c.far(s, nil, nil, "bar")
		}
		for _, p := range []string{"", "a", "policy-with-a-long-name-0123456789-0123456789-0123456789"} {
			s := baseFAR(update)
			s.policy = strp(p)
			c.far(s, nil, nil, "policy")
		}
	}
}

// RunC02 is the check entry point.
func RunC02(tier string) {
	run := evid.NewRun("C02", tier)
	w := NewWorld()
	c := &checker{prop: "C02", run: run, w: w}
	c.allPDR(tier == "thorough")
	c.smp.Offer(descPDR(basePDR(false)))
	c.allFAR(tier == "thorough")
	c.smp.Offer(descFAR(baseFAR(true)))
	w.Close()
	run.Set("evaluations", c.evals)
	run.Set("distinct_nontrivial", c.nontr.Len())
	run.Set("order_variants", c.orderN)
	run.Set("rule", "Create/Update PDR and FAR grouped IEs: every presence subset of the optional children (PDR: 64 x QER ids 0..2 x URR ids 0..2 x SDF filters 0..2 x uplink/downlink; FAR: apply action forms x forwarding-parameter contents x BAR id), child orders (all permutations up to 5 children, identity+reversal+adjacent transpositions beyond; all 720 orders inside the PDI), each scalar over a boundary set one at a time against a byte-distinct background, SEIDs {1, 2^32, 2^63, 2^64-1, byte-distinct}; every evaluated (operation, shape, order) is distinct and exercises at least the mandatory id mapping, so distinct_nontrivial = distinct shapes")
	run.Set("exhaustive", true)
	run.Set("samples", c.smp.List())
	run.Set("bound", "value alphabets are boundary sets, not the full 32/64-bit ranges; IPv4 only; thorough adds all 2^16 apply-action words and pairs of boundary values")
	run.Assumption("the attribute schema in harness/internal/verif/xlate/canon.go (numbers, widths) transcribes the gtp5g UAPI; the simulated kernel's walker decodes independently of go-nl / go-gtp5gnl")
	run.Assumption("flow descriptions are compared through C16's reference parser; the netlink unix-socket-path attribute of Create PDR is outside the property's list and ignored")
	run.Finish()
}
