//go:build verif

// Package mdp: model data plane. Implements forwarder.Driver as a table (SEID, kind, id) -> present with
// kernel semantics (EEXIST on create of an existing rule, ENOENT on update/remove/query of a missing one,
// URR removal and query return exactly one report), a call log and a fault script chosen by the explorer.
package mdp

import (
	"fmt"
	"sort"
	"strings"
	"syscall"
	"time"

	"github.com/wmnsk/go-pfcp/ie"

	"github.com/free5gc/go-upf/internal/report"
)

type Key struct {
	SEID uint64
	Kind byte // 'P','F','Q','U','B'
	ID   uint32
}

func (k Key) String() string { return fmt.Sprintf("%#x/%c%d", k.SEID, k.Kind, k.ID) }

type Call struct {
	Op   string // Create, Update, Remove, Query
	Key  Key
	Err  string // "" on success
	Idx  int    // position in the call stream of this world
	Note string
}

func (c Call) String() string {
	e := "ok"
	if c.Err != "" {
		e = c.Err
	}
	return fmt.Sprintf("%s %s %s", c.Op, c.Key, e)
}

// Fault: the Nth (0-based) faultable call (create/update/query) fails.
// AfterEffect: the rule change is applied although an error is returned (lost acknowledgement).
type Fault struct {
	At          int
	AfterEffect bool
}

type Report struct {
	Key  Key
	Call int
	Vol  report.VolumeMeasure
}

type MDP struct {
	Table   map[Key]bool
	Log     []Call
	Faults  []Fault
	nFault  int // faultable calls seen so far
	nCall   int
	Handed  []Report // usage reports handed out, in order
	UpdRpt  bool     // UpdateURR answers with one report
	NoRmRpt bool     // RemoveURR succeeds without a final report (as the no-op driver does, and gtp5g when it returns an empty report list)
	Handler report.Handler
	// FaultsHit counts injected faults that were actually reached
	FaultsHit int
}

func New() *MDP { return &MDP{Table: map[Key]bool{}} }

func (m *MDP) Close()                        {}
func (m *MDP) HandleReport(h report.Handler) { m.Handler = h }
func (m *MDP) FaultableCalls() int           { return m.nFault }
func (m *MDP) TakeLog() []Call               { l := m.Log; m.Log = nil; return l }
func (m *MDP) Rows() []Key {
	var out []Key
	for k := range m.Table {
		out = append(out, k)
	}
	sort.Slice(out, func(i, j int) bool {
		a, b := out[i], out[j]
		if a.SEID != b.SEID {
			return a.SEID < b.SEID
		}
		if a.Kind != b.Kind {
			return a.Kind < b.Kind
		}
		return a.ID < b.ID
	})
	return out
}

func (m *MDP) Dump() string { return m.DumpL(nil) }

// DumpL renders the table with SEIDs replaced by logical labels (sorted by the rendered text).
func (m *MDP) DumpL(lab func(uint64) string) string {
	var rows []string
	for _, k := range m.Rows() {
		if lab == nil {
			rows = append(rows, k.String())
		} else {
			rows = append(rows, fmt.Sprintf("%s/%c%d", lab(k.SEID), k.Kind, k.ID))
		}
	}
	sort.Strings(rows)
	return strings.Join(rows, " ")
}

// RowsOf returns the dump restricted to one SEID / to all other SEIDs.
func (m *MDP) DumpOf(seid uint64, others bool) string {
	var sb strings.Builder
	for _, k := range m.Rows() {
		if (k.SEID == seid) != others {
			sb.WriteString(k.String())
			sb.WriteString(" ")
		}
	}
	return sb.String()
}

func (m *MDP) fault() (hit bool, after bool) {
	i := m.nFault
	m.nFault++
	for _, f := range m.Faults {
		if f.At == i {
			m.FaultsHit++
			return true, f.AfterEffect
		}
	}
	return false, false
}

func (m *MDP) log(op string, k Key, err error) error {
	c := Call{Op: op, Key: k, Idx: m.nCall}
	m.nCall++
	if err != nil {
		c.Err = err.Error()
	}
	m.Log = append(m.Log, c)
	return err
}

var errInjected = fmt.Errorf("injected data-plane failure")

func (m *MDP) create(k Key) error {
	hit, after := m.fault()
	if hit && !after {
		return m.log("Create", k, errInjected)
	}
	if m.Table[k] {
		return m.log("Create", k, syscall.EEXIST)
	}
	m.Table[k] = true
	if hit {
		return m.log("Create", k, errInjected)
	}
	return m.log("Create", k, nil)
}

func (m *MDP) update(k Key) error {
	hit, _ := m.fault()
	if hit {
		return m.log("Update", k, errInjected)
	}
	if !m.Table[k] {
		return m.log("Update", k, syscall.ENOENT)
	}
	return m.log("Update", k, nil)
}

func (m *MDP) remove(k Key) error {
	if !m.Table[k] {
		return m.log("Remove", k, syscall.ENOENT)
	}
	delete(m.Table, k)
	return m.log("Remove", k, nil)
}

// Counters are a deterministic function of (SEID, URR, call index): all bytes distinct, above 2^32.
func Counters(k Key, call int) report.VolumeMeasure {
	base := uint64(0x0100000000000000) | (k.SEID&0xff)<<40 | uint64(k.ID&0xff)<<32 | uint64(call&0xffff)<<8
	return report.VolumeMeasure{
		TotalVolume: base | 0x11, UplinkVolume: base | 0x22, DownlinkVolume: base | 0x33,
		TotalPktNum: base | 0x44, UplinkPktNum: base | 0x55, DownlinkPktNum: base | 0x66,
	}
}

var t0 = time.Unix(1700000000, 0).UTC()

func (m *MDP) mkReport(k Key) report.USAReport {
	vol := Counters(k, m.nCall)
	m.Handed = append(m.Handed, Report{Key: k, Call: m.nCall, Vol: vol})
	return report.USAReport{URRID: k.ID, VolumMeasure: vol, StartTime: t0, EndTime: t0.Add(time.Duration(m.nCall+1) * time.Second)}
}

func id16(i *ie.IE, f func() (uint16, error)) uint32 { v, _ := f(); return uint32(v) }

func pdrID(i *ie.IE) uint32 { v, _ := i.PDRID(); return uint32(v) }
func farID(i *ie.IE) uint32 { v, _ := i.FARID(); return v }
func qerID(i *ie.IE) uint32 { v, _ := i.QERID(); return v }
func urrID(i *ie.IE) uint32 { v, _ := i.URRID(); return v }
func barID(i *ie.IE) uint32 { v, _ := i.BARID(); return uint32(v) }

func (m *MDP) CreatePDR(s uint64, i *ie.IE) error { return m.create(Key{s, 'P', pdrID(i)}) }
func (m *MDP) UpdatePDR(s uint64, i *ie.IE) error { return m.update(Key{s, 'P', pdrID(i)}) }
func (m *MDP) RemovePDR(s uint64, i *ie.IE) error { return m.remove(Key{s, 'P', pdrID(i)}) }
func (m *MDP) CreateFAR(s uint64, i *ie.IE) error { return m.create(Key{s, 'F', farID(i)}) }
func (m *MDP) UpdateFAR(s uint64, i *ie.IE) error { return m.update(Key{s, 'F', farID(i)}) }
func (m *MDP) RemoveFAR(s uint64, i *ie.IE) error { return m.remove(Key{s, 'F', farID(i)}) }
func (m *MDP) CreateQER(s uint64, i *ie.IE) error { return m.create(Key{s, 'Q', qerID(i)}) }
func (m *MDP) UpdateQER(s uint64, i *ie.IE) error { return m.update(Key{s, 'Q', qerID(i)}) }
func (m *MDP) RemoveQER(s uint64, i *ie.IE) error { return m.remove(Key{s, 'Q', qerID(i)}) }
func (m *MDP) CreateBAR(s uint64, i *ie.IE) error { return m.create(Key{s, 'B', barID(i)}) }
func (m *MDP) UpdateBAR(s uint64, i *ie.IE) error { return m.update(Key{s, 'B', barID(i)}) }
func (m *MDP) RemoveBAR(s uint64, i *ie.IE) error { return m.remove(Key{s, 'B', barID(i)}) }
func (m *MDP) CreateURR(s uint64, i *ie.IE) error { return m.create(Key{s, 'U', urrID(i)}) }

func (m *MDP) UpdateURR(s uint64, i *ie.IE) ([]report.USAReport, error) {
	k := Key{s, 'U', urrID(i)}
	if err := m.update(k); err != nil {
		return nil, err
	}
	if m.UpdRpt {
		return []report.USAReport{m.mkReport(k)}, nil
	}
	return nil, nil
}

func (m *MDP) RemoveURR(s uint64, i *ie.IE) ([]report.USAReport, error) {
	k := Key{s, 'U', urrID(i)}
	if !m.Table[k] {
		return nil, m.log("Remove", k, syscall.ENOENT)
	}
	if m.NoRmRpt {
		delete(m.Table, k)
		_ = m.log("Remove", k, nil)
		return nil, nil
	}
	r := m.mkReport(k)
	delete(m.Table, k)
	_ = m.log("Remove", k, nil)
	return []report.USAReport{r}, nil
}

func (m *MDP) QueryURR(s uint64, id uint32) ([]report.USAReport, error) {
	k := Key{s, 'U', id}
	hit, _ := m.fault()
	if hit {
		return nil, m.log("Query", k, errInjected)
	}
	if !m.Table[k] {
		return nil, m.log("Query", k, syscall.ENOENT)
	}
	r := m.mkReport(k)
	_ = m.log("Query", k, nil)
	return []report.USAReport{r}, nil
}
