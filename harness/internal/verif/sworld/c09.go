//go:build verif

package sworld

import (
	"bytes"
	"fmt"
	"sort"
	"strings"
	"time"

	"github.com/free5gc/go-upf/internal/pfcp"
	"github.com/free5gc/go-upf/internal/verif/evid"
	"github.com/free5gc/go-upf/internal/verif/seqx"
	"github.com/free5gc/go-upf/internal/verif/smf"
)

// C09 — UPF-initiated requests are retried, matched and retired correctly.
//
// One scenario per (MaxRetrans, position of the transmit counter); each starts from two associated peers with
// one session each (equal CP SEIDs). Alphabet:
//   Report(k)       usage report for URR 1 of session k => Session Report Request
//   Expire(i)       retransmission timer of the i-th request (in creation order) fires; offered for
//                   outstanding requests and, as a stale already-queued expiry, for the last retired one
//   Rsp(i, v)       response to the i-th request: v=0 right peer, matching SEID; v=1 right peer, SEID 0;
//                   v=2 same sequence number from the wrong peer; v=3 right peer, non-outstanding sequence;
//                   v=4 same sequence number from the right IP address but another UDP port (peer A2);
//                   v=5 right peer, matching SEID, arriving after the request's timer has fired but before the
//                   timer's notification reaches the loop (the notification is delivered right after it);
//                   for the last retired request v=0 again (a duplicated response)
// Requests are identified by (peer address, wire sequence number) read from the transaction objects' fields.

type txRef struct {
	peer    int
	seq     uint32 // as seen on the wire
	raw     []byte
	up      uint64
	cp      uint64
	retrans int
	retired bool
}

type c09 struct {
	*Base
	pre seqx.Pre
	maxRetrans int
	pos        uint32
	tx         []*txRef
	sessK      [2]int
}

var c09Positions = []uint32{0, 5, 1<<24 - 2, 1<<24 - 1, 1 << 24, 1 << 31, 1<<32 - 2, 1<<32 - 1}

func c09Spec(tier, scenario string) seqx.Spec {
	var mr int
	var pi int
	fmt.Sscanf(scenario, "mr%d-pos%d", &mr, &pi)
	depth := 5
	dl := 60 * time.Second
	if tier == "thorough" {
		depth = 7
		dl = 10 * time.Minute
	}
	return seqx.Spec{Prop: "C09", Scenario: scenario, MaxDepth: depth, Deadline: dl, New: func() seqx.Instance {
		c := &c09{Base: NewBase(Options{MaxRetrans: uint8(mr)}), maxRetrans: mr, pos: c09Positions[pi]}
		c.prefix()
		return c
	}}
}

func init() { seqx.Register("C09", c09Spec) }

func (c *c09) prefix() {
	for p := 0; p < 2; p++ {
		c.W.Send(p, smf.Assoc(c.NextSeq(p), c.W.PeerIP(p)))
		c.R.Assoc(c.W.PeerIP(p), p)
		o := c.W.Send(p, smf.Est(c.NextSeq(p), c.W.PeerIP(p), true, 0x10, c.W.PeerIP(p), op('C', 'F', 1), op('C', 'U', 1), pdr('C', 1, 1, 1)))
		if len(o.Out[p]) != 1 {
			c.pre.Fail("C09", fmt.Sprintf("establishment from %c not answered (%d datagrams, loop alive=%v fatal=%v)", 'A'+p, len(o.Out[p]), o.Alive, o.Fatal))
			return
		}
		up, _, _ := o.Out[p][0].FSEID()
		c.EstUP = append(c.EstUP, up)
		c.R.NewSess(up, 0x10, c.W.PeerIP(p))
		c.sessK[p] = len(c.EstUP)
	}
	c.W.V.SetTxSeq(c.pos)
}

func (c *c09) outstanding() []int {
	var out []int
	for i, t := range c.tx {
		if !t.retired {
			out = append(out, i)
		}
	}
	return out
}

func (c *c09) lastRetired() int {
	for i := len(c.tx) - 1; i >= 0; i-- {
		if c.tx[i].retired {
			return i
		}
	}
	return -1
}

func (c *c09) Enabled() []seqx.Event {
	var ev []seqx.Event
	if len(c.outstanding()) < 3 && len(c.tx) < 4 {
		for p := 0; p < 2; p++ {
			if c.R.Live[c.SeidOf(c.sessK[p])] != nil {
				x := seqx.Ev("Report", int64(p))
				x.N = fmt.Sprintf("Report(session of %c)", 'A'+p)
				ev = append(ev, x)
			}
		}
	}
	for _, i := range c.outstanding() {
		x := seqx.Ev("Expire", int64(i))
		x.N = fmt.Sprintf("ExpireTx(#%d)", i)
		ev = append(ev, x)
		for v := 0; v < 6; v++ {
			if v == 4 && c.tx[i].peer != 0 {
				continue // A2 shares the address of peer A only
			}
			y := seqx.Ev("Rsp", int64(i), int64(v))
			y.N = fmt.Sprintf("Rsp(#%d,%s)", i, []string{"ok", "SEID 0", "wrong peer", "unknown seq", "right host, other port", "ok, overtaking the fired timer's notification"}[v])
			ev = append(ev, y)
		}
	}
	if i := c.lastRetired(); i >= 0 {
		x := seqx.Ev("Expire", int64(i))
		x.N = fmt.Sprintf("StaleExpireTx(#%d)", i)
		ev = append(ev, x)
		y := seqx.Ev("Rsp", int64(i), 0)
		y.N = fmt.Sprintf("DupRsp(#%d)", i)
		ev = append(ev, y)
	}
	return ev
}

func (c *c09) Key() string {
	var sb strings.Builder
	sb.WriteString(c.W.V.Dump(pfcp.DumpOpt{NoTrans: true, Label: c.Label, NoSeq: true}))
	sb.WriteString("DP " + c.W.D.DumpL(c.Label) + "\n")
	var txs []string
	for _, t := range c.W.V.Tx() {
		txs = append(txs, fmt.Sprintf("tx %s/%d n=%d", t.Addr, t.Seq&0xffffff, t.Retrans))
	}
	sort.Strings(txs)
	sb.WriteString(strings.Join(txs, "\n"))
	fmt.Fprintf(&sb, "\nnext=%d\n", c.W.V.TxSeq())
	for i, t := range c.tx {
		fmt.Fprintf(&sb, "ref #%d %d/%d n=%d retired=%v\n", i, t.peer, t.seq, t.retrans, t.retired)
	}
	return sb.String()
}

// realTx finds the transaction whose fields say (peer address, wire sequence); nil if none.
func (c *c09) realTx(t *txRef) *pfcp.VTx {
	for _, x := range c.W.V.Tx() {
		if x.Addr == c.W.PeerAddr(t.peer).String() && x.Seq&0xffffff == t.seq && bytes.Equal(x.Req, t.raw) {
			y := x
			return &y
		}
	}
	return nil
}

func (c *c09) state() string {
	return c.W.V.Dump(pfcp.DumpOpt{Label: c.Label, NoExtra: true}) + c.W.D.Dump()
}

func (c *c09) Apply(e seqx.Event) seqx.StepResult {
	j := &Judge{Prop: "C09"}
	var o StepObs
	switch e.Op {
	case "Report":
		p := int(e.A[0])
		up := c.SeidOf(c.sessK[p])
		o = c.W.Report(UsageReportFor(up, 2, 1))
		if j.Crashed(c.W, o) {
			break
		}
		ms := j.OnlyTo(o, p, "Report")
		if len(ms) != 1 || ms[0].Type != smf.MReportReq {
			j.Fail("report-request-not-sent", "usage report for the session of %c: %d datagrams", 'A'+p, len(ms))
			break
		}
		seq := ms[0].Seq
		for _, i := range c.outstanding() {
			if c.tx[i].seq == seq {
				j.Fail("sequence-not-distinct", "new Session Report Request uses sequence number %d which request #%d (to %c) still has outstanding", seq, i, 'A'+c.tx[i].peer)
			}
		}
		if c.pos+uint32(len(c.tx)) >= 1<<24 || c.pos > 1<<24-8 {
			j.Tag("counter-beyond-24-bits")
		}
		c.tx = append(c.tx, &txRef{peer: p, seq: seq, raw: ms[0].Raw, up: up, cp: ms[0].SEID})
	case "Expire":
		i := int(e.A[0])
		t := c.tx[i]
		id := ""
		if x := c.realTx(t); x != nil {
			id = x.ID
		} else {
			id = fmt.Sprintf("%s-%d", c.W.PeerAddr(t.peer), t.seq) // stale: whatever id, it is gone
		}
		s0 := c.state()
		o = c.W.Expire(true, id)
		if j.Crashed(c.W, o) {
			break
		}
		if t.retired {
			j.Tag("stale-expiry")
			if n := count(o); n != 0 || c.state() != s0 {
				j.Fail("retransmission-after-retirement", "a timer expiry for request #%d, which had been answered / abandoned, sent %d datagram(s) or changed state", i, n)
			}
			break
		}
		ms := j.OnlyTo(o, t.peer, "Expire")
		if t.retrans < c.maxRetrans {
			if len(ms) != 1 || !bytes.Equal(ms[0].Raw, t.raw) {
				j.Fail("retransmission-wrong", "expiry %d of request #%d (max retransmissions %d): want one byte-identical retransmission to %c, got %d datagram(s) %v", t.retrans+1, i, c.maxRetrans, 'A'+t.peer, len(ms), ms)
			}
			t.retrans++
			j.Tag("retransmitted")
		} else {
			if len(ms) != 0 {
				j.Fail("too-many-retransmissions", "request #%d retransmitted %d times, configured maximum %d", i, t.retrans+1, c.maxRetrans)
			}
			t.retired = true
			j.Tag("abandoned")
		}
	case "Rsp":
		i, v := int(e.A[0]), int(e.A[1])
		t := c.tx[i]
		from, seq, seid := t.peer, t.seq, t.up
		switch v {
		case 1:
			seid = 0
		case 4:
			from = PeerA2 // same sequence number and IP address, another UDP port: a different PFCP entity
		case 2:
			from = 2 // peer C: same sequence number, other address
		case 3:
			seq = (t.seq + 100) & 0xffffff
			for _, k := range c.outstanding() {
				if c.tx[k].seq == seq {
					seq = (seq + 1000) & 0xffffff
				}
			}
		}
		lateID := ""
		if v == 5 {
			// the retransmission timer has fired, but its notification reaches the loop after the response
			if x := c.realTx(t); x != nil && !c.W.Dead {
				lateID = x.ID
				c.W.V.FireOnly(lateID)
			}
		}
		s0 := c.state()
		o = c.W.Send(from, smf.ReportRsp(seq, seid, smf.CauseAccepted))
		if j.Crashed(c.W, o) {
			break
		}
		if n := count(o); n != 0 {
			j.Fail("response-answered", "a Session Report Response caused %d datagram(s)", n)
		}
		if lateID != "" {
			if c.realTx(t) != nil {
				j.Fail("bookkeeping-not-released:response-overtakes-expiry", "request #%d was answered while its fired timer's notification was still on its way: the transaction is still retained", i)
			}
			s1 := c.state()
			o2 := c.W.Expire(true, lateID)
			if j.Crashed(c.W, o2) {
				break
			}
			if n := count(o2); n != 0 || c.state() != s1 {
				j.Fail("retransmission-after-retirement:response-overtakes-expiry", "the overtaken timer notification of answered request #%d sent %d datagram(s) or changed state", i, n)
			}
			j.Tag("response-overtakes-expiry")
		}
		matches := !t.retired && (v == 0 || v == 1 || v == 5)
		if !matches {
			j.Tag([]string{"duplicate-response", "", "wrong-peer-response", "unknown-seq-response", "other-port-response"}[v])
			if c.state() != s0 || len(o.Calls) != 0 {
				j.Fail("unmatched-response-has-effect:"+[]string{"duplicate", "", "wrong-peer", "unknown-seq", "other-port"}[v], "a response matching no outstanding request (%s) changed state: calls %v", e, o.Calls)
			}
			break
		}
		t.retired = true
		if v != 5 {
			j.Tag("matched")
		}
		if v == 1 {
			if s := c.R.Live[t.up]; s != nil && s.CP == t.cp {
				c.R.EndSession(t.up)
				if _, still := c.W.V.SessDumps()[t.up]; still {
					j.Fail("seid0-keeps-session", "response with SEID 0 did not end session %s", c.Label(t.up))
				}
			}
		}
	}
	// table <-> reference: every outstanding request has its transaction, and nothing else is retained
	if len(j.Viols) == 0 && !c.W.Dead {
		n := 0
		for i, t := range c.tx {
			if t.retired {
				if c.realTx(t) != nil {
					j.Fail("bookkeeping-not-released", "request #%d (to %c, sequence %d) was answered or abandoned but its transaction is still retained", i, 'A'+t.peer, t.seq)
				}
				continue
			}
			n++
			if c.realTx(t) == nil {
				j.Fail("outstanding-request-lost", "request #%d (to %c, sequence %d) is outstanding but has no transaction", i, 'A'+t.peer, t.seq)
			}
		}
		if len(j.Viols) == 0 && len(c.W.V.Tx()) != n {
			j.Fail("table-size", "%d transmit transactions retained, %d requests outstanding", len(c.W.V.Tx()), n)
		}
	}
	return seqx.StepResult{Obs: e.String() + " => " + o.StringL(c.Label), Viols: append(c.pre.Take(), j.Viols...), Tags: j.Tags}
}

func count(o StepObs) int {
	n := 0
	for i := range o.Out {
		n += len(o.Out[i])
	}
	return n
}

func RunC09(tier string) {
	run := evid.NewRun("C09", tier)
	smp := &evid.Samples{N: 10}
	var total seqx.Stats
	mrs := []int{0, 1, 2}
	poss := []int{0, 3, 4, 7}
	if tier == "thorough" {
		mrs = []int{0, 1, 2, 3}
		poss = []int{0, 1, 2, 3, 4, 5, 6, 7}
	}
	var depth, done int
	for _, mr := range mrs {
		for _, pi := range poss {
			name := fmt.Sprintf("mr%d-pos%d", mr, pi)
			spec := c09Spec(tier, name)
			st := seqx.Explore(run, spec, tier, smp)
			seqx.Merge(run, name, st, &total)
			depth, done = spec.MaxDepth, st.DepthDone
		}
	}
	seqx.Finish(run, total, smp, fmt.Sprintf("MaxRetrans %v x transmit counter at %v; 2 peers with one session each, <=3 outstanding requests; reports, timer expiries (incl. stale), matching / SEID-0 / wrong-peer / other-port / unknown-sequence / duplicated responses; all interleavings to depth %d (last scenario completed %d)", mrs, positions(poss), depth, done))
	run.Assumption("timer expiry is delivered as an event through NotifyTransTimeout with the real timer stopped")
	run.Assumption("the transmit counter is positioned by the in-package harness; positions are the 32-bit values the property names")
	run.Finish()
}

func positions(idx []int) []uint32 {
	var out []uint32
	for _, i := range idx {
		out = append(out, c09Positions[i])
	}
	return out
}
