//go:build verif

package sworld

import (
	"fmt"
	"sort"
	"strings"
	"time"

	"github.com/free5gc/go-upf/internal/pfcp"
	"github.com/free5gc/go-upf/internal/report"
	"github.com/free5gc/go-upf/internal/verif/evid"
	"github.com/free5gc/go-upf/internal/verif/mdp"
	"github.com/free5gc/go-upf/internal/verif/seqx"
	"github.com/free5gc/go-upf/internal/verif/smf"
)

// urr.go: the URR world of C11 (UR-SEQN counts 0,1,2,...) and C12 (final usage exactly once).
//
// Well-formed histories only (see DESIGN.md section 6): a PDR's URR list names existing URRs; a URR id is
// not re-created while a PDR list still names it; an id is not created twice; Update PDR carries an explicit
// non-empty URR list.

const (
	trigTERMR = 1 << 11
	trigIMMER = 1 << 7
	trigPERIO = 1 << 0
)

type urrRefSess struct {
	up      uint64
	cp      uint64
	peer    int
	exists  map[uint32]bool
	seq     map[uint32]uint32 // next expected UR-SEQN of the current incarnation
	pdr     map[uint32][]uint32
	pdrLive map[uint32]bool
}

func (s *urrRefSess) refs(u uint32) int {
	n := 0
	for p, l := range s.pdr {
		if !s.pdrLive[p] {
			continue
		}
		for _, x := range l {
			if x == u {
				n++
				break
			}
		}
	}
	return n
}

type urrEv struct {
	name string
	ops  []smf.RuleOp
	pre  func(s *urrRefSess) bool
	upd  bool // UpdateURR answered with a report by the data plane
}

type urrInst struct {
	*Base
	pre seqx.Pre
	prop  string
	tier  string
	menu  []urrEv
	sess  map[int]*urrRefSess // by establishment index
	order []int
	kset  [][]uint32
	nSide int
}

// side: the second session of C11 gets a small alphabet (it is there to show independence)
var sideMenu = map[string]bool{"QueryURR(1)": true, "RemoveURR(1)": true}

func subsets(ids []uint32) [][]uint32 {
	var out [][]uint32
	for m := 0; m < 1<<len(ids); m++ {
		var s []uint32
		for i, id := range ids {
			if m&(1<<i) != 0 {
				s = append(s, id)
			}
		}
		out = append(out, s)
	}
	return out
}

func allExist(s *urrRefSess, l []uint32) bool {
	for _, u := range l {
		if !s.exists[u] {
			return false
		}
	}
	return true
}

func named(s *urrRefSess, u uint32) bool {
	for p, l := range s.pdr {
		if !s.pdrLive[p] {
			continue
		}
		for _, x := range l {
			if x == u {
				return true
			}
		}
	}
	return false
}

// C11's alphabet: the full URR verb set on both URRs, a few PDR changes that dissociate / re-point, and
// the two-IE messages that put two reports for one URR into one response.
func (c *urrInst) buildMenuC11() {
	add := func(e urrEv) { c.menu = append(c.menu, e) }
	for _, u := range []uint32{1, 2} {
		u := u
		ex := func(s *urrRefSess) bool { return s.exists[u] }
		add(urrEv{name: fmt.Sprintf("CreateURR(%d)", u), ops: []smf.RuleOp{op('C', 'U', u)},
			pre: func(s *urrRefSess) bool { return !s.exists[u] && !named(s, u) }})
		add(urrEv{name: fmt.Sprintf("RemoveURR(%d)", u), ops: []smf.RuleOp{op('R', 'U', u)}, pre: ex})
		add(urrEv{name: fmt.Sprintf("QueryURR(%d)", u), ops: []smf.RuleOp{op('Q', 'U', u)}, pre: ex})
		add(urrEv{name: fmt.Sprintf("UpdateURR(%d) no report", u), ops: []smf.RuleOp{op('U', 'U', u)}, pre: ex})
		add(urrEv{name: fmt.Sprintf("UpdateURR(%d) with report", u), ops: []smf.RuleOp{op('U', 'U', u)}, upd: true, pre: ex})
	}
	pl := func(p uint32) func(s *urrRefSess) bool { return func(s *urrRefSess) bool { return s.pdrLive[p] } }
	add(urrEv{name: "RemovePDR(1)", ops: []smf.RuleOp{pdr('R', 1, 0)}, pre: pl(1)})
	add(urrEv{name: "RemovePDR(2)", ops: []smf.RuleOp{pdr('R', 2, 0)}, pre: pl(2)})
	add(urrEv{name: "UpdatePDR(2,[2])", ops: []smf.RuleOp{pdr('U', 2, 0, 2)}, pre: func(s *urrRefSess) bool { return s.pdrLive[2] && s.exists[2] }})
	add(urrEv{name: "UpdatePDR(1,[2])", ops: []smf.RuleOp{pdr('U', 1, 0, 2)}, pre: func(s *urrRefSess) bool { return s.pdrLive[1] && s.exists[2] }})
	add(urrEv{name: "CreatePDR(1,[1])", ops: []smf.RuleOp{pdr('C', 1, 1, 1)}, pre: func(s *urrRefSess) bool { return !s.pdrLive[1] && s.exists[1] }})
	add(urrEv{name: "QueryURR(1)+RemovePDR(1)", ops: []smf.RuleOp{op('Q', 'U', 1), pdr('R', 1, 0)}, pre: func(s *urrRefSess) bool { return s.exists[1] && s.pdrLive[1] }})
	add(urrEv{name: "QueryURR(1)+RemovePDR(2)", ops: []smf.RuleOp{op('Q', 'U', 1), pdr('R', 2, 0)}, pre: func(s *urrRefSess) bool { return s.exists[1] && s.pdrLive[2] }})
	add(urrEv{name: "RemoveURR(1)+RemovePDR(1)", ops: []smf.RuleOp{op('R', 'U', 1), pdr('R', 1, 0)}, pre: func(s *urrRefSess) bool { return s.exists[1] && s.pdrLive[1] }})
	c.nSide = len(c.menu)
	c.kset = [][]uint32{{1}, {2}, {1, 2}, {1, 1}}
}

func (c *urrInst) buildMenu() {
	if c.prop == "C11" {
		c.buildMenuC11()
		return
	}
	pids := []uint32{1, 2}
	if c.tier == "thorough" && c.prop == "C12" {
		pids = []uint32{1, 2, 3}
	}
	uids := []uint32{1, 2}
	add := func(e urrEv) { c.menu = append(c.menu, e) }
	for _, u := range uids {
		u := u
		add(urrEv{name: fmt.Sprintf("CreateURR(%d)", u), ops: []smf.RuleOp{op('C', 'U', u)},
			pre: func(s *urrRefSess) bool { return !s.exists[u] && !named(s, u) }})
		add(urrEv{name: fmt.Sprintf("RemoveURR(%d)", u), ops: []smf.RuleOp{op('R', 'U', u)},
			pre: func(s *urrRefSess) bool { return s.exists[u] }})
		add(urrEv{name: fmt.Sprintf("QueryURR(%d)", u), ops: []smf.RuleOp{op('Q', 'U', u)},
			pre: func(s *urrRefSess) bool { return s.exists[u] }})
		if c.prop == "C11" {
			add(urrEv{name: fmt.Sprintf("UpdateURR(%d) no report", u), ops: []smf.RuleOp{op('U', 'U', u)},
				pre: func(s *urrRefSess) bool { return s.exists[u] }})
			add(urrEv{name: fmt.Sprintf("UpdateURR(%d) with report", u), ops: []smf.RuleOp{op('U', 'U', u)}, upd: true,
				pre: func(s *urrRefSess) bool { return s.exists[u] }})
		}
	}
	for _, p := range pids {
		p := p
		for _, set := range subsets(uids) {
			set := set
			add(urrEv{name: fmt.Sprintf("CreatePDR(%d,%v)", p, set), ops: []smf.RuleOp{pdr('C', p, 1, set...)},
				pre: func(s *urrRefSess) bool { return !s.pdrLive[p] && allExist(s, set) }})
			if len(set) > 0 {
				add(urrEv{name: fmt.Sprintf("UpdatePDR(%d,%v)", p, set), ops: []smf.RuleOp{pdr('U', p, 0, set...)},
					pre: func(s *urrRefSess) bool { return s.pdrLive[p] && allExist(s, set) }})
			}
		}
		add(urrEv{name: fmt.Sprintf("RemovePDR(%d)", p), ops: []smf.RuleOp{pdr('R', p, 0)},
			pre: func(s *urrRefSess) bool { return s.pdrLive[p] }})
		for _, u := range uids {
			u := u
			// a URR and the PDR that names it provisioned by ONE Modification Request
			add(urrEv{name: fmt.Sprintf("CreateURR(%d)+CreatePDR(%d,[%d])", u, p, u), ops: []smf.RuleOp{op('C', 'U', u), pdr('C', p, 1, u)},
				pre: func(s *urrRefSess) bool { return !s.exists[u] && !named(s, u) && !s.pdrLive[p] }})
			add(urrEv{name: fmt.Sprintf("RemoveURR(%d)+RemovePDR(%d)", u, p), ops: []smf.RuleOp{op('R', 'U', u), pdr('R', p, 0)},
				pre: func(s *urrRefSess) bool { return s.exists[u] && s.pdrLive[p] }})
			add(urrEv{name: fmt.Sprintf("QueryURR(%d)+RemovePDR(%d)", u, p), ops: []smf.RuleOp{op('Q', 'U', u), pdr('R', p, 0)},
				pre: func(s *urrRefSess) bool { return s.exists[u] && s.pdrLive[p] }})
		}
	}
	c.kset = [][]uint32{{1}, {2}, {1, 2}, {1, 1}}
}

func urrSpec(prop string) func(tier, scenario string) seqx.Spec {
	return func(tier, scenario string) seqx.Spec {
		depth := 6 // C12: ~10 s
		dl := 110 * time.Second
		if prop == "C11" {
			depth = 5 // ~60-100 s
			dl = 170 * time.Second
		}
		if tier == "thorough" {
			depth += 2
			dl = 30 * time.Minute
		}
		return seqx.Spec{Prop: prop, Scenario: scenario, MaxDepth: depth, Deadline: dl, New: func() seqx.Instance {
			c := &urrInst{Base: NewBase(Options{MaxRetrans: 0}), prop: prop, tier: tier, sess: map[int]*urrRefSess{}}
			c.buildMenu()
			// initial state: association(s) and session(s) already in place (not counted in the depth)
			c.prefix()
			return c
		}}
	}
}

func init() {
	seqx.Register("C11", urrSpec("C11"))
	seqx.Register("C12", urrSpec("C12"))
}

func (c *urrInst) prefix() {
	peers := []int{0}
	if c.prop == "C11" {
		peers = []int{0, 1}
	}
	for _, p := range peers {
		c.W.Send(p, smf.Assoc(c.NextSeq(p), c.W.PeerIP(p)))
		c.R.Assoc(c.W.PeerIP(p), p)
		j := &Judge{Prop: c.prop}
		c.est(p, j)
		c.pre.Add(j.Viols...)
	}
}

// est establishes a session from peer p: C12 starts bare (FAR 1), C11 with URR 1,2 and PDR 1[1], 2[1,2].
func (c *urrInst) est(p int, j *Judge) StepObs {
	ops := []smf.RuleOp{op('C', 'F', 1)}
	if c.prop == "C11" {
		ops = append(ops, op('C', 'U', 1), op('C', 'U', 2), pdr('C', 1, 1, 1), pdr('C', 2, 1, 1, 2))
	}
	c.nEst++
	c.EstUP = append(c.EstUP, 0)
	cp := uint64(0x10) // both peers use the same CP SEID
	o := c.W.Send(p, smf.Est(c.NextSeq(p), c.W.PeerIP(p), true, cp, c.W.PeerIP(p), ops...))
	if j.Crashed(c.W, o) {
		return o
	}
	ms := j.OnlyTo(o, p, "Est")
	if len(ms) != 1 || ms[0].Cause() != smf.CauseAccepted {
		j.Fail("est-not-accepted", "establishment not accepted: %v", ms)
		return o
	}
	up, _, _ := ms[0].FSEID()
	c.R.NewSess(up, cp, c.W.PeerIP(p))
	c.EstUP[len(c.EstUP)-1] = up
	s := &urrRefSess{up: up, cp: cp, peer: p, exists: map[uint32]bool{}, seq: map[uint32]uint32{}, pdr: map[uint32][]uint32{}, pdrLive: map[uint32]bool{}}
	if c.prop == "C11" {
		s.exists[1], s.exists[2] = true, true
		s.pdr[1], s.pdr[2] = []uint32{1}, []uint32{1, 2}
		s.pdrLive[1], s.pdrLive[2] = true, true
	}
	c.sess[len(c.EstUP)] = s
	return o
}

func (c *urrInst) liveK() []int {
	var out []int
	for k := range c.sess {
		if c.sess[k] != nil {
			out = append(out, k)
		}
	}
	sort.Ints(out)
	return out
}

func (c *urrInst) Enabled() []seqx.Event {
	var ev []seqx.Event
	for _, k := range c.liveK() {
		s := c.sess[k]
		for m, e := range c.menu {
			if c.prop == "C11" && s.peer == 1 && !sideMenu[e.name] {
				continue
			}
			if e.pre(s) {
				x := seqx.Ev("Mod", int64(k), int64(m))
				x.N = fmt.Sprintf("s%d:%s", k, e.name)
				ev = append(ev, x)
			}
		}
		if c.prop == "C11" {
			for i, set := range c.kset {
				if s.peer == 1 && i != 0 {
					continue
				}
				if allExist(s, set) {
					ev = append(ev, seqx.Ev("KReport", int64(k), int64(i), 0))
					if i == 0 {
						ev = append(ev, seqx.Ev("KReport", int64(k), int64(i), 1)) // periodic
						ev = append(ev, seqx.Ev("KReport", int64(k), int64(i), 2)) // periodic, idle period: all counters zero
					}
				}
			}
		}
		ev = append(ev, seqx.Ev("Del", int64(k)))
	}
	if c.prop == "C11" && len(c.W.V.TxIDs()) > 0 {
		// the SMF leaves the outstanding Session Report Requests unanswered until they are abandoned (the retry
		// count is 0 here, so one expiry is the final one): the numbers they carried stay spent
		x := seqx.Ev("AbandonReports")
		x.N = "AbandonReports(all outstanding Session Report Requests time out)"
		ev = append(ev, x)
	}
	// re-establishment (SEID re-use) by a peer that has no live session
	for p := 0; p < 2; p++ {
		if _, ok := c.R.Nodes[c.W.PeerIP(p)]; !ok {
			continue
		}
		has := false
		for _, k := range c.liveK() {
			if c.sess[k].peer == p {
				has = true
			}
		}
		if !has {
			ev = append(ev, seqx.Ev("Est", int64(p)))
		}
	}
	return ev
}

func (c *urrInst) Key() string {
	// server dump (includes per-URR SEQN and reference counts) + data plane + reference expectations.
	// Outstanding report requests are left out: this world never answers or expires them and MaxRetrans is 0.
	var sb strings.Builder
	// C12 cannot observe UR-SEQN values: they are projected away (a Query only advances the counter, and
	// the final-report oracle never reads it), which keeps the C12 state space finite.
	noSeq := c.prop == "C12"
	sb.WriteString(c.W.V.Dump(pfcp.DumpOpt{NoTrans: true, Label: c.Label, NoSeq: noSeq}))
	sb.WriteString("DP " + c.W.D.DumpL(c.Label))
	for _, k := range c.liveK() {
		s := c.sess[k]
		var us []string
		for u := range s.exists {
			if s.exists[u] {
				if noSeq {
					us = append(us, fmt.Sprintf("%d", u))
				} else {
					us = append(us, fmt.Sprintf("%d@%d", u, s.seq[u]))
				}
			}
		}
		sort.Strings(us)
		var ps []string
		for p, l := range s.pdr {
			if s.pdrLive[p] {
				ps = append(ps, fmt.Sprintf("%d%v", p, l))
			}
		}
		sort.Strings(ps)
		fmt.Fprintf(&sb, "\nref %s urr=%v pdr=%v", c.Label(s.up), us, ps)
	}
	return sb.String()
}

// expected report of one step
type expRep struct {
	urr  uint32
	term bool
	immr bool
	peri bool
}

func (e expRep) String() string {
	return fmt.Sprintf("{urr=%d TERMR=%v IMMER=%v}", e.urr, e.term, e.immr)
}

// refMod advances the reference for one Modification and returns the expected reports. Removals of URRs
// are applied first (a URR that is being removed cannot also be "dissociated"), then PDR changes, then queries;
// this matches "once per URR" of the property and does not depend on the handler's internal order for the
// messages of this alphabet (at most one operation per rule id).
func refMod(s *urrRefSess, e urrEv) (exp []expRep, ceased []uint32) {
	for _, o := range e.ops {
		if o.Kind == 'U' && o.Verb == 'R' && s.exists[o.ID] {
			exp = append(exp, expRep{urr: o.ID, term: true})
			ceased = append(ceased, o.ID)
		}
	}
	gone := map[uint32]bool{}
	for _, u := range ceased {
		gone[u] = true
	}
	for _, o := range e.ops {
		switch {
		case o.Kind == 'U' && o.Verb == 'C':
			s.exists[o.ID] = true
			s.seq[o.ID] = 0
		case o.Kind == 'U' && o.Verb == 'U' && e.upd && s.exists[o.ID]:
			exp = append(exp, expRep{urr: o.ID})
		case o.Kind == 'P' && o.Verb == 'C':
			s.pdr[o.ID] = append([]uint32{}, o.URRs...)
			s.pdrLive[o.ID] = true
		case o.Kind == 'P' && (o.Verb == 'U' || o.Verb == 'R'):
			old := s.pdr[o.ID]
			had := map[uint32]bool{}
			for _, u := range old {
				had[u] = s.refs(u) > 0
			}
			if o.Verb == 'U' {
				s.pdr[o.ID] = append([]uint32{}, o.URRs...)
			} else {
				s.pdrLive[o.ID] = false
				delete(s.pdr, o.ID)
			}
			for _, u := range old {
				if had[u] && s.refs(u) == 0 && s.exists[u] && !gone[u] {
					exp = append(exp, expRep{urr: u, term: true})
				}
			}
		}
	}
	for _, o := range e.ops {
		if o.Kind == 'U' && o.Verb == 'Q' && s.exists[o.ID] && !gone[o.ID] {
			exp = append(exp, expRep{urr: o.ID, immr: true})
		}
	}
	return
}

func (c *urrInst) Apply(e seqx.Event) seqx.StepResult {
	j := &Judge{Prop: c.prop}
	var o StepObs
	switch e.Op {
	case "Est":
		o = c.est(int(e.A[0]), j)
		if c.R.IncOf[c.EstUP[len(c.EstUP)-1]] > 1 {
			j.Tag("seid-reused")
		}
	case "Mod":
		k, m := int(e.A[0]), int(e.A[1])
		s := c.sess[k]
		me := c.menu[m]
		c.W.D.UpdRpt = me.upd
		handed0 := len(c.W.D.Handed)
		others := c.otherSeq(k)
		o = c.W.Send(s.peer, smf.Mod(c.NextSeq(s.peer), s.up, "", me.ops...))
		if j.Crashed(c.W, o) {
			break
		}
		ms := j.OnlyTo(o, s.peer, "Mod")
		if len(ms) != 1 || ms[0].Type != smf.MModRsp || ms[0].Cause() != smf.CauseAccepted {
			j.Fail("mod-wrong-answer", "%s not answered accepted: %v", me.name, ms)
			break
		}
		exp, ceased := refMod(s, me)
		c.judgeReports(j, me.name, s, ms[0], exp, c.W.D.Handed[handed0:])
		for _, u := range ceased {
			s.exists[u] = false
			delete(s.seq, u)
		}
		c.othersUntouched(j, me.name, k, others)
	case "AbandonReports":
		before := c.W.V.SessDumps()
		for _, id := range c.W.V.TxIDs() {
			o = c.W.Expire(true, id)
			if j.Crashed(c.W, o) {
				break
			}
			if n := count(o); n != 0 {
				j.Fail("abandoned-request-sent-again", "the final expiry of a Session Report Request (retry count 0) produced %d datagram(s)", n)
			}
		}
		if len(c.W.V.TxIDs()) != 0 {
			j.Fail("bookkeeping-not-released", "transmit transactions left after their final expiry: %v", c.W.V.TxIDs())
		}
		after := c.W.V.SessDumps()
		for up, d := range before {
			if after[up] != d {
				j.Fail("urseqn-changed-by-timeout", "abandoning unanswered Session Report Requests changed session %s:\n%s\n---\n%s", c.Label(up), d, after[up])
			}
		}
	case "KReport":
		k, i, perio := int(e.A[0]), int(e.A[1]), e.A[2] >= 1
		s := c.sess[k]
		set := c.kset[i]
		trig := uint32(report.USAR_TRIG_VOLTH)
		if perio {
			trig = report.USAR_TRIG_PERIO
		}
		others := c.otherSeq(k)
		sr := UsageReportFor(s.up, trig, set...)
		if e.A[2] == 2 {
			// nothing was measured in this period: the report still takes its place in the URR's numbering
			for n := range sr.Reports {
				u := sr.Reports[n].(report.USAReport)
				u.VolumMeasure = report.VolumeMeasure{}
				sr.Reports[n] = u
			}
			j.Tag("idle-period-report")
		}
		o = c.W.Report(sr)
		if j.Crashed(c.W, o) {
			break
		}
		ms := j.OnlyTo(o, s.peer, "KReport")
		if len(ms) != 1 || ms[0].Type != smf.MReportReq {
			j.Fail("report-not-sent", "usage report notification for URRs %v of session %s: %d datagrams", set, c.Label(s.up), len(ms))
			break
		}
		var exp []expRep
		for _, u := range set {
			exp = append(exp, expRep{urr: u})
		}
		c.judgeReports(j, fmt.Sprintf("KReport%v", set), s, ms[0], exp, nil)
		if len(set) == 2 && set[0] == set[1] {
			j.Tag("two-reports-same-urr-one-message")
		}
		c.othersUntouched(j, "KReport", k, others)
	case "Del":
		k := int(e.A[0])
		s := c.sess[k]
		others := c.otherSeq(k)
		handed0 := len(c.W.D.Handed)
		o = c.W.Send(s.peer, smf.Del(c.NextSeq(s.peer), s.up))
		if j.Crashed(c.W, o) {
			break
		}
		ms := j.OnlyTo(o, s.peer, "Del")
		if len(ms) != 1 || ms[0].Type != smf.MDelRsp || ms[0].Cause() != smf.CauseAccepted {
			j.Fail("del-wrong-answer", "Deletion not answered accepted: %v", ms)
			break
		}
		var exp []expRep
		for u, ex := range s.exists {
			if ex {
				exp = append(exp, expRep{urr: u, term: true})
			}
		}
		c.judgeReports(j, "Del", s, ms[0], exp, c.W.D.Handed[handed0:])
		c.R.EndSession(s.up)
		c.sess[k] = nil
		c.othersUntouched(j, "Del", k, others)
	}
	return seqx.StepResult{Obs: e.String() + " => " + o.StringL(c.Label), Viols: append(c.pre.Take(), j.Viols...), Tags: j.Tags}
}

// otherSeq: the reference's next-SEQN expectations and the implementation's dumps of all other sessions
func (c *urrInst) otherSeq(k int) map[uint64]string {
	out := map[uint64]string{}
	d := c.W.V.SessDumps()
	for _, x := range c.liveK() {
		if x != k {
			out[c.sess[x].up] = d[c.sess[x].up]
		}
	}
	return out
}

func (c *urrInst) othersUntouched(j *Judge, what string, k int, before map[uint64]string) {
	if c.prop != "C11" {
		return
	}
	d := c.W.V.SessDumps()
	for up, b := range before {
		if d[up] != b {
			j.Fail("other-session-seqn-disturbed", "%s on another session changed session %s (its URR sequence numbers are independent): %s -> %s", what, c.Label(up), b, d[up])
		}
	}
}

// judgeReports compares the usage reports of one message with the expectation.
func (c *urrInst) judgeReports(j *Judge, what string, s *urrRefSess, m *smf.Msg, exp []expRep, handed []mdp.Report) {
	urs := m.UsageReports()
	// C11: UR-SEQN in emission (IE) order per URR
	if c.prop == "C11" {
		for _, u := range urs {
			if !s.exists[u.URRID] {
				continue // unexpected report: C12's business
			}
			want := s.seq[u.URRID]
			if !u.HasSEQN || u.SEQN != want {
				kind := "gap"
				if u.SEQN < want {
					kind = "repeat"
				}
				j.Fail("urseqn-"+kind+":"+carrier(u.Carrier), "%s: usage report for URR %d of session %s carries UR-SEQN %d, want %d (reports so far: 0..%d)", what, u.URRID, c.Label(s.up), u.SEQN, want, int(want)-1)
				// resynchronise so that one defect is reported once
				s.seq[u.URRID] = u.SEQN
			}
			s.seq[u.URRID]++
		}
		// number of reports per URR must match too, otherwise a missing report hides a gap
		got := map[uint32]int{}
		for _, u := range urs {
			got[u.URRID]++
		}
		wantN := map[uint32]int{}
		for _, e := range exp {
			wantN[e.urr]++
		}
		_ = got
		_ = wantN
		return
	}
	// C12: multiset of (urr, TERMR, IMMER)
	type key struct {
		urr        uint32
		term, immr bool
	}
	got := map[key]int{}
	for _, u := range urs {
		got[key{u.URRID, u.Trigger&trigTERMR != 0, u.Trigger&trigIMMER != 0}]++
	}
	want := map[key]int{}
	for _, e := range exp {
		want[key{e.urr, e.term, e.immr}]++
	}
	for k, n := range want {
		if got[k] < n {
			kind := "final"
			if k.immr {
				kind = "immediate"
			}
			j.Fail("missing-"+kind+"-report:"+opClass(what), "%s: expected %d usage report(s) for URR %d (TERMR=%v IMMER=%v) in the response, got %d; reports in the response: %s", what, n, k.urr, k.term, k.immr, got[k], urString(urs))
		}
	}
	for k, n := range got {
		if n > want[k] {
			j.Fail("unexpected-report:"+opClass(what), "%s: %d usage report(s) for URR %d (TERMR=%v IMMER=%v) in the response, expected %d; all reports: %s", what, n, k.urr, k.term, k.immr, want[k], urString(urs))
		}
	}
	if len(exp) > 0 {
		j.Tag("reports-expected")
	}
	// the usage returned is what the data plane measured (handed out in this step) for that URR
	for _, u := range urs {
		ok := false
		for _, h := range handed {
			if h.Key.ID == u.URRID && h.Key.SEID == s.up && u.HasVol && u.Vol[0] == h.Vol.TotalVolume && u.Vol[1] == h.Vol.UplinkVolume && u.Vol[2] == h.Vol.DownlinkVolume {
				ok = true
			}
		}
		if !ok {
			j.Fail("usage-not-as-measured:"+opClass(what), "%s: usage report for URR %d carries volumes %v that the data plane did not hand out for it in this request", what, u.URRID, u.Vol)
		}
	}
}

func carrier(t uint16) string {
	switch t {
	case smf.TURModRsp:
		return "modification-response"
	case smf.TURDelRsp:
		return "deletion-response"
	case smf.TURRepReq:
		return "report-request"
	}
	return "?"
}

// opClass strips ids from an event name: "UpdatePDR(1,[2])" -> "UpdatePDR"
func opClass(s string) string {
	out := ""
	depth := 0
	for _, c := range s {
		switch {
		case c == '(' || c == '[':
			depth++
		case c == ')' || c == ']':
			depth--
		case depth == 0:
			out += string(c)
		}
	}
	return out
}

func urString(urs []smf.UsageReport) string {
	var p []string
	for _, u := range urs {
		p = append(p, fmt.Sprintf("{urr=%d seqn=%d trig=%#x}", u.URRID, u.SEQN, u.Trigger))
	}
	return strings.Join(p, " ")
}

func runURR(prop, tier, bound string, assume ...string) {
	run := evid.NewRun(prop, tier)
	smp := &evid.Samples{N: 10}
	var total seqx.Stats
	spec := urrSpec(prop)(tier, "urr")
	// both map iteration orders; quick: C12 only (C11 quick already runs into its deadline with one order)
	st := seqx.ExploreOrders(run, spec, tier, smp, &total, tier == "thorough" || prop == "C12")
	if prop == "C12" {
		seqx.SetOrder("urr")
		run.Set("many_referrers_requests", c12ManyReferrers(run))
	}
	seqx.Finish(run, total, smp, fmt.Sprintf(bound, spec.MaxDepth, st.DepthDone))
	for _, a := range assume {
		run.Assumption(a)
	}
	run.Assumption("the model data plane answers URR removal and query with exactly one report (as gtp5g does) and hands out recognisable counters")
	run.Assumption("well-formed histories: PDR URR lists name existing URRs; an id is not created twice; Update PDR carries an explicit non-empty URR list")
	run.Finish()
}

// c12ManyReferrers: the boundary counts of the per-URR reference count. One URR is named by N PDRs (N around
// 2^8: 255, 256, 257; thorough also 2^16 neighbours is beyond a single request's size and left out); the PDRs are
// removed one by one: no report before the last referrer goes, exactly one final report (TERMR) when it does.
func c12ManyReferrers(run *evid.Run) int {
	evals := 0
	for _, n := range []int{2, 255, 256, 257} {
		b := NewBase(Options{MaxRetrans: 1})
		fail := func(sig, format string, a ...interface{}) {
			run.Report(evid.Violation{Signature: "C12:" + sig, Engine: "E1-seqx", Scenario: "many-referrers", What: fmt.Sprintf("URR 1 named by %d PDRs: ", n) + fmt.Sprintf(format, a...),
				Replay: map[string]interface{}{"kind": "many-referrers", "pdrs": n}})
		}
		o := b.W.Send(0, smf.Assoc(b.NextSeq(0), b.W.PeerIP(0)))
		ops := []smf.RuleOp{op('C', 'F', 1), {Verb: 'C', Kind: 'U', ID: 1, MInfo: -1}}
		for i := 1; i <= n; i++ {
			ops = append(ops, pdr('C', uint32(i), 1, 1))
		}
		o = b.W.Send(0, smf.Est(b.NextSeq(0), b.W.PeerIP(0), true, 0x10, b.W.PeerIP(0), ops...))
		evals++
		if !o.Alive || o.Fatal || len(o.Out[0]) != 1 || o.Out[0][0].Cause() != smf.CauseAccepted {
			fail("many-referrers:est", "establishment not accepted: %v (alive=%v fatal=%v)", o.Out[0], o.Alive, o.Fatal)
			b.Close()
			continue
		}
		up, _, _ := o.Out[0][0].FSEID()
		for i := 1; i <= n; i++ {
			o = b.W.Send(0, smf.Mod(b.NextSeq(0), up, "", smf.RuleOp{Verb: 'R', Kind: 'P', ID: uint32(i), MInfo: -1}))
			evals++
			if !o.Alive || o.Fatal || len(o.Out[0]) != 1 || o.Out[0][0].Cause() != smf.CauseAccepted {
				fail("many-referrers:mod", "Remove PDR %d not accepted: %v (alive=%v fatal=%v)", i, o.Out[0], o.Alive, o.Fatal)
				break
			}
			urs := o.Out[0][0].UsageReports()
			if i < n && len(urs) != 0 {
				fail("early-final-report:many-referrers", "Remove PDR %d produced %d usage report(s) while %d PDRs still refer to the URR", i, len(urs), n-i)
				break
			}
			if i == n && (len(urs) != 1 || urs[0].URRID != 1 || urs[0].Trigger&(1<<11) == 0) {
				fail("missing-final-report:many-referrers", "removal of the last referring PDR produced %d usage report(s) %v, want exactly one for URR 1 marked as termination report", len(urs), urs)
			}
		}
		b.Close()
	}
	return evals
}

func RunC12(tier string) {
	runURR("C12", tier, "one session, PDR ids {1,2} (thorough {1,2,3}) x URR ids {1,2}: Create/Update/Remove PDR with every URR list, Create/Remove/Query URR, the pairs Create URR+Create PDR, Remove URR+Remove PDR and Query URR+Remove PDR in one message, Deletion and re-establishment; all histories to depth %d (completed %d) from the established session; plus the boundary counts of the reference count: one URR named by 2 / 255 / 256 / 257 PDRs removed one by one")
}

func RunC11(tier string) {
	runURR("C11", tier, "two sessions on two peers (equal CP SEIDs), URRs {1,2}, PDRs {1:[1], 2:[1,2]}: kernel and periodic reports (incl. two reports for one URR in one message), Query/Update (data plane answering with or without a report)/Remove/re-Create URR, Remove/Update PDR, Query+dissociation in one message, Deletion, SEID re-use; all histories to depth %d (completed %d) from the established sessions")
}
