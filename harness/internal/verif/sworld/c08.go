//go:build verif

package sworld

import (
	"fmt"
	"strings"
	"time"

	"github.com/free5gc/go-upf/internal/pfcp"
	"github.com/free5gc/go-upf/internal/verif/evid"
	"github.com/free5gc/go-upf/internal/verif/seqx"
	"github.com/free5gc/go-upf/internal/verif/smf"
)

// C08 — responses are correlated with their request and consistent with its effect.
//
// Alphabet: from A and B (equal sequence counters, equal CP SEIDs) and from the never-associated peer C:
// Heartbeat; Association with / without Node ID; Establishment: normal with a PDR carrying a UE IP address,
// with PDRs with and without UE IP, without Node ID, without CP F-SEID, for an unknown node; Modification and
// Deletion for live, released and never-issued SEIDs; a Modification for a live session whose Node ID IE does not
// decode (go-upf does not answer it) and which carries rule IEs.

type c08 struct {
	*Base
	tier string
	rts  map[uint32]bool // recovery time stamps seen in this history
	last [NPeers]*c08Last // the most recent request of each peer and what answered it
}

type c08Last struct {
	req []byte
	rsp *smf.Msg // nil: it was not answered
}

var c08Est = []string{"normal(PDR1 with UE IP)", "PDR1 with + PDR2 without UE IP", "no PDR", "without Node ID", "without CP F-SEID", "for unknown node id", "PDR1 + PDR2 with UE IPs, PDR2's PDI encoded before its PDR ID"}

func c08Spec(tier, scenario string) seqx.Spec {
	depth := 7
	dl := 170 * time.Second
	if tier == "thorough" {
		depth = 9
		dl = 30 * time.Minute
	}
	return seqx.Spec{Prop: "C08", Scenario: scenario, MaxDepth: depth, Deadline: dl, New: func() seqx.Instance {
		return &c08{Base: NewBase(Options{MaxRetrans: 1}), tier: tier, rts: map[uint32]bool{}}
	}}
}

func init() { seqx.Register("C08", c08Spec) }

func (c *c08) Enabled() []seqx.Event {
	var ev []seqx.Event
	nm := func(e seqx.Event, f string, a ...interface{}) seqx.Event { e.N = fmt.Sprintf(f, a...); return e }
	for p := 0; p < 3; p++ {
		P := 'A' + p
		ev = append(ev, nm(seqx.Ev("HB", int64(p)), "Heartbeat(%c)", P))
		if p < 2 {
			ev = append(ev, nm(seqx.Ev("Assoc", int64(p), 1), "Assoc(%c)", P))
		}
		ev = append(ev, nm(seqx.Ev("Assoc", int64(p), 0), "AssocWithoutNodeID(%c)", P))
		if len(c.R.Live) < 2 {
			for v := range c08Est {
				if p == 2 && v != 0 {
					continue // from C only the plain establishment (C is not associated)
				}
				ev = append(ev, nm(seqx.Ev("Est", int64(p), int64(v)), "Est(%c,%s)", P, c08Est[v]))
			}
		}
	}
	// A2: A's IP address with another UDP source port; its sequence numbers coincide with A's
	ev = append(ev, nm(seqx.Ev("HB", PeerA2), "Heartbeat(A:8806)"))
	for k := 1; k <= len(c.EstUP); k++ {
		if c.Holder(k) {
			ev = append(ev, nm(seqx.Ev("Mod", int64(k)), "Mod(s%d)", k), nm(seqx.Ev("Del", int64(k)), "Del(s%d)", k))
			if ls := c.R.Live[c.SeidOf(k)]; ls != nil {
				// the same Modification sent from an address other than the one the session's node associated from:
				// A's sessions from A's IP address with another UDP port, B's sessions from A. Whatever the answer,
				// it goes to the address the request came from
				q := int64(PeerA2)
				if ls.Peer != 0 {
					q = 0
				}
				ev = append(ev, nm(seqx.Ev("Mod", int64(k), q), "Mod(s%d) from %s", k, []string{"A", "B", "C", "", "", "A:8806"}[q]))
			}
			if c.R.Live[c.SeidOf(k)] != nil {
				// a Modification that go-upf does not answer: its Node ID IE does not decode; it also carries rules
				ev = append(ev, nm(seqx.Ev("ModBadNode", int64(k)), "Mod(s%d, undecodable Node ID + Create FAR 3 + Remove FAR 1)", k))
			}
		}
	}
	never := int64(len(c.R.IncOf)) + 1
	ev = append(ev, nm(seqx.Ev("ModRaw", never), "Mod(never-issued SEID)"), nm(seqx.Ev("DelRaw", never), "Del(never-issued SEID)"))
	return ev
}

func (c *c08) Key() string {
	return c.W.V.Dump(pfcp.DumpOpt{NoTrans: true, Label: c.Label, NoSeq: true}) + "DP " + c.W.D.DumpL(c.Label) + fmt.Sprintf(" rts=%d", len(c.rts))
}

// state as judged by the "no trace" oracles: the fields the properties speak about, not fields a change may
// have added for its own purposes (those still enter the state KEY, where they can only widen the search)
// resendOthers: every OTHER peer retransmits its most recent request (something has been answered in between):
// the answer must again be the one that belongs to that request, go to that peer only, and have no effect.
func (c *c08) resendOthers(j *Judge, p int) {
	for q := 0; q < 3; q++ {
		l := c.last[q]
		if q == p || l == nil || c.W.Dead {
			continue
		}
		s0 := c.state()
		o := c.W.Send(q, l.req)
		if j.Crashed(c.W, o) {
			return
		}
		for r := range o.Out {
			if r != q && len(o.Out[r]) > 0 {
				j.Fail("response-to-wrong-address:retransmission", "a retransmitted request from %c made a datagram go to %c", 'A'+q, 'A'+r)
			}
		}
		switch {
		case l.rsp == nil && len(o.Out[q]) != 0:
			j.Fail("retransmission-answer-differs", "the request had not been answered, its retransmission got %v", o.Out[q])
		case l.rsp != nil && len(o.Out[q]) != 1:
			j.Fail("retransmission-answer-differs", "the request had been answered with %v, its retransmission got %d datagram(s)", l.rsp, len(o.Out[q]))
		case l.rsp != nil:
			if m := o.Out[q][0]; m.Type != l.rsp.Type || m.Seq != l.rsp.Seq || m.SEID != l.rsp.SEID {
				j.Fail("retransmission-answer-differs", "the request of %c had been answered with %v; its retransmission is answered with %v (another request's response?)", 'A'+q, l.rsp, m)
			}
		}
		if c.state() != s0 || len(o.Calls) != 0 {
			j.Fail("retransmission-has-effect", "a retransmitted request changed state or reached the data plane: calls %v", o.Calls)
		}
		j.Tag("retransmission-after-other-traffic")
	}
}

// send delivers a request and remembers it together with its answer (for the Resend event).
func (c *c08) send(p int, b []byte) StepObs {
	o := c.W.Send(p, b)
	l := &c08Last{req: b}
	if len(o.Out[p]) > 0 {
		l.rsp = o.Out[p][0]
	}
	c.last[p] = l
	return o
}

func (c *c08) state() string { return c.W.V.Dump(pfcp.DumpOpt{NoTrans: true, NoExtra: true}) + c.W.D.Dump() }

// correlate: generic checks on the datagrams of one step.
func (c *c08) correlate(j *Judge, what string, o StepObs, p int, seq uint32, wantType uint8) *smf.Msg {
	for q := range o.Out {
		if q != p && len(o.Out[q]) > 0 {
			j.Fail("response-to-wrong-address:"+what, "%s from %c: a datagram went to %c", what, 'A'+p, 'A'+q)
		}
	}
	ms := o.Out[p]
	if len(ms) > 1 {
		j.Fail("several-responses:"+what, "%s: %d datagrams", what, len(ms))
	}
	if len(ms) == 0 {
		return nil
	}
	m := ms[0]
	if m.Seq != seq {
		j.Fail("sequence-not-echoed:"+what, "%s with sequence number %d answered with %d", what, seq, m.Seq)
	}
	if m.Type != wantType {
		j.Fail("wrong-response-type:"+what, "%s answered with message type %d, want %d", what, m.Type, wantType)
	}
	if ts, ok := m.RecoveryTS(); ok {
		c.rts[ts] = true
		if len(c.rts) > 1 {
			j.Fail("recovery-time-stamp-changed", "recovery time stamps differ between responses of one process lifetime: %v", c.rts)
		}
	} else if wantType == smf.MHeartbeatRsp || wantType == smf.MAssocRsp {
		j.Fail("recovery-time-stamp-missing:"+what, "%s response without Recovery Time Stamp", what)
	}
	return m
}

func (c *c08) noTrace(j *Judge, what string, s0 string, o StepObs) {
	if c.state() != s0 || len(o.Calls) != 0 {
		j.Fail("trace-of-unsuccessful-request:"+what, "%s was answered with an error / not answered but left a trace: calls %v, state changed=%v", what, o.Calls, c.state() != s0)
	}
}

func (c *c08) Apply(e seqx.Event) seqx.StepResult {
	j := &Judge{Prop: "C08"}
	var o StepObs
	s0 := c.state()
	switch e.Op {
	case "HB":
		p := int(e.A[0])
		seq := c.NextSeq(p)
		o = c.send(p, smf.Heartbeat(seq))
		if j.Crashed(c.W, o) {
			break
		}
		if c.correlate(j, "Heartbeat", o, p, seq, smf.MHeartbeatRsp) == nil {
			j.Fail("heartbeat-unanswered", "Heartbeat Request from %c not answered", 'A'+p)
		}
		c.noTraceOK(j, "Heartbeat", s0, o)
	case "Assoc":
		p, withID := int(e.A[0]), e.A[1] == 1
		seq := c.NextSeq(p)
		id := ""
		if withID {
			id = c.W.PeerIP(p)
		}
		o = c.send(p, smf.Assoc(seq, id))
		if j.Crashed(c.W, o) {
			break
		}
		m := c.correlate(j, "Assoc", o, p, seq, smf.MAssocRsp)
		if !withID {
			j.Tag("assoc-without-node-id")
			if m == nil || m.Cause() != smf.CauseAccepted {
				c.noTrace(j, "AssocWithoutNodeID", s0, o)
			} else {
				j.Fail("assoc-without-node-id-accepted", "Association Setup Request without Node ID accepted")
			}
			break
		}
		if m == nil || m.Cause() != smf.CauseAccepted {
			j.Fail("assoc-not-accepted", "well-formed Association Setup Request not accepted: %v", m)
			break
		}
		if m.NodeID() != c.W.Cfg.Pfcp.NodeID {
			j.Fail("assoc-node-id", "Association Setup Response carries node id %q, want the UPF's %q", m.NodeID(), c.W.Cfg.Pfcp.NodeID)
		}
		c.R.Assoc(id, p)
	case "Est":
		p, v := int(e.A[0]), int(e.A[1])
		seq := c.NextSeq(p)
		node, withF := c.W.PeerIP(p), true
		ops := []smf.RuleOp{op('C', 'F', 1)}
		ue := map[uint32]string{}
		switch v {
		case 0:
			ops = append(ops, smf.RuleOp{Verb: 'C', Kind: 'P', ID: 1, FAR: 1, UEIP: "10.60.0.1", MInfo: -1})
			ue[1] = "10.60.0.1"
		case 1:
			ops = append(ops, smf.RuleOp{Verb: 'C', Kind: 'P', ID: 1, FAR: 1, UEIP: "10.60.0.1", MInfo: -1}, smf.RuleOp{Verb: 'C', Kind: 'P', ID: 2, FAR: 1, MInfo: -1})
			ue[1] = "10.60.0.1"
		case 6:
			ops = append(ops, smf.RuleOp{Verb: 'C', Kind: 'P', ID: 1, FAR: 1, UEIP: "10.60.0.1", MInfo: -1},
				smf.RuleOp{Verb: 'C', Kind: 'P', ID: 2, FAR: 1, UEIP: "10.60.0.2", PDIFirst: true, MInfo: -1})
			ue[1], ue[2] = "10.60.0.1", "10.60.0.2"
		case 3:
			node = ""
		case 4:
			withF = false
		case 5:
			node = c.W.PeerIP(4) // a node id nobody has associated
		}
		_, assoc := c.R.Nodes[node]
		cp := uint64(0x10) // every peer chooses the same CP SEIDs (0x10 for its first live session, 0x20 for the second)
		for _, s := range c.R.Live {
			if s.Peer == p && s.CP == cp {
				cp = 0x20
			}
		}
		o = c.send(p, smf.Est(seq, node, withF, cp, c.W.PeerIP(p), ops...))
		if j.Crashed(c.W, o) {
			break
		}
		m := c.correlate(j, "Est", o, p, seq, smf.MEstRsp)
		valid := node != "" && withF && assoc
		if !valid {
			j.Tag("est-invalid:" + c08Est[v])
			if m != nil && m.Cause() == smf.CauseAccepted {
				j.Fail("invalid-establishment-accepted", "Establishment (%s, node associated=%v) accepted", c08Est[v], assoc)
				break
			}
			c.noTrace(j, "Est("+c08Est[v]+")", s0, o)
			break
		}
		if m == nil || m.Cause() != smf.CauseAccepted {
			j.Fail("est-not-accepted", "valid Establishment Request from associated %c not accepted: %v", 'A'+p, m)
			break
		}
		if m.SEID != cp {
			j.Fail("est-response-seid", "Establishment Response header SEID %#x, want the CP SEID %#x the peer chose", m.SEID, cp)
		}
		if m.NodeID() != c.W.Cfg.Pfcp.NodeID {
			j.Fail("est-node-id", "Establishment Response node id %q, want %q", m.NodeID(), c.W.Cfg.Pfcp.NodeID)
		}
		up, _, ok := m.FSEID()
		if !ok || up == 0 {
			j.Fail("est-no-fseid", "accepted Establishment Response without UP F-SEID")
			break
		}
		if other := c.R.Live[up]; other != nil {
			j.Fail("fseid-shared-with-live-session", "the UP F-SEID %#x returned for the new session (CP SEID %#x) is the one session %s (CP SEID %#x) was given and still uses: it cannot address both", up, cp, c.Label(up), other.CP)
			break
		}
		c.EstUP = append(c.EstUP, up)
		c.R.NewSess(up, cp, node)
		// Created PDR exactly for PDRs that carried a UE IPv4 address
		got := map[uint32]string{}
		for _, x := range m.CreatedPDRs() {
			got[uint32(x.ID)] = x.UEIP.String()
		}
		if fmt.Sprint(got) != fmt.Sprint(ue) {
			j.Fail("created-pdr-list", "Created PDR IEs %v, want exactly those for PDRs with a UE IP address: %v", got, ue)
		}
		// the UP F-SEID addresses the new session from now on - and the F-SEIDs returned earlier keep
		// addressing their sessions (probe every live session, each from its own peer)
		for _, lup := range c.R.LiveIDs() {
			ls := c.R.Live[lup]
			ps := c.NextSeq(ls.Peer)
			po := c.W.Send(ls.Peer, smf.Mod(ps, lup, ""))
			if pm := c.correlate(j, "ModAfterEst", po, ls.Peer, ps, smf.MModRsp); pm == nil || pm.Cause() != smf.CauseAccepted || pm.SEID != ls.CP {
				which := "just returned"
				if lup != up {
					which = "returned by an earlier establishment"
				}
				j.Fail("fseid-does-not-address-session", "after this establishment a Modification addressed to the UP F-SEID %s (%s) was answered %v, want accepted with that session's CP SEID %#x", c.Label(lup), which, pm, ls.CP)
			}
		}
	case "ModBadNode":
		seid := c.SeidOf(int(e.A[0]))
		s := c.R.Live[seid]
		p := s.Peer
		seq := c.NextSeq(p)
		o = c.send(p, smf.ModRawNode(seq, seid, []byte{3, 10, 0, 0, 2}, op('C', 'F', 3), op('R', 'F', 1)))
		if j.Crashed(c.W, o) {
			break
		}
		m := c.correlate(j, "ModBadNode", o, p, seq, smf.MModRsp)
		switch {
		case m == nil:
			j.Tag("request-not-answered")
			c.noTrace(j, "Mod(undecodable Node ID)", s0, o)
		case m.Cause() != smf.CauseAccepted:
			j.Tag("request-rejected")
			c.noTrace(j, "Mod(undecodable Node ID)", s0, o)
		default:
			if m.SEID != s.CP {
				j.Fail("session-response-seid:ModBadNode", "%s accepted with header SEID %#x, want the peer's SEID %#x", e, m.SEID, s.CP)
			}
		}
	case "Mod", "Del", "ModRaw", "DelRaw":
		seid := uint64(e.A[0])
		if e.Op == "Mod" || e.Op == "Del" {
			seid = c.SeidOf(int(e.A[0]))
		}
		s := c.R.Live[seid]
		p := 0
		if s != nil {
			p = s.Peer
		}
		if e.Op == "Mod" && len(e.A) > 1 {
			p = int(e.A[1]) // sent from another address than the owner's
		}
		seq := c.NextSeq(p)
		isMod := strings.HasPrefix(e.Op, "Mod")
		var m *smf.Msg
		if isMod {
			o = c.send(p, smf.Mod(seq, seid, "", op('C', 'F', 2)))
			if j.Crashed(c.W, o) {
				break
			}
			m = c.correlate(j, "Mod", o, p, seq, smf.MModRsp)
		} else {
			o = c.send(p, smf.Del(seq, seid))
			if j.Crashed(c.W, o) {
				break
			}
			m = c.correlate(j, "Del", o, p, seq, smf.MDelRsp)
		}
		what := e.Op
		if m == nil {
			j.Fail("session-request-unanswered:"+what, "%s not answered", e)
			break
		}
		if s != nil {
			if m.Cause() != smf.CauseAccepted || m.SEID != s.CP {
				j.Fail("session-response-seid:"+what, "%s for live session: cause %d, header SEID %#x; want accepted with the peer's SEID %#x", e, m.Cause(), m.SEID, s.CP)
			}
			if !isMod {
				c.R.EndSession(seid)
			}
		} else {
			j.Tag("session-not-found")
			if m.Cause() != smf.CauseContextNotFound || m.SEID != 0 {
				j.Fail("not-found-answer:"+what, "%s for a non-existent session: cause %d, header SEID %#x; want cause 65 with SEID 0", e, m.Cause(), m.SEID)
			}
			c.noTrace(j, what+"(non-existent)", s0, o)
		}
	}
	if len(j.Viols) == 0 && len(e.A) > 0 && e.Op != "Mod" && e.Op != "Del" && e.Op != "ModRaw" && e.Op != "DelRaw" && e.Op != "ModBadNode" {
		c.resendOthers(j, int(e.A[0]))
	} else if len(j.Viols) == 0 {
		c.resendOthers(j, -1) // session-addressed events: the acting peer is the session's; every peer's last request is re-sent
	}
	return seqx.StepResult{Obs: e.String() + " => " + o.StringL(c.Label), Viols: j.Viols, Tags: j.Tags}
}

func (c *c08) noTraceOK(j *Judge, what, s0 string, o StepObs) {
	if c.state() != s0 || len(o.Calls) != 0 {
		j.Fail("heartbeat-changes-state", "%s changed session or data-plane state", what)
	}
}

func RunC08(tier string) {
	run := evid.NewRun("C08", tier)
	smp := &evid.Samples{N: 10}
	var total seqx.Stats
	spec := c08Spec(tier, "requests")
	st := seqx.Explore(run, spec, tier, smp)
	seqx.Merge(run, "requests", st, &total)
	seqx.Finish(run, total, smp, fmt.Sprintf("peers A, B (equal CP SEIDs and sequence numbers) and the unassociated C; Heartbeat, Association with/without Node ID, 6 Establishment variants (with/without UE IP PDRs, without Node ID, without CP F-SEID, unknown node), Modification/Deletion of live, released and never-issued SEIDs; <=2 live sessions; all histories to depth %d (completed %d)", spec.MaxDepth, st.DepthDone))
	run.Assumption("the model data plane stands for the gtp5g kernel module")
	run.Finish()
}
