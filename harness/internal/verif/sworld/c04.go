//go:build verif

package sworld

import (
	"fmt"
	"time"

	"github.com/free5gc/go-upf/internal/pfcp"
	"github.com/free5gc/go-upf/internal/verif/evid"
	"github.com/free5gc/go-upf/internal/verif/seqx"
	"github.com/free5gc/go-upf/internal/verif/smf"
)

// C04 — every SEID resolves to exactly the live session it was issued for.
//
// Alphabet (two peers A, B; node id = peer address):
//   Assoc(p)             association setup (re-association ends the node's sessions)
//   Est(p)               establishment with FAR 1, URR 1, PDR 1; CP SEID unique per establishment
//   Del(class, arg)      deletion addressed to a SEID of a class (live / released / 0 / beyond / >= 2^63 ...)
//   Report(s)            usage report notification for live session s (creates an outstanding request)
//   Rsp(k, zero)         Session Report Response to the k-th outstanding request, SEID 0 or matching
// After every transition a probe sweep sends an (empty) Session Modification Request to every SEID class.
//
// State key: server dump without transaction tables + data-plane table + outstanding requests as (peer, CP SEID).
// Dropped: receive-transaction entries and sequence counters: all request sequence numbers of a history
// are unique, so no later event can hit a retained entry; the transmit counter only chooses wire numbers.

type c04 struct {
	*Base
	maxLive  int
	probeSeq uint32
	pre      seqx.Pre
	nEstBy   [NPeers]int
	noPDR    map[uint64]bool // live sessions (by UP SEID) whose only PDR has been removed
	merged   bool            // a session was taken over onto the id of another associated node (terminal)
}

func c04Spec(tier, scenario string) seqx.Spec {
	// depth is counted from the state in which both peers are associated (re-association stays in the alphabet):
	// 5 from there covers the histories that took 7 events from the empty state
	depth, maxLive := 5, 3
	dl := 100 * time.Second
	if tier == "thorough" {
		depth, maxLive = 7, 4
		dl = 25 * time.Minute
	}
	return seqx.Spec{Prop: "C04", Scenario: scenario, MaxDepth: depth, Deadline: dl,
		New: func() seqx.Instance {
			c := &c04{Base: NewBase(Options{MaxRetrans: 1}), maxLive: maxLive, probeSeq: 0x700000}
			for p := 0; p < 2; p++ {
				c.pre.Add(c.Apply(seqx.Ev("Assoc", int64(p))).Viols...)
			}
			return c
		}}
}

func init() { seqx.Register("C04", c04Spec) }

var weirdSEIDs = []uint64{0, 1 << 32, 1<<63 - 1, 1 << 63, 1<<63 + 1, 1<<64 - 1}

func (c *c04) seidClasses() []uint64 {
	out := append([]uint64{}, c.R.LiveIDs()...)
	out = append(out, c.R.ReleasedIDs()...)
	slots := uint64(len(c.R.IncOf))
	out = append(out, slots+1)
	for _, w := range weirdSEIDs {
		out = append(out, w)
	}
	return out
}

func (c *c04) Enabled() []seqx.Event {
	var ev []seqx.Event
	if c.merged {
		// what re-association and establishment mean once two associations share a node id is not settled by the
		// property: the takeover step itself was judged, the history is not continued
		return nil
	}
	for p := 0; p < 2; p++ {
		ev = append(ev, seqx.Ev("Assoc", int64(p)))
	}
	if len(c.R.Live) < c.maxLive {
		for p := 0; p < 2; p++ {
			if _, ok := c.R.Nodes[c.W.PeerIP(p)]; ok {
				ev = append(ev, seqx.Ev("Est", int64(p)))
			}
		}
	}
	// sessions are named by establishment index k (see Base.EstUP); Del(k) addresses the SEID establishment
	// k was given, whether that session is still live or already released
	for k := 1; k <= len(c.EstUP); k++ {
		if c.Holder(k) {
			ev = append(ev, seqx.Ev("Del", int64(k)))
		}
	}
	ev = append(ev, seqx.Ev("DelRaw", int64(len(c.R.IncOf))+1))
	for _, w := range weirdSEIDs {
		ev = append(ev, seqx.Ev("DelRaw", int64(w)))
	}
	for k := 1; k <= len(c.EstUP); k++ {
		if c.Holder(k) && c.R.Live[c.SeidOf(k)] != nil && len(c.R.Tx) < 2 {
			ev = append(ev, seqx.Ev("Report", int64(k)))
		}
	}
	// SMF-set takeover of a session onto the node id of the OTHER associated peer (a Modification carrying that
	// Node ID): it is addressed to one SEID and must leave every other SEID's session alone (terminal step)
	for k := 1; k <= len(c.EstUP); k++ {
		if x := c.R.Live[c.SeidOf(k)]; c.Holder(k) && x != nil {
			if _, ok := c.R.Nodes[c.W.PeerIP(1-x.Peer)]; ok && x.Peer < 2 {
				ev = append(ev, seqx.Ev("TakeoverX", int64(k)))
			}
		}
	}
	// a session may lose its last PDR before it ends: its other rules must still go when it is released
	for k := 1; k <= len(c.EstUP); k++ {
		if c.Holder(k) && c.R.Live[c.SeidOf(k)] != nil && !c.noPDR[c.SeidOf(k)] {
			ev = append(ev, seqx.Ev("RmPDR", int64(k)))
		}
	}
	for k := range c.R.Tx {
		ev = append(ev, seqx.Ev("Rsp", int64(k), 1), seqx.Ev("Rsp", int64(k), 0))
	}
	return ev
}

func (c *c04) Key() string {
	k := c.W.V.Dump(pfcp.DumpOpt{NoTrans: true, Label: c.Label}) + "\nDP " + c.W.D.DumpL(c.Label) + "\nTX"
	for _, t := range c.R.Tx {
		k += fmt.Sprintf(" %d/%#x/%s", t.Peer, t.CP, c.Label(t.UP))
	}
	return k
}

func (c *c04) snapshot() (string, string) {
	return c.W.V.Dump(pfcp.DumpOpt{NoTrans: true, NoExtra: true}), c.W.D.Dump()
}

// ownerPeer: the peer a request for SEID s is sent from (its owner if live, else A).
func (c *c04) ownerPeer(s uint64) int {
	if x := c.R.Live[s]; x != nil {
		return x.Peer
	}
	return 0
}

func (c *c04) Apply(e seqx.Event) seqx.StepResult {
	j := &Judge{Prop: "C04"}
	var o StepObs
	switch e.Op {
	case "Assoc":
		p := int(e.A[0])
		o = c.W.Send(p, smf.Assoc(c.NextSeq(p), c.W.PeerIP(p)))
		if j.Crashed(c.W, o) {
			break
		}
		ended := c.R.Assoc(c.W.PeerIP(p), p)
		for _, up := range ended {
			if rows := c.W.D.DumpOf(up, false); rows != "" {
				j.Fail("reassoc-leaves-rules", "re-association ended session %#x but the data plane still holds %s", up, rows)
			}
		}
		j.OnlyTo(o, p, "Assoc")
	case "Est":
		p := int(e.A[0])
		c.nEst++
		c.EstUP = append(c.EstUP, 0)
		// CP SEIDs are chosen by the peers: the k-th session of A and the k-th session of B carry the same one
		c.nEstBy[p]++
		cp := uint64(0x1000 + c.nEstBy[p])
		rowsBefore := c.W.D.Rows()
		o = c.W.Send(p, smf.Est(c.NextSeq(p), c.W.PeerIP(p), true, cp, c.W.PeerIP(p),
			smf.RuleOp{Verb: 'C', Kind: 'F', ID: 1}, smf.RuleOp{Verb: 'C', Kind: 'U', ID: 1, MInfo: -1},
			smf.RuleOp{Verb: 'C', Kind: 'P', ID: 1, FAR: 1, URRs: []uint32{1}}))
		if j.Crashed(c.W, o) {
			break
		}
		ms := j.OnlyTo(o, p, "Est")
		if len(ms) != 1 || ms[0].Type != smf.MEstRsp || ms[0].Cause() != smf.CauseAccepted {
			j.Fail("est-not-accepted", "establishment from associated peer %c not answered with an accepted response: %v", 'A'+p, ms)
			break
		}
		up, _, ok := ms[0].FSEID()
		if !ok || up == 0 {
			j.Fail("est-zero-seid", "Establishment Response carries no / a zero UP F-SEID")
			break
		}
		if c.R.Live[up] != nil {
			j.Fail("est-duplicate-seid", "UP SEID %#x issued while session %#x (CP %#x) still holds it", up, up, c.R.Live[up].CP)
			break
		}
		if c.R.IncOf[up] > 0 {
			j.Tag("seid-reissued")
			if !c.R.Released[up] {
				j.Fail("est-reissue-not-released", "UP SEID %#x re-issued but its previous session has not ended", up)
			}
			for _, k := range rowsBefore {
				if k.SEID == up {
					j.Fail("est-reissue-before-removed", "UP SEID %#x re-issued while the data plane still held %s of its previous session", up, k)
				}
			}
		}
		c.R.NewSess(up, cp, c.W.PeerIP(p))
		c.EstUP[len(c.EstUP)-1] = up
		delete(c.noPDR, up)
	case "Del", "DelRaw":
		s := uint64(e.A[0])
		if e.Op == "Del" {
			s = c.SeidOf(int(e.A[0]))
		}
		p := c.ownerPeer(s)
		sd0, dp0 := c.snapshot()
		others0 := c.W.D.DumpOf(s, true)
		dumps0 := c.W.V.SessDumps()
		o = c.W.Send(p, smf.Del(c.NextSeq(p), s))
		if j.Crashed(c.W, o) {
			break
		}
		ms := j.OnlyTo(o, p, "Del")
		if len(ms) != 1 || ms[0].Type != smf.MDelRsp {
			j.Fail("del-no-response", "Deletion Request for SEID %#x: %d responses", s, len(ms))
			break
		}
		if x := c.R.Live[s]; x != nil {
			j.Tag("del-live")
			if ms[0].Cause() != smf.CauseAccepted || ms[0].SEID != x.CP {
				j.Fail("del-live-wrong-answer", "Deletion of live session %#x answered cause=%d header SEID=%#x, want accepted with CP SEID %#x", s, ms[0].Cause(), ms[0].SEID, x.CP)
			}
			if rows := c.W.D.DumpOf(s, false); rows != "" {
				j.Fail("del-leaves-rules", "session %#x deleted but the data plane still holds %s", s, rows)
			}
			if c.W.D.DumpOf(s, true) != others0 {
				j.Fail("del-touches-others", "deleting session %#x changed rules of other sessions: %q -> %q", s, others0, c.W.D.DumpOf(s, true))
			}
			d1 := c.W.V.SessDumps()
			if _, still := d1[s]; still {
				j.Fail("del-not-removed", "session %#x still present after its deletion was accepted", s)
			}
			for k, v := range dumps0 {
				if k != s && d1[k] != v {
					j.Fail("del-wrong-session", "deleting session %#x changed session %#x: %s -> %s", s, k, v, d1[k])
				}
			}
			c.R.EndSession(s)
		} else {
			j.Tag("del-nonlive")
			c.notFound(j, "Del", s, ms[0], sd0, dp0, o)
		}
	case "TakeoverX":
		s := c.SeidOf(int(e.A[0]))
		x := c.R.Live[s]
		others0 := c.W.D.DumpOf(s, true)
		o = c.W.Send(x.Peer, smf.Mod(c.NextSeq(x.Peer), s, c.W.PeerIP(1-x.Peer)))
		if j.Crashed(c.W, o) {
			break
		}
		j.OnlyTo(o, x.Peer, "TakeoverX")
		if c.W.D.DumpOf(s, true) != others0 {
			j.Fail("mod-touches-others", "the takeover of session %#x onto the other peer's node id changed rules of other sessions", s)
		}
		c.merged = true
		j.Tag("takeover-onto-associated-id")
	case "RmPDR":
		s := c.SeidOf(int(e.A[0]))
		x := c.R.Live[s]
		others0 := c.W.D.DumpOf(s, true)
		o = c.W.Send(x.Peer, smf.Mod(c.NextSeq(x.Peer), s, "", smf.RuleOp{Verb: 'R', Kind: 'P', ID: 1, MInfo: -1}))
		if j.Crashed(c.W, o) {
			break
		}
		ms := j.OnlyTo(o, x.Peer, "RmPDR")
		if len(ms) != 1 || ms[0].Type != smf.MModRsp || ms[0].Cause() != smf.CauseAccepted || ms[0].SEID != x.CP {
			j.Fail("mod-live-wrong-answer", "Remove PDR on live session %#x: %v, want an accepted response with CP SEID %#x", s, ms, x.CP)
		}
		if c.W.D.DumpOf(s, true) != others0 {
			j.Fail("mod-touches-others", "Remove PDR on session %#x changed rules of other sessions", s)
		}
		if c.noPDR == nil {
			c.noPDR = map[uint64]bool{}
		}
		c.noPDR[s] = true
	case "Report":
		s := c.SeidOf(int(e.A[0]))
		x := c.R.Live[s]
		o = c.W.Report(UsageReportFor(s, 2, 1))
		if j.Crashed(c.W, o) {
			break
		}
		ms := j.OnlyTo(o, x.Peer, "Report")
		if len(ms) == 1 && ms[0].Type == smf.MReportReq {
			c.R.Tx = append(c.R.Tx, RTx{Peer: x.Peer, Seq: ms[0].Seq, CP: ms[0].SEID, UP: s})
		}
	case "Rsp":
		k, ok := int(e.A[0]), e.A[1] == 1
		t := c.R.Tx[k]
		c.R.Tx = append(append([]RTx{}, c.R.Tx[:k]...), c.R.Tx[k+1:]...)
		seid := uint64(0)
		if ok {
			seid = t.UP
		}
		o = c.W.Send(t.Peer, smf.ReportRsp(t.Seq, seid, smf.CauseAccepted))
		if j.Crashed(c.W, o) {
			break
		}
		j.OnlyTo(o, -1, "Rsp")
		if !ok {
			// SEID 0: the session whose CP SEID and peer match the answered request ends (if it still exists)
			for _, up := range c.R.LiveIDs() {
				x := c.R.Live[up]
				if x.CP == t.CP && x.Peer == t.Peer {
					j.Tag("rsp0-ends-session")
					c.R.EndSession(up)
					if rows := c.W.D.DumpOf(up, false); rows != "" {
						j.Fail("rsp0-leaves-rules", "SEID-0 report response ended session %#x but the data plane still holds %s", up, rows)
					}
				}
			}
		}
	}
	if len(j.Viols) == 0 {
		c.checkTable(j)
		c.probe(j)
	}
	return seqx.StepResult{Obs: e.String() + " => " + o.StringL(c.Label), Viols: append(c.pre.Take(), j.Viols...), Tags: j.Tags}
}

// checkTable: the implementation's live sessions are exactly the reference's.
func (c *c04) checkTable(j *Judge) {
	d := c.W.V.SessDumps()
	for up := range c.R.Live {
		if _, ok := d[up]; !ok {
			j.Fail("live-session-missing", "session %#x should be live but is not in the session table", up)
		}
	}
	for up := range d {
		if c.R.Live[up] == nil {
			j.Fail("ended-session-present", "session %#x is in the session table but has ended", up)
		}
	}
}

func (c *c04) notFound(j *Judge, what string, s uint64, m *smf.Msg, sd0, dp0 string, o StepObs) {
	class := seidClass(s, c)
	if m.Cause() != smf.CauseContextNotFound || m.SEID != 0 {
		j.Fail("notfound-wrong-answer:"+what+":"+class, "%s for SEID %#x (%s) answered cause=%d header SEID=%#x, want cause 65 with SEID 0", what, s, class, m.Cause(), m.SEID)
	}
	sd1, dp1 := c.snapshot()
	if sd1 != sd0 || dp1 != dp0 || len(o.Calls) != 0 {
		j.Fail("notfound-side-effect:"+what+":"+class, "%s for SEID %#x (%s) had a side effect: calls=%v state %q -> %q, data plane %q -> %q", what, s, class, o.Calls, sd0, sd1, dp0, dp1)
	}
}

func seidClass(s uint64, c *c04) string {
	switch {
	case s == 0:
		return "zero"
	case c.R.Released[s]:
		return "released"
	case s >= 1<<63:
		return ">=2^63"
	case s > uint64(len(c.R.IncOf)):
		return "beyond-table"
	}
	return "other"
}

// probe: an empty Session Modification Request to every SEID class (no rule IEs: side-effect free).
func (c *c04) probe(j *Judge) {
	for _, s := range c.seidClasses() {
		p := c.ownerPeer(s)
		sd0, dp0 := c.snapshot()
		c.probeSeq++
		o := c.W.Send(p, smf.Mod(c.probeSeq, s, ""))
		if j.Crashed(c.W, o) {
			j.Viols[len(j.Viols)-1].What += fmt.Sprintf(" (probe: Modification Request for SEID %#x)", s)
			j.Viols[len(j.Viols)-1].Sig += ":mod-probe:" + seidClass(s, c)
			return
		}
		ms := j.OnlyTo(o, p, "ModProbe")
		if len(ms) != 1 || ms[0].Type != smf.MModRsp {
			j.Fail("probe-no-response", "Modification Request for SEID %#x: %d responses", s, len(ms))
			continue
		}
		if x := c.R.Live[s]; x != nil {
			if ms[0].Cause() != smf.CauseAccepted || ms[0].SEID != x.CP {
				j.Fail("live-wrong-answer", "Modification of live session %#x answered cause=%d header SEID=%#x, want accepted with its CP SEID %#x", s, ms[0].Cause(), ms[0].SEID, x.CP)
			}
			sd1, dp1 := c.snapshot()
			if sd1 != sd0 || dp1 != dp0 {
				j.Fail("probe-side-effect", "empty Modification of %#x changed state", s)
			}
		} else {
			c.notFound(j, "Mod", s, ms[0], sd0, dp0, o)
		}
	}
}

// RunC04 is the check entry point.
func RunC04(tier string) {
	run := evid.NewRun("C04", tier)
	smp := &evid.Samples{N: 10}
	var total seqx.Stats
	spec := c04Spec(tier, "sessions")
	st := seqx.ExploreOrders(run, spec, tier, smp, &total, true)
	seqx.Finish(run, total, smp, fmt.Sprintf("2 peers (start state: both associated; re-association in the alphabet), <=%d simultaneously live sessions, all event histories to depth %d from there (completed: %d), probe sweep of 6+ SEID classes after every transition",
		map[string]int{"quick": 3, "thorough": 4}[tier], spec.MaxDepth, st.DepthDone))
	run.Assumption("the model data plane stands for the gtp5g kernel module (EEXIST / ENOENT semantics)")
	run.Assumption("events reach the loop one at a time (the loop is the only goroutine touching session state)")
	run.Finish()
}
