//go:build verif

package sworld

import (
	"fmt"
	"sort"
	"strings"

	"github.com/free5gc/go-upf/internal/pfcp"
	"github.com/free5gc/go-upf/internal/report"
	"github.com/free5gc/go-upf/internal/verif/mdp"
	"github.com/free5gc/go-upf/internal/verif/seqx"
	"github.com/free5gc/go-upf/internal/verif/smf"
)

// RSess is the reference model's view of one session (plain maps; only what properties state).
type RSess struct {
	UP, CP  uint64
	Node    string           // owning node id
	Peer    int              // peer index the node is associated from
	Inc     int              // incarnation number of this UP SEID
	Created map[mdp.Key]bool // Create IE seen, not yet successfully removed
	Ever    map[mdp.Key]bool // Create IE seen in this session at any time
}

type RNode struct {
	ID   string
	Peer int
	Sess map[uint64]bool
}

type RTx struct { // outstanding UPF-initiated request as the peer saw it
	Peer int
	Seq  uint32
	CP   uint64 // header SEID of the request
	UP   uint64 // session it was generated for
	Raw  []byte
}

// Ref is the reference model shared by the session-level checks.
type Ref struct {
	Nodes    map[string]*RNode
	Live     map[uint64]*RSess
	Released map[uint64]bool
	Issued   []uint64 // every UP SEID ever announced, in order (with repeats on re-issue)
	IncOf    map[uint64]int
	Tx       []RTx
}

func NewRef() *Ref {
	return &Ref{Nodes: map[string]*RNode{}, Live: map[uint64]*RSess{}, Released: map[uint64]bool{}, IncOf: map[uint64]int{}}
}

func (r *Ref) LiveIDs() []uint64 {
	var out []uint64
	for k := range r.Live {
		out = append(out, k)
	}
	sort.Slice(out, func(i, j int) bool { return out[i] < out[j] })
	return out
}

func (r *Ref) ReleasedIDs() []uint64 {
	var out []uint64
	for k := range r.Released {
		out = append(out, k)
	}
	sort.Slice(out, func(i, j int) bool { return out[i] < out[j] })
	return out
}

func (r *Ref) EndSession(up uint64) {
	s := r.Live[up]
	if s == nil {
		return
	}
	delete(r.Live, up)
	r.Released[up] = true
	if n := r.Nodes[s.Node]; n != nil {
		delete(n.Sess, up)
	}
	// outstanding requests of an ended session stay outstanding at the peer (the UPF keeps retrying)
}

// Assoc applies an accepted Association Setup from peer p with node id id: returns the sessions ended.
func (r *Ref) Assoc(id string, p int) []uint64 {
	var ended []uint64
	if n := r.Nodes[id]; n != nil {
		for up := range n.Sess {
			ended = append(ended, up)
		}
		sort.Slice(ended, func(i, j int) bool { return ended[i] < ended[j] })
		for _, up := range ended {
			r.EndSession(up)
		}
	}
	r.Nodes[id] = &RNode{ID: id, Peer: p, Sess: map[uint64]bool{}}
	return ended
}

func (r *Ref) NewSess(up, cp uint64, node string) *RSess {
	n := r.Nodes[node]
	r.IncOf[up]++
	s := &RSess{UP: up, CP: cp, Node: node, Peer: n.Peer, Inc: r.IncOf[up], Created: map[mdp.Key]bool{}, Ever: map[mdp.Key]bool{}}
	r.Live[up] = s
	delete(r.Released, up)
	n.Sess[up] = true
	r.Issued = append(r.Issued, up)
	return s
}

// Base carries the world, the reference and per-peer sequence counters.
type Base struct {
	W    *World
	R    *Ref
	seq  [NPeers]uint32
	nEst int
	// EstUP[k-1] is the UP SEID announced for the k-th establishment of this history (0: none).
	// Events name sessions by k, never by SEID value: which value a session gets depends on the
	// free-list order, which Go map iteration decides when a node with several sessions is reset.
	EstUP []uint64
}

// Label names a SEID by the latest establishment that was given it ("s3"), else by value.
func (b *Base) Label(seid uint64) string {
	for k := len(b.EstUP) - 1; k >= 0; k-- {
		if b.EstUP[k] == seid && seid != 0 {
			return fmt.Sprintf("s%d", k+1)
		}
	}
	return fmt.Sprintf("%#x", seid)
}

// SeidOf returns the UP SEID of the k-th establishment (1-based).
func (b *Base) SeidOf(k int) uint64 {
	if k < 1 || k > len(b.EstUP) {
		return 0
	}
	return b.EstUP[k-1]
}

// Holder tells whether establishment k still holds its SEID (no later establishment was given it).
func (b *Base) Holder(k int) bool {
	s := b.SeidOf(k)
	if s == 0 {
		return false
	}
	for i := k; i < len(b.EstUP); i++ {
		if b.EstUP[i] == s {
			return false
		}
	}
	return true
}

func NewBase(o Options) *Base {
	b := &Base{W: New(o), R: NewRef()}
	for i := range b.seq {
		b.seq[i] = 1
	}
	return b
}

func (b *Base) NextSeq(p int) uint32 { s := b.seq[p]; b.seq[p]++; return s }
func (b *Base) Close()               { b.W.Close() }

// common verdict helpers ---------------------------------------------------------------------------

type Judge struct {
	Prop  string
	Viols []seqx.Viol
	Tags  []string
}

func (j *Judge) Fail(sig, format string, a ...interface{}) {
	j.Viols = append(j.Viols, seqx.Viol{Sig: j.Prop + ":" + sig, What: fmt.Sprintf(format, a...)})
}

func (j *Judge) Tag(t string) { j.Tags = append(j.Tags, t) }

// Crashed judges the liveness of the loop after a step (every E1 check treats a fatal exit as a violation).
func (j *Judge) Crashed(w *World, o StepObs) bool {
	if o.Fatal || !o.Alive {
		msg := pfcp.VFatalMsg()
		site := "unknown"
		// first go-upf frame of the recovered panic's stack
		site = fatalSite(msg)
		j.Fail("fatal:"+site, "the PFCP event loop requested a fatal exit / terminated: %s", short(msg, 700))
		return true
	}
	if o.State != "" {
		j.Fail("stuck", "the PFCP event loop did not return to its select: %s", o.State)
		return true
	}
	return false
}

func short(s string, n int) string {
	if len(s) > n {
		return s[:n] + "..."
	}
	return s
}

// fatalSite: "panic: <msg>" + first frame inside go-upf (not the harness) of the logged stack.
func fatalSite(msg string) string {
	lines := strings.Split(msg, "\n")
	head := ""
	if len(lines) > 0 {
		head = lines[0]
		if len(head) > 70 {
			head = head[:70]
		}
	}
	for _, l := range lines[1:] {
		if strings.Contains(l, "github.com/free5gc/go-upf/internal/") && !strings.Contains(l, "/verif/") && !strings.Contains(l, ".main.func1") && !strings.Contains(l, "zz_verif") && !strings.HasPrefix(l, "\t") {
			f := l
			if i := strings.LastIndex(f, "("); i > 0 {
				f = f[:i]
			}
			return head + "@" + f[strings.LastIndex(f, "/")+1:]
		}
	}
	return head
}

// OnlyTo checks that datagrams were emitted to peer p only and returns them.
func (j *Judge) OnlyTo(o StepObs, p int, what string) []*smf.Msg {
	for i := range o.Out {
		if i != p && len(o.Out[i]) > 0 {
			j.Fail("misdirected:"+what, "%s: %d datagram(s) went to peer %c instead of %c: %s", what, len(o.Out[i]), 'A'+i, 'A'+p, o.Out[i][0])
		}
	}
	for _, x := range o.Junk {
		j.Fail("undecodable:"+what, "%s: %s", what, x)
	}
	if p < 0 {
		return nil
	}
	return o.Out[p]
}

// UsageReportFor builds the notification the data plane would post for (seid, urrs).
func UsageReportFor(seid uint64, trig uint32, urrs ...uint32) report.SessReport {
	sr := report.SessReport{SEID: seid}
	for _, u := range urrs {
		sr.Reports = append(sr.Reports, report.USAReport{URRID: u, USARTrigger: report.UsageReportTrigger{Flags: trig},
			VolumMeasure: mdp.Counters(mdp.Key{SEID: seid, Kind: 'U', ID: u}, 9999)})
	}
	return sr
}
