//go:build verif

// Package sworld: the closed system used by the E1 checks: one real PfcpServer (its main loop running),
// the model data plane, and three simulated peers on loopback sockets.
package sworld

import (
	"fmt"
	"net"
	"sort"
	"strings"
	"time"

	"github.com/free5gc/go-upf/internal/forwarder"
	"github.com/free5gc/go-upf/internal/pfcp"
	"github.com/free5gc/go-upf/internal/report"
	"github.com/free5gc/go-upf/internal/verif/evid"
	"github.com/free5gc/go-upf/internal/verif/mdp"
	"github.com/free5gc/go-upf/internal/verif/netx"
	"github.com/free5gc/go-upf/internal/verif/smf"
	"github.com/free5gc/go-upf/pkg/factory"
)

// Peers: A (host 2), B (host 3), C (host 4; never associates: the "wrong peer"), T1/T2 (hosts 5,6: fresh node
// ids used for session takeover; sockets exist only to observe that nothing is mis-sent there).
// A2 (index 5): a second socket on A's address with another UDP port - a different peer as far as PFCP
// transactions go (C06: "requests that differ in source address ... are never mistaken for retransmissions").
const NPeers = 6

const PeerA2 = 5

var peers [NPeers]*netx.Sock // process-wide: peers are stateless sockets

func peerSocks() [NPeers]*netx.Sock {
	if peers[0] == nil {
		b := netx.Get()
		for i := 0; i < NPeers; i++ {
			if i == PeerA2 {
				peers[i] = netx.Listen(b.IP(2), 8806)
				continue
			}
			peers[i] = netx.Listen(b.IP(2+i), 8805)
		}
	}
	return peers
}

type Options struct {
	MaxRetrans uint8
	Driver     forwarder.Driver // nil: a fresh model data plane
}

type World struct {
	Blk   *netx.Block
	Peers [NPeers]*netx.Sock
	D     *mdp.MDP
	V     *pfcp.VServer
	Cfg   *factory.Config
	Dead  bool // the event loop is gone
}

// StepObs is everything observable of one delivered event.
type StepObs struct {
	Out   [NPeers][]*smf.Msg
	Calls []mdp.Call
	Alive bool
	Fatal bool
	State string // loop wait state if something is off
	Junk  []string
}

func New(o Options) *World {
	w := &World{Blk: netx.Get(), Peers: peerSocks()}
	for _, p := range w.Peers {
		p.Drain()
	}
	w.Cfg = &factory.Config{
		Version: "1.0.3",
		Pfcp: &factory.Pfcp{Addr: w.Blk.IP(1).String(), NodeID: w.Blk.IP(1).String(),
			RetransTimeout: time.Hour, MaxRetrans: o.MaxRetrans},
		Gtpu:   &factory.Gtpu{Forwarder: "gtp5g"},
		Logger: &factory.Logger{Level: "fatal"},
	}
	d := o.Driver
	if d == nil {
		w.D = mdp.New()
		d = w.D
	}
	v, err := pfcp.VStart(w.Cfg, d)
	if err != nil {
		evid.Infra("%v", err)
	}
	w.V = v
	return w
}

func (w *World) PeerAddr(i int) *net.UDPAddr { return w.Peers[i].Addr() }
func (w *World) PeerIP(i int) string {
	if i == PeerA2 {
		return w.Blk.IP(2).String()
	}
	return w.Blk.IP(2 + i).String()
}
func (w *World) UPFAddr() *net.UDPAddr       { return &net.UDPAddr{IP: w.Blk.IP(1), Port: 8805} }

// Collect waits for the PFCP loop to go idle and gathers what it emitted (used by worlds that have further
// goroutines to settle).
func (w *World) Collect() StepObs { return w.settle() }

// Idle tells whether the PFCP loop is parked with empty queues right now.
func (w *World) Idle() bool {
	if w.Dead {
		return true
	}
	return w.V.IdleNow()
}

func (w *World) settle() StepObs {
	var o StepObs
	if w.Dead {
		o.Alive = false
		o.Fatal = w.V.Fatal()
		return o
	}
	alive, st := w.V.Quiesce()
	o.Alive = alive
	o.Fatal = w.V.Fatal()
	if !alive {
		w.Dead = true
	}
	if strings.HasPrefix(st, "stuck") {
		o.State = st
	}
	for i, p := range w.Peers {
		for _, raw := range p.Drain() {
			m, err := smf.Parse(raw)
			if err != nil {
				o.Junk = append(o.Junk, fmt.Sprintf("peer %d: undecodable datagram: %v", i, err))
				continue
			}
			o.Out[i] = append(o.Out[i], m)
		}
	}
	if w.D != nil {
		o.Calls = w.D.TakeLog()
	}
	return o
}

// Send delivers a datagram from peer i to the event loop, as the receiver goroutine would.
func (w *World) Send(i int, b []byte) StepObs {
	if !w.Dead {
		w.V.InjectPacket(w.PeerAddr(i), b)
	}
	return w.settle()
}

// SendUDP sends a datagram from peer i's socket to the server's real socket (receiver goroutine included).
func (w *World) SendUDP(i int, b []byte) StepObs {
	if !w.Dead {
		if _, err := w.Peers[i].Conn.WriteToUDP(b, w.UPFAddr()); err != nil {
			evid.Infra("send to UPF: %v", err)
		}
		alive, st := w.V.QuiesceUDP()
		if !alive {
			w.Dead = true
		}
		o := w.settle()
		if strings.HasPrefix(st, "stuck") || st == "receiver-gone" {
			o.State = st
		}
		return o
	}
	return w.settle()
}

// Dgram is one datagram of a batch.
type Dgram struct {
	Peer int
	B    []byte
}

// SendUDPBatch sends several datagrams through the real socket back to back (they queue in order in the
// server's socket) and waits once until all of them have been handled.
func (w *World) SendUDPBatch(ds []Dgram) StepObs {
	if !w.Dead {
		for _, d := range ds {
			if _, err := w.Peers[d.Peer].Conn.WriteToUDP(d.B, w.UPFAddr()); err != nil {
				evid.Infra("send to UPF: %v", err)
			}
		}
		alive, st := w.V.QuiesceUDP()
		if !alive {
			w.Dead = true
		}
		o := w.settle()
		if strings.HasPrefix(st, "stuck") || st == "receiver-gone" {
			o.State = st
		}
		return o
	}
	return w.settle()
}

// SendFrom delivers a datagram with an arbitrary source address.
func (w *World) SendFrom(a net.Addr, b []byte) StepObs {
	if !w.Dead {
		w.V.InjectPacket(a, b)
	}
	return w.settle()
}

func (w *World) Report(sr report.SessReport) StepObs {
	if !w.Dead {
		w.V.InjectReport(sr)
	}
	return w.settle()
}

func (w *World) Expire(tx bool, id string) StepObs {
	if !w.Dead {
		w.V.Expire(tx, id)
	}
	return w.settle()
}

func (w *World) Close() {
	w.V.Stop()
	for _, p := range w.Peers {
		p.Drain()
	}
}

// ObsString renders an observation canonically (sorted where order is not part of any property).
func (o StepObs) String() string { return o.StringL(nil) }

// StringL renders with session SEIDs replaced by logical labels.
func (o StepObs) StringL(lab func(uint64) string) string {
	var sb strings.Builder
	for i := range o.Out {
		for _, m := range o.Out[i] {
			fmt.Fprintf(&sb, "->%c %s\n", 'A'+i, m.StringL(lab))
		}
	}
	var cs []string
	for _, c := range o.Calls {
		if lab != nil {
			e := "ok"
			if c.Err != "" {
				e = c.Err
			}
			cs = append(cs, fmt.Sprintf("%s %s/%c%d %s", c.Op, lab(c.Key.SEID), c.Key.Kind, c.Key.ID, e))
			continue
		}
		cs = append(cs, c.String())
	}
	sort.Strings(cs)
	fmt.Fprintf(&sb, "calls %v alive=%v fatal=%v %s %v", cs, o.Alive, o.Fatal, o.State, o.Junk)
	return sb.String()
}
