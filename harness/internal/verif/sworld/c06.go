//go:build verif

package sworld

import (
	"bytes"
	"fmt"
	"sort"
	"strings"
	"time"

	"github.com/free5gc/go-upf/internal/pfcp"
	"github.com/free5gc/go-upf/internal/verif/evid"
	"github.com/free5gc/go-upf/internal/verif/seqx"
	"github.com/free5gc/go-upf/internal/verif/smf"
)

// C06 — retransmitted requests are executed at most once and re-answered identically.
//
// Alphabet: First(p, seq, kind) for peers A, B using EQUAL sequence numbers {1,2}, Heartbeats from A2 = A's
// address with another UDP source port under the same sequence numbers (C only sends an
// establishment for an unknown node, which produces no response); Dup(p, seq) = byte-identical copy of the
// datagram sent first under (p, seq); Expire(id) for every entry of the real receive-transaction table (the
// harness stops the far-future timer and posts the expiry through the public entry point) and for the most
// recently expired entry again (a stale, already queued expiry); ExpireTx(id): a stale expiry of a transmit
// transaction carrying the id of a retained receive transaction (both tables key by "<addr>-<seq>").
// State key: server dump without transmit transactions + receive table (id -> response hash) + data plane +
// the reference's retained-request map.

const (
	kHB = iota
	kAssoc
	kEst
	kMod
	kDel
	kDelGone // a Deletion for a SEID that addresses no session (released, or never issued): answered "not found"
	kEstUnknown
	nKinds
)

var kindName = []string{"Heartbeat", "Assoc", "Est", "Mod[QueryURR 1]", "Del", "Del-of-a-released-SEID", "Est-for-unknown-node"}

type rxRef struct {
	peer  int
	seq   uint32
	req   []byte
	rsp   []byte // nil: none produced
	alive bool
	kind  int
}

type c06 struct {
	*Base
	tier    string
	rx      map[string]*rxRef // key peerIdx-seq
	expired []int64           // (peer*16+seq) of entries whose expiry was delivered
	sessOf  [NPeers]int       // latest live session (establishment index) of each peer
	stopped bool
}

func c06Spec(tier, scenario string) seqx.Spec {
	depth := 6
	dl := 110 * time.Second
	if tier == "thorough" {
		depth = 8
		dl = 30 * time.Minute
	}
	return seqx.Spec{Prop: "C06", Scenario: scenario, MaxDepth: depth, Deadline: dl, New: func() seqx.Instance {
		return &c06{Base: NewBase(Options{MaxRetrans: 1}), tier: tier, rx: map[string]*rxRef{}}
	}}
}

func init() { seqx.Register("C06", c06Spec) }

func rxKey(p int, seq uint32) string { return fmt.Sprintf("%d-%d", p, seq) }

func (c *c06) Enabled() []seqx.Event {
	var ev []seqx.Event
	for p := 0; p < 2; p++ {
		for seq := uint32(1); seq <= 2; seq++ {
			if r := c.rx[rxKey(p, seq)]; r != nil && r.alive {
				x := seqx.Ev("Dup", int64(p), int64(seq))
				x.N = fmt.Sprintf("Dup(%c,seq %d)", 'A'+p, seq)
				ev = append(ev, x)
				if c.realID(p, seq) != "" {
					// the duplicate overtakes the notification of the entry's retention timer, which has just fired
					y := seqx.Ev("Dup", int64(p), int64(seq), 1)
					y.N = fmt.Sprintf("DupOvertakingExpiry(%c,seq %d)", 'A'+p, seq)
					ev = append(ev, y)
				}
				continue
			}
			for k := 0; k < nKinds-1; k++ {
				if !c.kindEnabled(p, k) {
					continue
				}
				x := seqx.Ev("First", int64(p), int64(seq), int64(k))
				x.N = fmt.Sprintf("First(%c,seq %d,%s)", 'A'+p, seq, kindName[k])
				ev = append(ev, x)
			}
		}
	}
	// A2: A's address with another source port, Heartbeats under the same sequence numbers
	for seq := uint32(1); seq <= a2Seqs(c.tier); seq++ {
		if r := c.rx[rxKey(PeerA2, seq)]; r != nil && r.alive {
			x := seqx.Ev("Dup", PeerA2, int64(seq))
			x.N = fmt.Sprintf("Dup(A:8806,seq %d)", seq)
			ev = append(ev, x)
		} else {
			x := seqx.Ev("First", PeerA2, int64(seq), kHB)
			x.N = fmt.Sprintf("First(A:8806,seq %d,Heartbeat)", seq)
			ev = append(ev, x)
		}
	}
	// the unknown peer C: an establishment that produces no response, sequence number 1
	if r := c.rx[rxKey(2, 1)]; r != nil && r.alive {
		x := seqx.Ev("Dup", 2, 1)
		x.N = "Dup(C,seq 1)"
		ev = append(ev, x)
	} else {
		x := seqx.Ev("First", 2, 1, kEstUnknown)
		x.N = "First(C,seq 1,Est-for-unknown-node)"
		ev = append(ev, x)
	}
	inTable := map[int64]bool{}
	for _, r := range c.W.V.Rx() {
		i := c.entryIndex(r)
		if i < 0 || inTable[i] {
			continue
		}
		inTable[i] = true
		x := seqx.Ev("Expire", i)
		x.N = "ExpireRx(" + idxName(i) + ")"
		ev = append(ev, x)
		// a stale expiry of a TRANSMIT transaction whose id equals this entry's (ids are "<addr>-<seq>" in both
		// tables; the UPF's own requests to that peer count from small numbers too): it must not touch the entry
		y := seqx.Ev("ExpireTx", i)
		y.N = "StaleExpireTx(" + idxName(i) + ")"
		ev = append(ev, y)
	}
	if n := len(c.expired); n > 0 && !inTable[c.expired[n-1]] {
		x := seqx.Ev("Expire", c.expired[n-1])
		x.N = "StaleExpireRx(" + idxName(c.expired[n-1]) + ")"
		ev = append(ev, x)
	}
	return ev
}

// Receive-table entries are identified by their (remote address, sequence) fields, never by the map key
// string (whose format is an implementation detail). Events encode them as peer*16+seq.
func (c *c06) entryIndex(r pfcp.VRx) int64 {
	for p := 0; p < NPeers; p++ {
		if c.W.PeerAddr(p).String() == r.Addr {
			return int64(p*16) + int64(r.Seq%16)
		}
	}
	return -1
}

// a2Seqs: A2 uses sequence number 1 (thorough: 1 and 2)
func a2Seqs(tier string) uint32 {
	if tier == "thorough" {
		return 2
	}
	return 1
}

func idxName(i int64) string {
	if i/16 == PeerA2 {
		return fmt.Sprintf("A:8806,seq %d", i%16)
	}
	return fmt.Sprintf("%c,seq %d", 'A'+int(i/16), i%16)
}

// realID finds the table id of the entry for (peer, seq); "" if none.
func (c *c06) realID(p int, seq uint32) string {
	for _, r := range c.W.V.Rx() {
		if r.Addr == c.W.PeerAddr(p).String() && r.Seq == seq {
			return r.ID
		}
	}
	return ""
}

func (c *c06) kindEnabled(p, k int) bool {
	switch k {
	case kHB, kAssoc:
		return true
	case kEst:
		// also before the peer is associated: such a request produces no response, and its duplicate must stay
		// ignored even after the association has been set up in between
		return len(c.R.Live) < 2
	case kMod, kDel:
		return c.liveSessOf(p) != 0
	case kDelGone:
		_, assoc := c.R.Nodes[c.W.PeerIP(p)]
		return assoc && c.goneSEID() != 0
	}
	return false
}

// goneSEID: a SEID that addresses no session now - the most recently released one that has not been re-issued
// (a never-issued one if none). A later establishment may be given it again while the rejected request is still retained.
func (c *c06) goneSEID() uint64 {
	for k := len(c.EstUP); k >= 1; k-- {
		if up := c.SeidOf(k); up != 0 && c.R.Live[up] == nil {
			return up
		}
	}
	return 7 // never issued (at most two sessions are live at a time, so the table never grows that far)
}

func (c *c06) liveSessOf(p int) uint64 {
	var best uint64
	for _, up := range c.R.LiveIDs() {
		if c.R.Live[up].Peer == p {
			best = up
		}
	}
	return best
}

func (c *c06) Key() string {
	var sb strings.Builder
	sb.WriteString(c.W.V.Dump(pfcp.DumpOpt{NoTrans: true, Label: c.Label}))
	sb.WriteString("DP " + c.W.D.DumpL(c.Label) + "\n")
	var rxs []string
	for _, r := range c.W.V.Rx() {
		rxs = append(rxs, fmt.Sprintf("rx %s %v", idxName(c.entryIndex(r)), len(r.Rsp) > 0))
	}
	sort.Strings(rxs)
	sb.WriteString(strings.Join(rxs, "\n") + "\n")
	var ks []string
	for k, r := range c.rx {
		if r.alive {
			ks = append(ks, fmt.Sprintf("%s:%s", k, kindName[r.kind]))
		}
	}
	sort.Strings(ks)
	fmt.Fprintf(&sb, "ref %v exp=%v", ks, lastOf(c.expired, c))
	return sb.String()
}

func lastOf(l []int64, c *c06) string {
	if len(l) == 0 {
		return ""
	}
	return idxName(l[len(l)-1])
}

func (c *c06) build(p int, seq uint32, k int) []byte {
	switch k {
	case kHB:
		return smf.Heartbeat(seq)
	case kAssoc:
		return smf.Assoc(seq, c.W.PeerIP(p))
	case kEst:
		return smf.Est(seq, c.W.PeerIP(p), true, 0x10, c.W.PeerIP(p), op('C', 'F', 1), op('C', 'U', 1), pdr('C', 1, 1, 1))
	case kMod:
		return smf.Mod(seq, c.liveSessOf(p), "", op('Q', 'U', 1))
	case kDel:
		return smf.Del(seq, c.liveSessOf(p))
	case kDelGone:
		return smf.Del(seq, c.goneSEID())
	case kEstUnknown:
		return smf.Est(seq, c.W.PeerIP(p), true, 0x30, c.W.PeerIP(p), op('C', 'F', 1))
	}
	return nil
}

func (c *c06) Apply(e seqx.Event) seqx.StepResult {
	j := &Judge{Prop: "C06"}
	var o StepObs
	switch e.Op {
	case "First":
		p, seq, k := int(e.A[0]), uint32(e.A[1]), int(e.A[2])
		req := c.build(p, seq, k)
		for q := 0; q < NPeers; q++ {
			if r := c.rx[rxKey(q, seq)]; q != p && r != nil && r.alive {
				j.Tag("equal-seq-other-peer-retained")
			}
		}
		nLive := len(c.W.V.SessDumps())
		target := c.liveSessOf(p)
		o = c.W.Send(p, req)
		if j.Crashed(c.W, o) {
			break
		}
		ms := o.Out[p]
		for q := range o.Out {
			if q != p && len(o.Out[q]) > 0 {
				j.Fail("misdirected-response", "%s: a datagram went to peer %c", e, 'A'+q)
			}
		}
		ref := &rxRef{peer: p, seq: seq, req: req, alive: true, kind: k}
		if len(ms) > 1 {
			j.Fail("several-responses", "%s answered with %d datagrams", e, len(ms))
		}
		if len(ms) >= 1 {
			ref.rsp = ms[0].Raw
		}
		// the first copy must have been executed (not mistaken for a retransmission)
		want := map[int]uint8{kHB: smf.MHeartbeatRsp, kAssoc: smf.MAssocRsp, kEst: smf.MEstRsp, kMod: smf.MModRsp, kDel: smf.MDelRsp, kDelGone: smf.MDelRsp}
		if _, assoc := c.R.Nodes[c.W.PeerIP(p)]; k == kEst && !assoc {
			// establishment from a peer that is not associated: no response, no session
			if len(ms) != 0 || len(c.W.V.SessDumps()) != nLive {
				j.Fail("unknown-node-answered", "%s from a peer without association produced %v (sessions %d -> %d)", e, ms, nLive, len(c.W.V.SessDumps()))
			}
			j.Tag("est-before-association")
			c.rx[rxKey(p, seq)] = ref
			break
		}
		if t, ok := want[k]; ok {
			if len(ms) != 1 || ms[0].Type != t || ms[0].Seq != seq {
				j.Fail("first-copy-not-executed:"+kindName[k], "%s: expected one response of type %d with sequence %d, got %v", e, t, seq, ms)
				break
			}
		} else if len(ms) != 0 {
			j.Fail("unknown-node-answered", "%s produced a response: %v", e, ms)
		}
		switch k {
		case kDelGone:
			if ms[0].Cause() != smf.CauseContextNotFound || len(o.Calls) != 0 || len(c.W.V.SessDumps()) != nLive {
				j.Fail("first-copy-not-executed:"+kindName[k], "%s: cause %d, calls %v, sessions %d -> %d; want 'session context not found' and no effect", e, ms[0].Cause(), o.Calls, nLive, len(c.W.V.SessDumps()))
			}
			j.Tag("rejected-request-retained")
		case kAssoc:
			c.R.Assoc(c.W.PeerIP(p), p)
		case kEst:
			up, _, ok := ms[0].FSEID()
			if ms[0].Cause() != smf.CauseAccepted || !ok || len(c.W.V.SessDumps()) != nLive+1 {
				j.Fail("first-copy-not-executed:Est", "%s: no new session (cause %d, sessions %d -> %d)", e, ms[0].Cause(), nLive, len(c.W.V.SessDumps()))
				break
			}
			c.EstUP = append(c.EstUP, up)
			c.R.NewSess(up, 0x10, c.W.PeerIP(p))
		case kMod:
			if ms[0].Cause() != smf.CauseAccepted || len(o.Calls) != 1 || len(ms[0].UsageReports()) != 1 {
				j.Fail("first-copy-not-executed:Mod", "%s: cause %d, %d data-plane calls, %d usage reports", e, ms[0].Cause(), len(o.Calls), len(ms[0].UsageReports()))
			}
		case kDel:
			if ms[0].Cause() != smf.CauseAccepted {
				j.Fail("first-copy-not-executed:Del", "%s: cause %d", e, ms[0].Cause())
			}
			c.R.EndSession(target)
		}
		c.rx[rxKey(p, seq)] = ref
		// retention window = retransmission timeout x (max retransmissions + 1)
		for _, r := range c.W.V.Rx() {
			if r.ID == c.realID(p, seq) {
				want := c.W.Cfg.Pfcp.RetransTimeout * time.Duration(c.W.Cfg.Pfcp.MaxRetrans+1)
				if r.Timeout != want {
					j.Fail("retention-window", "response retention of %v, want retransmission timeout x (max retransmissions+1) = %v", r.Timeout, want)
				}
			}
		}
	case "Dup":
		p, seq := int(e.A[0]), uint32(e.A[1])
		ref := c.rx[rxKey(p, seq)]
		overtaking := len(e.A) > 2 && e.A[2] == 1 && !c.W.Dead
		if overtaking {
			c.W.V.FireOnlyRx(c.realID(p, seq))
		}
		d0 := c.W.V.Dump(pfcp.DumpOpt{NoTrans: true, NoExtra: true}) + c.W.D.Dump()
		o = c.W.Send(p, ref.req)
		if j.Crashed(c.W, o) {
			break
		}
		d1 := c.W.V.Dump(pfcp.DumpOpt{NoTrans: true, NoExtra: true}) + c.W.D.Dump()
		if len(o.Calls) != 0 || d0 != d1 {
			j.Fail("duplicate-executed:"+kindName[ref.kind], "a byte-identical copy of %s(seq %d) from %c was executed again: data-plane calls %v, state changed=%v", kindName[ref.kind], seq, 'A'+p, o.Calls, d0 != d1)
		}
		for q := range o.Out {
			if q != p && len(o.Out[q]) > 0 {
				j.Fail("misdirected-response", "%s: a datagram went to peer %c", e, 'A'+q)
			}
		}
		ms := o.Out[p]
		if ref.rsp == nil {
			if len(ms) != 0 {
				j.Fail("duplicate-answered-without-original", "duplicate of a request that had produced no response was answered: %v", ms)
			}
			j.Tag("dup-of-unanswered")
		} else {
			if len(ms) != 1 || !bytes.Equal(ms[0].Raw, ref.rsp) {
				j.Fail("duplicate-not-reanswered-identically:"+kindName[ref.kind], "duplicate of %s(seq %d) from %c: want one byte-identical copy of the original response, got %d datagram(s) %v", kindName[ref.kind], seq, 'A'+p, len(ms), ms)
			}
			j.Tag("dup-reanswered")
		}
		if overtaking && len(j.Viols) == 0 {
			r2 := c.Apply(seqx.Ev("Expire", int64(p)*16+int64(seq)))
			j.Viols = append(j.Viols, r2.Viols...)
			j.Tag("dup-overtakes-expiry")
		}
	case "ExpireTx":
		p, seq := int(e.A[0]/16), uint32(e.A[0]%16)
		id := c.realID(p, seq)
		d0 := c.W.V.Dump(pfcp.DumpOpt{NoTrans: true, NoExtra: true}) + c.W.D.Dump()
		o = c.W.Expire(true, id)
		if j.Crashed(c.W, o) {
			break
		}
		if c.realID(p, seq) == "" {
			j.Fail("tx-expiry-releases-rx-entry", "a stale transmit-transaction expiry with the id of receive transaction %s released that entry before its window elapsed", idxName(e.A[0]))
		}
		if d1 := c.W.V.Dump(pfcp.DumpOpt{NoTrans: true, NoExtra: true}) + c.W.D.Dump(); d0 != d1 || len(o.Calls) != 0 {
			j.Fail("expiry-side-effect", "stale transmit expiry %s changed session state", idxName(e.A[0]))
		}
		for q := range o.Out {
			if len(o.Out[q]) > 0 {
				j.Fail("expiry-sends", "a stale transmit-transaction expiry sent a datagram to %c", 'A'+q)
			}
		}
		j.Tag("stale-tx-expiry")
	case "Expire":
		p, seq := int(e.A[0]/16), uint32(e.A[0]%16)
		id := c.realID(p, seq)
		if id == "" {
			// stale expiry: the entry is gone; the callback would post the id it was created with
			id = fmt.Sprintf("%s-%d", c.W.PeerAddr(p), seq)
		}
		d0 := c.W.V.Dump(pfcp.DumpOpt{NoTrans: true, NoExtra: true}) + c.W.D.Dump()
		o = c.W.Expire(false, id)
		if j.Crashed(c.W, o) {
			break
		}
		if c.realID(p, seq) != "" {
			j.Fail("bookkeeping-not-released", "receive transaction (%s) still retained after its window elapsed", idxName(e.A[0]))
		}
		if d1 := c.W.V.Dump(pfcp.DumpOpt{NoTrans: true, NoExtra: true}) + c.W.D.Dump(); d0 != d1 || len(o.Calls) != 0 {
			j.Fail("expiry-side-effect", "expiry of receive transaction %s changed session state", idxName(e.A[0]))
		}
		for q := range o.Out {
			if len(o.Out[q]) > 0 {
				j.Fail("expiry-sends", "expiry of a receive transaction sent a datagram to %c", 'A'+q)
			}
		}
		if r := c.rx[rxKey(p, seq)]; r != nil && r.alive {
			r.alive = false
			j.Tag("expired")
		} else {
			j.Tag("stale-expiry")
		}
		c.expired = append(c.expired, e.A[0])
	}
	// the real table holds exactly the retained requests of the reference
	if len(j.Viols) == 0 && !c.W.Dead {
		for _, r := range c.rx {
			if r.alive && c.realID(r.peer, r.seq) == "" {
				j.Fail("retained-entry-missing", "request (%c, seq %d) is within its retention window but not in the table", 'A'+r.peer, r.seq)
			}
		}
	}
	return seqx.StepResult{Obs: e.String() + " => " + o.StringL(c.Label), Viols: j.Viols, Tags: j.Tags}
}

// Final stops the server and checks that no transaction timer is left armed.
func (c *c06) Final() []seqx.Viol {
	if c.W.Dead || c.stopped {
		return nil
	}
	c.stopped = true
	c.W.V.Stop()
	if n := c.W.V.PendingTimers(); n != 0 {
		return []seqx.Viol{{Sig: "C06:timers-left-after-stop", What: fmt.Sprintf("%d transaction timers still armed after the server stopped", n)}}
	}
	return nil
}

func RunC06(tier string) {
	run := evid.NewRun("C06", tier)
	smp := &evid.Samples{N: 10}
	var total seqx.Stats
	spec := c06Spec(tier, "rx")
	st := seqx.Explore(run, spec, tier, smp)
	seqx.Merge(run, "rx", st, &total)
	seqx.Finish(run, total, smp, fmt.Sprintf("peers A and B with equal sequence numbers {1,2} x {Heartbeat, Association, Establishment, Modification, Deletion}, an unanswered establishment from an unknown peer, byte-identical duplicates, retention-timer expiry (incl. stale) at every point; all interleavings to depth %d (completed %d); no random tail beyond the bound", spec.MaxDepth, st.DepthDone))
	run.Assumption("timer expiry is delivered as an event through NotifyTransTimeout with the real timer stopped (the callback does nothing else); the race between the callback's post and the loop is C17's business")
	run.Assumption("duplicates are byte-identical copies; a different request re-using a retained (peer, sequence) pair is outside the property")
	run.Finish()
}
