//go:build verif

package sworld

import (
	"fmt"
	"sort"
	"strings"
	"time"

	"github.com/free5gc/go-upf/internal/pfcp"
	"github.com/free5gc/go-upf/internal/report"
	"github.com/free5gc/go-upf/internal/verif/evid"
	"github.com/free5gc/go-upf/internal/verif/mdp"
	"github.com/free5gc/go-upf/internal/verif/seqx"
	"github.com/free5gc/go-upf/internal/verif/smf"
)

// rules.go: the session/rule world shared by C01 (rules never outlive / escape / pre-date their session),
// C05 (isolation) and C08 (response correlation). One instance type; the property selects alphabet,
// oracle and bounds. Sessions are named by establishment index (see Base.EstUP).

type ruleMenu struct {
	name  string
	ops   []smf.RuleOp
	noRpt bool // environment answer: the data plane removes the URR without returning a final report
}

func op(verb, kind byte, id uint32) smf.RuleOp {
	return smf.RuleOp{Verb: verb, Kind: kind, ID: id, MInfo: -1}
}
func pdr(verb byte, id uint32, far uint32, urrs ...uint32) smf.RuleOp {
	return smf.RuleOp{Verb: verb, Kind: 'P', ID: id, FAR: far, URRs: urrs, MInfo: -1}
}

// establishment rule sets
var estMenus = []ruleMenu{
	{"F1 U1 P1", []smf.RuleOp{op('C', 'F', 1), op('C', 'U', 1), pdr('C', 1, 1, 1)}, false},
	{"F1 Q1 U1 U2 B1 P1 P2", []smf.RuleOp{op('C', 'F', 1), op('C', 'Q', 1), op('C', 'U', 1), op('C', 'U', 2), op('C', 'B', 1),
		smf.RuleOp{Verb: 'C', Kind: 'P', ID: 1, FAR: 1, QERs: []uint32{1}, URRs: []uint32{1}, MInfo: -1}, pdr('C', 2, 1, 1, 2)}, false},
}

// single-IE modification deltas: every verb x kind, for an id of the establishment set (1), a second id (2)
// and an id that is never created (9)
func modMenus(tier string) []ruleMenu {
	var out []ruleMenu
	add := func(o smf.RuleOp) {
		out = append(out, ruleMenu{fmt.Sprintf("%c%c%d", o.Verb, o.Kind, o.ID), []smf.RuleOp{o}, false})
	}
	ids := []uint32{1, 9}
	if tier == "thorough" {
		ids = []uint32{1, 2, 9}
	}
	for _, kind := range []byte{'F', 'Q', 'U', 'B', 'P'} {
		for _, verb := range []byte{'C', 'U', 'R'} {
			for _, id := range ids {
				if verb == 'C' && id == 9 {
					continue // id 9 is the never-created one
				}
				o := op(verb, kind, id)
				if kind == 'P' {
					o = pdr(verb, id, 1, 1)
				}
				add(o)
			}
		}
	}
	for _, id := range ids {
		add(op('Q', 'U', id))
	}
	out = append(out, ruleMenu{"RU1(no final report)", []smf.RuleOp{op('R', 'U', 1)}, true})
	return out
}

type rules struct {
	*Base
	prop     string
	tier     string
	mods     []ruleMenu
	maxLive  int
	maxFault int
	nFault   int
	nPush    int
	merged   bool
	pre      seqx.Pre
	pending  []mdp.Fault // armed faults (absolute positions)
	// per session (by UP SEID) URR data for C05's seqn isolation is in the server dump
	recovery map[uint32]int // recovery time stamps seen (C08)
}

func rulesSpec(prop string) func(tier, scenario string) seqx.Spec {
	return func(tier, scenario string) seqx.Spec {
		depth, maxLive, maxFault := 4, 2, 1 // C01: counted from the state in which both peers are associated
		dl := 110 * time.Second
		switch prop {
		case "C05":
			depth, maxFault = 5, 0 // counted from the state in which both peers are associated (see New below)
			dl = 170 * time.Second
		case "C08":
			depth, maxFault = 4, 0
		}
		if tier == "thorough" {
			depth++
			maxLive = 3
			if prop == "C01" {
				maxFault = 2
			}
			dl = 30 * time.Minute
		}
		return seqx.Spec{Prop: prop, Scenario: scenario, MaxDepth: depth, Deadline: dl,
			New: func() seqx.Instance {
				r := &rules{Base: NewBase(Options{MaxRetrans: 1}), prop: prop, tier: tier, maxLive: maxLive, maxFault: maxFault,
					recovery: map[uint32]int{}}
				r.mods = modMenus(tier)
				if prop == "C05" && tier != "thorough" {
					// isolation does not need the never-created ids: keep the collision-heavy part
					var m []ruleMenu
					for _, x := range r.mods {
						if x.ops[0].ID == 1 {
							m = append(m, x)
						}
					}
					r.mods = m
				}
				if prop == "C05" || prop == "C01" {
					// start from the state in which A and B are associated (not counted in the depth): every
					// isolation / rule-lifetime scenario of interest needs both, and re-association stays in the alphabet
					for p := 0; p < 2; p++ {
						r.pre.Add(r.Apply(seqx.Ev("Assoc", int64(p), int64(p))).Viols...)
					}
				}
				if scenario == "rules-recycled" {
					// second start state: A has had two sessions that its re-association ended, so two released
					// SEIDs wait in the free list (SEID recycling starts inside the depth bound)
					for _, e := range []seqx.Event{seqx.Ev("Est", 0, 0), seqx.Ev("Est", 0, 1), seqx.Ev("Assoc", 0, 0)} {
						r.pre.Add(r.Apply(e).Viols...)
					}
				}
				return r
			}}
	}
}

func init() {
	seqx.Register("C01", rulesSpec("C01"))
	seqx.Register("C05", rulesSpec("C05"))
}

const takeoverHost = 5 // peers[3], peers[4] are T1, T2

func (r *rules) nodeIDs() []string {
	return []string{r.W.PeerIP(0), r.W.PeerIP(1), r.W.PeerIP(3), r.W.PeerIP(4)}
}

func (r *rules) liveK() []int {
	var out []int
	for k := 1; k <= len(r.EstUP); k++ {
		if r.Holder(k) && r.R.Live[r.SeidOf(k)] != nil {
			out = append(out, k)
		}
	}
	return out
}

func (r *rules) Enabled() []seqx.Event {
	var ev []seqx.Event
	if r.merged {
		// a session was taken over by an id under which another node is associated: the step itself was judged
		// (isolation); what re-association and establishment under the merged id should mean afterwards is not
		// settled by the property, so the history is not continued
		return nil
	}
	for p := 0; p < 2; p++ {
		ev = append(ev, seqx.Ev("Assoc", int64(p), int64(p)))
	}
	if len(r.R.Live) < r.maxLive {
		for p := 0; p < 2; p++ {
			if n, ok := r.R.Nodes[r.W.PeerIP(p)]; ok && n.Peer == p {
				for m := range estMenus {
					if r.prop == "C05" && m == 0 && r.tier != "thorough" {
						continue // C05 quick: the rich rule set only (more to disturb)
					}
					if r.prop == "C01" && m == 1 && r.tier != "thorough" {
						continue
					}
					ev = append(ev, seqx.Ev("Est", int64(p), int64(m)))
				}
			}
		}
	}
	for _, k := range r.liveK() {
		for m := range r.mods {
			x := seqx.Ev("Mod", int64(k), int64(m))
			x.N = fmt.Sprintf("Mod(s%d,%s)", k, r.mods[m].name)
			ev = append(ev, x)
		}
	}
	for k := 1; k <= len(r.EstUP); k++ {
		if r.Holder(k) {
			ev = append(ev, seqx.Ev("Del", int64(k)))
		}
	}
	for _, k := range r.liveK() {
		if len(r.R.Tx) < 2 {
			ev = append(ev, seqx.Ev("Report", int64(k)))
		}
	}
	for i := range r.R.Tx {
		ev = append(ev, seqx.Ev("Rsp", int64(i), 0))
		if r.prop == "C05" {
			ev = append(ev, seqx.Ev("Rsp", int64(i), 1))
		}
	}
	if r.prop == "C01" && r.nFault < r.maxFault && len(r.pendingFaults()) == 0 {
		nmax := 4
		if r.tier == "thorough" {
			nmax = 8
		}
		for n := 0; n < nmax; n++ {
			ev = append(ev, seqx.Ev("Fault", int64(n), 0), seqx.Ev("Fault", int64(n), 1))
		}
	}
	if r.prop == "C01" || r.tier == "thorough" {
		// a Modification carrying the session's OWN current node id (TS 29.244 7.5.4 allows the IE; the re-keying of
		// the association under an unchanged id must be a no-op): the state is unchanged, so the search does not
		// grow - but a later re-association must still find the node
		for _, k := range r.liveK() {
			ev = append(ev, seqx.Ev("TakeoverSelf", int64(k)))
		}
	}
	if r.prop == "C05" {
		for _, k := range r.liveK() {
			if r.nPush < 3 {
				ev = append(ev, seqx.Ev("Push", int64(k), 1))
			}
			// takeover by the id of the OTHER associated node (SMF-set takeover onto an existing association)
			if s := r.R.Live[r.SeidOf(k)]; s != nil {
				for q := 0; q < 2; q++ {
					if id := r.W.PeerIP(q); id != s.Node {
						if n, ok := r.R.Nodes[id]; ok && n.Peer == q {
							ev = append(ev, seqx.Ev("TakeoverX", int64(k), int64(q)))
						}
					}
				}
			}
			// takeover by a new node id (fresh: no association exists under it)
			for t := 3; t <= 4; t++ {
				if _, used := r.R.Nodes[r.W.PeerIP(t)]; !used {
					ev = append(ev, seqx.Ev("Takeover", int64(k), int64(t)))
					break
				}
			}
		}
		// re-association under a taken-over node id (sent from peer A's address)
		for t := 3; t <= 4; t++ {
			if _, used := r.R.Nodes[r.W.PeerIP(t)]; used {
				ev = append(ev, seqx.Ev("Assoc", 0, int64(t)))
			}
		}
	}
	return ev
}

func (r *rules) pendingFaults() []mdp.Fault {
	var out []mdp.Fault
	for _, f := range r.pending {
		if f.At >= r.W.D.FaultableCalls() {
			out = append(out, f)
		}
	}
	return out
}

func (r *rules) Key() string {
	var sb strings.Builder
	sb.WriteString(r.W.V.Dump(pfcp.DumpOpt{NoTrans: true, Label: r.Label}))
	sb.WriteString("DP " + r.W.D.DumpL(r.Label) + "\nTX")
	for _, t := range r.R.Tx {
		fmt.Fprintf(&sb, " %d/%#x/%s", t.Peer, t.CP, r.Label(t.UP))
	}
	for _, f := range r.pendingFaults() {
		fmt.Fprintf(&sb, " fault+%d/%v", f.At-r.W.D.FaultableCalls(), f.AfterEffect)
	}
	fmt.Fprintf(&sb, " nf=%d np=%d m=%v", r.nFault, r.nPush, r.merged)
	// the reference's own memory (what was ever created) is part of the state the oracle depends on
	for _, up := range r.R.LiveIDs() {
		s := r.R.Live[up]
		var ks []string
		for k := range s.Ever {
			c := ""
			if s.Created[k] {
				c = "+"
			}
			ks = append(ks, fmt.Sprintf("%c%d%s", k.Kind, k.ID, c))
		}
		sort.Strings(ks)
		fmt.Fprintf(&sb, "\nref %s %v", r.Label(up), ks)
	}
	return sb.String()
}

// snapshot for differential oracles: per-session dumps by SEID and data-plane rows by SEID
type snap struct {
	sess map[uint64]string
	rows map[uint64]string
	all  string
}

func (r *rules) snap() snap {
	s := snap{sess: r.W.V.SessDumps(), rows: map[uint64]string{}}
	for _, k := range r.W.D.Rows() {
		s.rows[k.SEID] += k.String() + " "
	}
	s.all = r.W.V.Dump(pfcp.DumpOpt{NoTrans: true, NoExtra: true}) + r.W.D.Dump()
	return s
}

// isolated: sessions other than those in touched are bit-identical before and after
func (r *rules) isolated(j *Judge, what string, before, after snap, touched map[uint64]bool, o StepObs) {
	for up, d := range before.sess {
		if touched[up] {
			continue
		}
		if after.sess[up] != d {
			j.Fail("disturbed-session:"+what, "%s changed session %s which it does not address: %s -> %s", what, r.Label(up), d, after.sess[up])
		}
	}
	for up, d := range before.rows {
		if !touched[up] && after.rows[up] != d {
			j.Fail("disturbed-rules:"+what, "%s changed data-plane rules of session %s: %q -> %q", what, r.Label(up), d, after.rows[up])
		}
	}
	for up := range after.rows {
		if _, ok := before.rows[up]; !ok && !touched[up] {
			j.Fail("foreign-rules:"+what, "%s created data-plane rules under SEID %s: %q", what, r.Label(up), after.rows[up])
		}
	}
	for _, c := range o.Calls {
		if !touched[c.Key.SEID] {
			j.Fail("foreign-call:"+what, "%s issued data-plane call %s tagged with SEID %s, not the addressed session", what, c, r.Label(c.Key.SEID))
		}
	}
}

// c01Calls: oracle (2) of C01 on the calls of one step; sess = the sessions the step may act on.
func (r *rules) c01Calls(j *Judge, what string, o StepObs, createdNow map[mdp.Key]bool) {
	for _, c := range o.Calls {
		s := r.R.Live[c.Key.SEID]
		if s == nil {
			j.Fail("call-for-dead-session:"+what, "%s: data-plane call %s for SEID %s which is not a live session", what, c, r.Label(c.Key.SEID))
			continue
		}
		rk := mdp.Key{Kind: c.Key.Kind, ID: c.Key.ID}
		switch c.Op {
		case "Create":
			if !createdNow[c.Key] {
				j.Fail("create-not-requested:"+what, "%s: data-plane create %s without a Create IE for it in this request", what, c)
			}
		case "Update", "Remove":
			if !s.Created[rk] {
				j.Fail(strings.ToLower(c.Op)+"-of-uncreated-rule:"+what, "%s: %s reached the data plane for %s, a rule session %s has not created (or has removed)", what, c.Op, c.Key, r.Label(s.UP))
			}
		case "Query":
			if !s.Ever[rk] {
				j.Fail("query-of-uncreated-rule:"+what, "%s: Query reached the data plane for %s, a URR session %s never created", what, c.Key, r.Label(s.UP))
			}
		}
	}
}

// c01Table: oracle (1): every row belongs to a live session and a created rule.
func (r *rules) c01Table(j *Judge, what string) {
	for _, k := range r.W.D.Rows() {
		s := r.R.Live[k.SEID]
		if s == nil {
			j.Fail("orphan-rule:"+what, "after %s the data plane holds %s but session %s is not live", what, k, r.Label(k.SEID))
			continue
		}
		if !s.Created[mdp.Key{Kind: k.Kind, ID: k.ID}] {
			j.Fail("unrequested-rule:"+what, "after %s the data plane holds %s which session %s has not created / has removed", what, k, r.Label(k.SEID))
		}
	}
}

func (r *rules) ended(j *Judge, what string, ups []uint64) {
	for _, up := range ups {
		if rows := r.W.D.DumpOf(up, false); rows != "" {
			j.Fail("rules-outlive-session:"+what, "session %s ended by %s but the data plane still holds %s", r.Label(up), what, rows)
		}
	}
}

// applyRefOps advances the reference for the rule IEs of one request (call results taken from the log).
func (r *rules) applyRefOps(s *RSess, ops []smf.RuleOp, o StepObs) {
	for _, x := range ops {
		k := mdp.Key{Kind: x.Kind, ID: x.ID}
		switch x.Verb {
		case 'C':
			s.Ever[k] = true
			s.Created[k] = true
		case 'R':
			for _, c := range o.Calls {
				if c.Op == "Remove" && c.Err == "" && c.Key.SEID == s.UP && c.Key.Kind == x.Kind && c.Key.ID == x.ID {
					delete(s.Created, k)
				}
			}
		}
	}
}

func (r *rules) Apply(e seqx.Event) seqx.StepResult {
	j := &Judge{Prop: r.prop}
	var o StepObs
	before := r.snap()
	touched := map[uint64]bool{}
	what := e.Op
	switch e.Op {
	case "Fault":
		r.nFault++
		f := mdp.Fault{At: r.W.D.FaultableCalls() + int(e.A[0]), AfterEffect: e.A[1] == 1}
		r.pending = append(r.pending, f)
		r.W.D.Faults = append(r.W.D.Faults, f)
		return seqx.StepResult{Obs: e.String()}
	case "Assoc":
		p, idIdx := int(e.A[0]), int(e.A[1])
		id := r.W.PeerIP(idIdx)
		var ups []uint64
		if n := r.R.Nodes[id]; n != nil {
			for up := range n.Sess {
				ups = append(ups, up)
				touched[up] = true
			}
		}
		what = "Assoc(" + id + ")"
		o = r.W.Send(p, smf.Assoc(r.NextSeq(p), id))
		if j.Crashed(r.W, o) {
			break
		}
		ms := j.OnlyTo(o, p, "Assoc")
		if len(ms) != 1 || ms[0].Type != smf.MAssocRsp || ms[0].Cause() != smf.CauseAccepted {
			j.Fail("assoc-not-accepted", "Association Setup Request not accepted: %v", ms)
			break
		}
		r.c01Calls(j, "Assoc", o, nil)
		ended := r.R.Assoc(id, p)
		r.ended(j, "re-association", ended)
		after := r.snap()
		for _, up := range ended {
			if _, still := after.sess[up]; still {
				j.Fail("reassoc-keeps-session", "re-association of node %s did not remove its session %s", id, r.Label(up))
			}
		}
		r.isolated(j, "re-association", before, after, touched, o)
		if len(ended) > 0 {
			j.Tag("reassoc-ends-sessions")
		}
	case "Est":
		p, m := int(e.A[0]), int(e.A[1])
		r.nEst++
		r.EstUP = append(r.EstUP, 0)
		// CP SEIDs collide across peers on purpose: the n-th session of each peer uses 0x10*n
		n := 0
		for _, s := range r.R.Live {
			if s.Peer == p {
				n++
			}
		}
		cp := uint64(0x10)
		for used := true; used; {
			used = false
			for _, s := range r.R.Live {
				if s.Peer == p && s.CP == cp {
					used = true
					cp += 0x10
				}
			}
		}
		for _, s := range r.R.Live {
			if s.Peer != p && s.CP == cp {
				j.Tag("cp-seid-collision")
			}
		}
		ops := estMenus[m].ops
		o = r.W.Send(p, smf.Est(r.NextSeq(p), r.W.PeerIP(p), true, cp, r.W.PeerIP(p), ops...))
		if j.Crashed(r.W, o) {
			break
		}
		ms := j.OnlyTo(o, p, "Est")
		if len(ms) != 1 || ms[0].Type != smf.MEstRsp || ms[0].Cause() != smf.CauseAccepted {
			j.Fail("est-not-accepted", "establishment not answered with an accepted response: %v", ms)
			break
		}
		up, _, ok := ms[0].FSEID()
		if !ok || up == 0 || r.R.Live[up] != nil {
			j.Fail("est-bad-seid", "Establishment Response UP F-SEID %#x (present=%v) is zero or held by a live session", up, ok)
			break
		}
		if rows := before.rows[up]; rows != "" {
			j.Fail("rules-predate-session", "UP SEID %s issued while the data plane already held %s under it", r.Label(up), rows)
		}
		if r.R.IncOf[up] > 0 {
			j.Tag("seid-reissued")
		}
		s := r.R.NewSess(up, cp, r.W.PeerIP(p))
		r.EstUP[len(r.EstUP)-1] = up
		touched[up] = true
		created := map[mdp.Key]bool{}
		for _, x := range ops {
			created[mdp.Key{SEID: up, Kind: x.Kind, ID: x.ID}] = true
		}
		r.applyRefOps(s, ops, o)
		r.c01Calls(j, "Est", o, created)
		r.isolated(j, "establishment", before, r.snap(), touched, o)
	case "Mod":
		k, m := int(e.A[0]), int(e.A[1])
		up := r.SeidOf(k)
		s := r.R.Live[up]
		ops := r.mods[m].ops
		what = "Mod[" + r.mods[m].name + "]"
		touched[up] = true
		r.W.D.NoRmRpt = r.mods[m].noRpt
		o = r.W.Send(s.Peer, smf.Mod(r.NextSeq(s.Peer), up, "", ops...))
		r.W.D.NoRmRpt = false
		if j.Crashed(r.W, o) {
			break
		}
		ms := j.OnlyTo(o, s.Peer, "Mod")
		if len(ms) != 1 || ms[0].Type != smf.MModRsp || ms[0].Cause() != smf.CauseAccepted || ms[0].SEID != s.CP {
			j.Fail("mod-wrong-answer", "Modification of live session %s not answered accepted with CP SEID %#x: %v", r.Label(up), s.CP, ms)
			break
		}
		created := map[mdp.Key]bool{}
		for _, x := range ops {
			if x.Verb == 'C' {
				created[mdp.Key{SEID: up, Kind: x.Kind, ID: x.ID}] = true
			}
		}
		// judge the calls against the reference *before* this request's removals take effect
		r.c01Calls(j, what, o, created)
		for _, x := range ops {
			rk := mdp.Key{Kind: x.Kind, ID: x.ID}
			if x.Verb != 'C' && !s.Created[rk] {
				j.Tag("op-on-uncreated-rule")
				for _, c := range o.Calls {
					if c.Key.Kind == x.Kind && c.Key.ID == x.ID && !(c.Op == "Query" && s.Ever[rk]) {
						j.Fail("op-reaches-dp-for-uncreated:"+string([]byte{x.Verb, x.Kind}), "%s for rule %c%d that session %s has not created reached the data plane: %s", what, x.Kind, x.ID, r.Label(up), c)
					}
				}
			}
		}
		for _, c := range o.Calls {
			if c.Err != "" && strings.Contains(c.Err, "injected") {
				j.Tag("fault-hit")
			}
		}
		r.applyRefOps(s, ops, o)
		r.isolated(j, "modification", before, r.snap(), touched, o)
	case "Del":
		k := int(e.A[0])
		up := r.SeidOf(k)
		s := r.R.Live[up]
		p := 0
		if s != nil {
			p = s.Peer
			touched[up] = true
		}
		o = r.W.Send(p, smf.Del(r.NextSeq(p), up))
		if j.Crashed(r.W, o) {
			break
		}
		ms := j.OnlyTo(o, p, "Del")
		if len(ms) != 1 || ms[0].Type != smf.MDelRsp {
			j.Fail("del-no-response", "Deletion Request for %s: %d responses", r.Label(up), len(ms))
			break
		}
		r.c01Calls(j, "Del", o, nil)
		if s != nil {
			if ms[0].Cause() != smf.CauseAccepted || ms[0].SEID != s.CP {
				j.Fail("del-wrong-answer", "Deletion of live session %s answered cause=%d SEID=%#x", r.Label(up), ms[0].Cause(), ms[0].SEID)
			}
			r.R.EndSession(up)
			r.ended(j, "deletion", []uint64{up})
			j.Tag("del-live")
		} else if len(o.Calls) > 0 {
			j.Fail("del-released-calls", "Deletion Request for released SEID %s reached the data plane: %v", r.Label(up), o.Calls)
		}
		r.isolated(j, "deletion", before, r.snap(), touched, o)
	case "Report":
		k := int(e.A[0])
		up := r.SeidOf(k)
		s := r.R.Live[up]
		touched[up] = true
		o = r.W.Report(UsageReportFor(up, 2, 1))
		if j.Crashed(r.W, o) {
			break
		}
		n := r.R.Nodes[s.Node]
		ms := j.OnlyTo(o, r.peerOfNode(n), "Report")
		if len(ms) == 1 && ms[0].Type == smf.MReportReq {
			if ms[0].SEID != s.CP {
				j.Fail("report-wrong-cp-seid", "Session Report Request for session %s carries SEID %#x, want its CP SEID %#x", r.Label(up), ms[0].SEID, s.CP)
			}
			r.R.Tx = append(r.R.Tx, RTx{Peer: r.peerOfNode(n), Seq: ms[0].Seq, CP: ms[0].SEID, UP: up})
		} else {
			j.Fail("report-not-sent", "usage report for live session %s with URR 1: %d datagrams to its node", r.Label(up), len(ms))
		}
		r.c01Calls(j, "Report", o, nil)
		r.isolated(j, "report", before, r.snap(), touched, o)
	case "Rsp":
		i, matching := int(e.A[0]), e.A[1] == 1
		t := r.R.Tx[i]
		r.R.Tx = append(append([]RTx{}, r.R.Tx[:i]...), r.R.Tx[i+1:]...)
		seid := uint64(0)
		if matching {
			seid = t.UP
		}
		what = "Session Report Response with SEID 0"
		// the session (if any) whose CP SEID and node address match the answered request
		var victim []uint64
		if !matching {
			for _, up := range r.R.LiveIDs() {
				x := r.R.Live[up]
				if x.CP == t.CP && r.R.Nodes[x.Node].Peer == r.addrPeer(t.Peer) {
					victim = append(victim, up)
					break
				}
			}
			for _, up := range r.R.LiveIDs() {
				if x := r.R.Live[up]; x.CP == t.CP && len(victim) > 0 && up != victim[0] {
					j.Tag("rsp0-with-colliding-cp-seid")
				}
			}
		}
		for _, up := range victim {
			touched[up] = true
		}
		o = r.W.Send(r.addrPeer(t.Peer), smf.ReportRsp(t.Seq, seid, smf.CauseAccepted))
		if j.Crashed(r.W, o) {
			break
		}
		j.OnlyTo(o, -1, "Rsp")
		r.c01Calls(j, "Rsp", o, nil)
		after := r.snap()
		for _, up := range victim {
			r.R.EndSession(up)
			if _, still := after.sess[up]; still {
				j.Fail("rsp0-keeps-session", "SEID-0 response did not remove session %s whose CP SEID %#x and peer match the report", r.Label(up), t.CP)
			}
			j.Tag("rsp0-ends-session")
		}
		r.ended(j, "SEID-0 report response", victim)
		r.isolated(j, what, before, after, touched, o)
	case "Push":
		k := int(e.A[0])
		up := r.SeidOf(k)
		touched[up] = true
		r.nPush++
		pl := []byte(fmt.Sprintf("payload-%d-%d", k, r.nPush))
		o = r.W.Report(report.SessReport{SEID: up, Reports: []report.Report{report.DLDReport{PDRID: uint16(e.A[1]), Action: report.APPLY_ACT_BUFF, BufPkt: pl}}})
		if j.Crashed(r.W, o) {
			break
		}
		j.OnlyTo(o, -1, "Push")
		after := r.snap()
		q := r.W.V.Queue(up, uint16(e.A[1]))
		if len(q) == 0 || string(q[len(q)-1]) != string(pl) {
			j.Fail("push-lost", "buffered packet for session %s PDR %d is not at the tail of that queue", r.Label(up), e.A[1])
		}
		r.isolated(j, "buffer notification", before, after, touched, o)
	case "TakeoverX":
		k, q := int(e.A[0]), int(e.A[1])
		up := r.SeidOf(k)
		s := r.R.Live[up]
		for x := range r.R.Nodes[s.Node].Sess {
			touched[x] = true // re-keyed together with their node object
		}
		o = r.W.Send(s.Peer, smf.Mod(r.NextSeq(s.Peer), up, r.W.PeerIP(q)))
		if j.Crashed(r.W, o) {
			break
		}
		j.OnlyTo(o, s.Peer, "TakeoverX")
		r.merged = true
		r.isolated(j, "takeover onto an associated node id", before, r.snap(), touched, o)
		j.Tag("takeover-onto-associated")
	case "TakeoverSelf":
		k := int(e.A[0])
		up := r.SeidOf(k)
		s := r.R.Live[up]
		for x := range r.R.Nodes[s.Node].Sess {
			touched[x] = true
		}
		o = r.W.Send(s.Peer, smf.Mod(r.NextSeq(s.Peer), up, s.Node))
		if j.Crashed(r.W, o) {
			break
		}
		j.OnlyTo(o, s.Peer, "TakeoverSelf")
		r.isolated(j, "takeover by the session's own node id", before, r.snap(), touched, o)
		j.Tag("takeover-self")
	case "Takeover":
		k, t := int(e.A[0]), int(e.A[1])
		up := r.SeidOf(k)
		s := r.R.Live[up]
		newID := r.W.PeerIP(t)
		old := r.R.Nodes[s.Node]
		for x := range old.Sess {
			touched[x] = true // the node object is shared by its sessions: all of them are re-keyed
		}
		o = r.W.Send(s.Peer, smf.Mod(r.NextSeq(s.Peer), up, newID))
		if j.Crashed(r.W, o) {
			break
		}
		j.OnlyTo(o, s.Peer, "Takeover")
		delete(r.R.Nodes, old.ID)
		old.ID = newID
		r.R.Nodes[newID] = old
		for x := range old.Sess {
			r.R.Live[x].Node = newID
		}
		after := r.snap()
		// the node's sessions keep everything except the node id
		for x := range old.Sess {
			a := strings.Replace(before.sess[x], "node="+s.Node, "node=?", 1)
			_ = a
		}
		r.isolated(j, "takeover", before, after, touched, o)
		j.Tag("takeover")
	}
	if len(j.Viols) == 0 && !r.W.Dead {
		r.c01Table(j, what)
		r.liveSet(j)
	}
	if r.prop != "C01" {
		j.Viols = filterProp(j.Viols, r.prop)
	} else {
		j.Viols = filterProp(j.Viols, "C01")
	}
	return seqx.StepResult{Obs: e.String() + " => " + o.StringL(r.Label), Viols: append(r.pre.Take(), j.Viols...), Tags: j.Tags}
}

// which signatures belong to which property: C01 judges rule lifetime, C05 judges isolation; everything
// that is a crash or a malformed answer is reported by both (it invalidates either).
var c01Sigs = []string{"rules-outlive-session", "rules-predate-session", "orphan-rule", "unrequested-rule", "create-not-requested",
	"update-of-uncreated-rule", "remove-of-uncreated-rule", "query-of-uncreated-rule", "call-for-dead-session", "op-reaches-dp-for-uncreated", "del-released-calls"}
var c05Sigs = []string{"disturbed-session", "disturbed-rules", "foreign-rules", "foreign-call", "reassoc-keeps-session", "rsp0-keeps-session",
	"push-lost", "report-wrong-cp-seid", "misdirected", "live-set", "call-for-dead-session"}

func filterProp(vs []seqx.Viol, prop string) []seqx.Viol {
	var sigs []string
	switch prop {
	case "C01":
		sigs = c01Sigs
	case "C05":
		sigs = c05Sigs
	default:
		return vs
	}
	var out []seqx.Viol
	for _, v := range vs {
		body := strings.TrimPrefix(v.Sig, prop+":")
		keep := strings.HasPrefix(body, "fatal") || strings.HasPrefix(body, "stuck") || strings.Contains(body, "not-accepted") ||
			strings.Contains(body, "wrong-answer") || strings.Contains(body, "no-response") || strings.Contains(body, "bad-seid") || strings.Contains(body, "report-not-sent")
		for _, s := range sigs {
			if strings.HasPrefix(body, s) {
				keep = true
			}
		}
		if keep {
			out = append(out, v)
		}
	}
	return out
}

func (r *rules) peerOfNode(n *RNode) int {
	// reports go to <node id>:8805: the socket bound to that address
	for i := 0; i < NPeers; i++ {
		if r.W.PeerIP(i) == n.ID {
			return i
		}
	}
	return n.Peer
}

// addrPeer: the peer socket a response has to come from to match a request sent to peer index p.
func (r *rules) addrPeer(p int) int { return p }

func (r *rules) liveSet(j *Judge) {
	d := r.W.V.SessDumps()
	for up := range r.R.Live {
		if _, ok := d[up]; !ok {
			j.Fail("live-set:missing", "session %s should be live but is not in the session table", r.Label(up))
		}
	}
	for up := range d {
		if r.R.Live[up] == nil {
			j.Fail("live-set:extra", "session %s is in the session table but has ended", r.Label(up))
		}
	}
}

func runRules(prop, tier, bound string, assumptions ...string) {
	run := evid.NewRun(prop, tier)
	smp := &evid.Samples{N: 10}
	var total seqx.Stats
	spec := rulesSpec(prop)(tier, "rules")
	// both map iteration orders; quick: C01 only (C05 quick already runs into its deadline with one order)
	st := seqx.ExploreOrders(run, spec, tier, smp, &total, tier == "thorough" || prop == "C01")
	if prop == "C01" {
		st2 := seqx.ExploreOrders(run, rulesSpec(prop)(tier, "rules-recycled"), tier, smp, &total, tier == "thorough")
		if st2.DepthDone < st.DepthDone {
			st.DepthDone = st2.DepthDone
		}
	}
	seqx.Finish(run, total, smp, fmt.Sprintf(bound, spec.MaxDepth, st.DepthDone))
	for _, a := range assumptions {
		run.Assumption(a)
	}
	run.Assumption("the model data plane stands for the gtp5g kernel module (EEXIST / ENOENT semantics; a create may fail before or after taking effect)")
	run.Assumption("events reach the loop one at a time (the loop is the only goroutine touching session state)")
	run.Finish()
}

func RunC01(tier string) {
	runRules("C01", tier, "2 peers, <=2 (thorough 3) live sessions, single-IE modifications over every verb x kind for a created and a never-created id, data-plane faults armed at every offset 0..3 (thorough 0..7) before/after effect, <=1 (thorough 2) faults per history; start states: (1) both peers associated, (2) the same after A established two sessions and re-associated (two released SEIDs in the free list); all histories to depth %d from each (completed %d)")
}

func RunC05(tier string) {
	runRules("C05", tier, "2 peers with colliding CP SEIDs and rule ids, <=2 (thorough 3) live sessions, modifications, deletion, re-association, SEID-0 report responses, buffered-packet pushes, takeover by a fresh node id and (terminal step) by the id of the other associated node; start state: both peers associated; all histories to depth %d from there (completed %d)")
}
