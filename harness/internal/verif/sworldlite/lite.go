//go:build verif

// Package sworldlite: helpers shared by worlds that must not import the quiescence-based sworld package.
package sworldlite

import (
	"github.com/free5gc/go-upf/internal/report"
	"github.com/free5gc/go-upf/internal/verif/mdp"
)

// UsageReportFor builds the notification the data plane would post for (seid, urrs).
func UsageReportFor(seid uint64, trig uint32, urrs ...uint32) report.SessReport {
	sr := report.SessReport{SEID: seid}
	for _, u := range urrs {
		sr.Reports = append(sr.Reports, report.USAReport{URRID: u, USARTrigger: report.UsageReportTrigger{Flags: trig},
			VolumMeasure: mdp.Counters(mdp.Key{SEID: seid, Kind: 'U', ID: u}, 9999)})
	}
	return sr
}
