//go:build verif

package c07

import (
	"bytes"
	"encoding/binary"
	"encoding/hex"
	"fmt"
	"os"
	"regexp"
	"sort"
	"strings"
	"sync"
	"time"

	"github.com/free5gc/go-upf/internal/pfcp"
	"github.com/free5gc/go-upf/internal/report"
	"github.com/free5gc/go-upf/internal/verif/evid"
	"github.com/free5gc/go-upf/internal/verif/fworld"
	"github.com/free5gc/go-upf/internal/verif/seqx"
	"github.com/free5gc/go-upf/internal/verif/smf"
	"github.com/free5gc/go-upf/internal/verif/sworld"
)

// C07 — no datagram sequence can take the control plane down.
//
// States: every state reached by {Assoc(A), Assoc(B), Est(A), Est(B), Del(session), Report(session),
// Push(session)} within the depth bound (explicit-state search). In every reached state a mutation sweep:
// for each of 14 valid base datagrams from peer A every single-octet replacement from {00,01,7f,80,ff,b^01,b^80} (quick: {00,ff,b^01}),
// every truncation and extension by 1..4 octets, and every structure-aware mutation from a TLV walk (each IE
// at every nesting level deleted / duplicated / emptied / length {0,1,len-1,len+1,ffff} / type {0, unknown,
// enterprise bit, another type} / payload one octet short or long; header length, flags, version, message type,
// SEID classes, sequence number). Each mutant is sent through the real UDP socket, followed by a copy of
// itself and by a Heartbeat Request from another peer that must be answered.
// Scenarios: driver "mdp" (no IE decoding below the session layer) and "gtp5g" (real driver over the
// simulated kernel, decoding every child IE).

type c07 struct {
	driver     string
	tier       string
	w          *sworld.World
	fw         *fworld.World
	hist       []seqx.Event
	sessUP     [2]uint64 // live session of peer A / B (0 none)
	ended      []uint64
	txSeq      uint32
	hasTx      bool
	swept      bool
	baseTokens map[string]bool
	baseSess   int
	seq        uint32
	nMut       int64
	part, parts int // quick: this instance sweeps the bases with index%parts == part (0 parts: all)
	stuckWhat         string
	stuck             bool  // the loop of this instance is blocked for good (a finding): nothing further can be swept here
	sessMut, sessLive int64 // session-level mutants answered at all / answered other than "session context not found"
}

func c07Spec(tier, scenario string) seqx.Spec {
	depth := 2
	dl := 170 * time.Second
	if tier == "thorough" {
		depth = 4
		dl = 60 * time.Minute
	}
	return seqx.Spec{Prop: "C07", Scenario: scenario, MaxDepth: depth + 1, Deadline: dl, New: func() seqx.Instance {
		quickVals = tier != "thorough"
		c := &c07{driver: scenario, tier: tier, seq: 0x1000}
		c.build()
		return c
	}}
}

func init() { seqx.Register("C07", c07Spec) }

func (c *c07) build() {
	if c.driver == "gtp5g" {
		c.fw = fworld.New(1)
		c.w = c.fw.World
	} else {
		c.w = sworld.New(sworld.Options{MaxRetrans: 1})
	}
}

func (c *c07) close() {
	if c.fw != nil {
		c.fw.Close()
	} else {
		c.w.Close()
	}
}

func (c *c07) Close() { c.close() }

func (c *c07) gnb() string { return c.w.Blk.IP(9).String() }

func (c *c07) send(p int, b []byte) sworld.StepObs {
	if c.fw != nil {
		return c.fw.Send(p, b)
	}
	return c.w.Send(p, b)
}

func (c *c07) sendUDP(p int, b []byte) sworld.StepObs {
	if c.fw != nil {
		return c.fw.SendUDP(p, b)
	}
	return c.w.SendUDP(p, b)
}

func (c *c07) dpDump() string {
	if c.fw != nil {
		return c.fw.K.Dump(nil)
	}
	return c.w.D.Dump()
}

func (c *c07) Enabled() []seqx.Event {
	var ev []seqx.Event
	nm := func(e seqx.Event, f string, a ...interface{}) seqx.Event { e.N = fmt.Sprintf(f, a...); return e }
	if !c.swept {
		ev = append(ev, nm(seqx.Ev("Sweep"), "MutationSweep"))
	}
	for p := 0; p < 2; p++ {
		ev = append(ev, nm(seqx.Ev("Assoc", int64(p)), "Assoc(%c)", 'A'+p))
		if c.sessUP[p] == 0 {
			ev = append(ev, nm(seqx.Ev("Est", int64(p)), "Est(%c)", 'A'+p))
		} else {
			ev = append(ev, nm(seqx.Ev("Del", int64(p)), "Del(session of %c)", 'A'+p))
			if !c.hasTx {
				ev = append(ev, nm(seqx.Ev("Report", int64(p)), "Report(session of %c)", 'A'+p))
			}
			ev = append(ev, nm(seqx.Ev("Push", int64(p)), "Push(session of %c)", 'A'+p))
		}
	}
	return ev
}

func (c *c07) Key() string {
	return c.w.V.Dump(pfcp.DumpOpt{NoTrans: true, NoSeq: true}) + "DP " + c.dpDump() + fmt.Sprintf(" tx=%v swept=%v", c.hasTx, c.swept)
}

// prefix applies one structural event (valid traffic).
func (c *c07) prefix(e seqx.Event) (o sworld.StepObs) {
	p := int(e.A[0])
	ip := c.w.PeerIP(p)
	c.seq++
	switch e.Op {
	case "Assoc":
		o = c.send(p, smf.Assoc(c.seq, ip))
		c.sessUP[p] = 0
	case "Est":
		ies := createRules(1, c.gnb())
		b := bases(ip, c.gnb(), 0, 0)
		_ = b
		o = c.send(p, estMsg(c.seq, ip, ies))
		if len(o.Out[p]) == 1 {
			if up, _, ok := o.Out[p][0].FSEID(); ok {
				c.sessUP[p] = up
			}
		}
	case "Del":
		o = c.send(p, smf.Del(c.seq, c.sessUP[p]))
		c.ended = append(c.ended, c.sessUP[p])
		c.sessUP[p] = 0
	case "Report":
		sr := sworld.UsageReportFor(c.sessUP[p], 2, 1)
		c.w.V.InjectReport(sr)
		o = c.settle()
		if len(o.Out[p]) == 1 && o.Out[p][0].Type == smf.MReportReq {
			c.txSeq, c.hasTx = o.Out[p][0].Seq, true
		}
	case "Push":
		c.w.V.InjectReport(report.SessReport{SEID: c.sessUP[p], Reports: []report.Report{report.DLDReport{PDRID: 1, Action: report.APPLY_ACT_BUFF, BufPkt: []byte("queued-packet")}}})
		o = c.settle()
	}
	return o
}

func (c *c07) settle() sworld.StepObs {
	if c.fw != nil {
		return c.fw.Settle()
	}
	return c.w.Collect()
}

func (c *c07) Apply(e seqx.Event) seqx.StepResult {
	j := &sworld.Judge{Prop: "C07"}
	var o sworld.StepObs
	switch e.Op {
	case "Sweep":
		c.swept = true
		n := c.sweep(j)
		j.Tag(fmt.Sprintf("mutants=%d", n))
		if c.sessMut >= 50 && c.sessUP[0] != 0 {
			pct := 100 * c.sessLive / c.sessMut
			j.Tag(fmt.Sprintf("answered session-level mutants not answered 'context not found': %d0-%d9%%", pct/10, pct/10))
			if pct < 30 {
				evid.Infra("C07: only %d%% of the answered session-level mutants reached a live session (stale addressing?)", pct)
			}
		}
		return seqx.StepResult{Obs: "sweep", Viols: j.Viols, Tags: j.Tags}
	case "Part":
		// not an event of the UPF: selects which share of the base datagrams a sweep in this state takes, so that
		// the sweeps of one state run in several worker processes
		c.part, c.parts = int(e.A[0]), int(e.A[1])
		return seqx.StepResult{Obs: e.String()}
	case "Raw":
		b, _ := hex.DecodeString(e.S)
		// the datagram embeds loopback addresses of the process that found it (node id, F-SEID, outer header
		// creation): move them into this process's address block
		if len(e.A) == 2 {
			from := []byte{127, byte(e.A[0]), byte(e.A[1])}
			to := []byte{127, byte(c.w.Blk.B), byte(c.w.Blk.C)}
			b = bytes.ReplaceAll(b, from, to)
		}
		// e.N is "datagram[<base>: <mutation>]": the finding's signature is derived from the mutation's class, so
		// the replay must name it as the sweep did
		baseName, desc := "replayed datagram", e.N
		if strings.HasPrefix(desc, "datagram[") && strings.HasSuffix(desc, "]") {
			if i := strings.Index(desc, ": "); i > 0 {
				baseName, desc = desc[len("datagram["):i], desc[i+2:len(desc)-1]
			}
		}
		c.one(j, mutant{b: b, desc: desc, hdr: true}, baseName, nil)
		return seqx.StepResult{Obs: "raw", Viols: j.Viols}
	default:
		c.swept = false
		c.hist = append(c.hist, e)
		o = c.prefix(e)
		j.Crashed(c.w, o)
	}
	return seqx.StepResult{Obs: e.String() + " => " + o.String(), Viols: j.Viols, Tags: j.Tags}
}

func (c *c07) seidClasses() []uint64 {
	out := []uint64{0, 1 << 32, 1<<63 - 1, 1 << 63, 1<<63 + 1, 1<<64 - 1, 3}
	for _, s := range c.sessUP {
		if s != 0 {
			out = append(out, s)
		}
	}
	if len(c.ended) > 0 {
		out = append(out, c.ended[len(c.ended)-1])
	}
	return out
}

// stillStands: everything the reached state consists of (nodes, sessions, their rules, non-empty queues, an
// outstanding request) still exists and not much has been added. Drift that only adds rules or changes a
// rule's contents does not change which handler paths the next datagram reaches, so the world is kept;
// otherwise it is rebuilt from the state's history.
func (c *c07) stillStands() bool {
	now, n := c.w.V.RuleTokens()
	for t := range c.baseTokens {
		if !now[t] {
			return false
		}
	}
	return n <= c.baseSess+6 && len(now) <= len(c.baseTokens)+40
}

// exactly: the token set equals the reached state's (used after a soft rebuild).
func (c *c07) exactly() bool {
	now, n := c.w.V.RuleTokens()
	if n != c.baseSess || len(now) != len(c.baseTokens) {
		return false
	}
	for t := range c.baseTokens {
		if !now[t] {
			return false
		}
	}
	return true
}

// rebuild restores the reached state on a fresh world (a mutant changed it).
func (c *c07) rebuild() {
	// soft rebuild: every history starts by (re-)associating its nodes, which removes all their sessions and
	// rules; replaying the history on the same world then restores the state without new sockets and goroutines
	if !c.w.Dead && len(c.hist) > 0 {
		h := c.hist
		c.hist = nil
		c.sessUP = [2]uint64{}
		c.hasTx = false
		for k, e := range h {
			c.hist = append(c.hist, e)
			if o := c.prefix(e); o.State != "" && o.Alive && !o.Fatal {
				// valid traffic (the re-association / establishments that restore the swept state) wedged the loop
				// after the mutants sent so far: a finding, not a harness problem
				c.stuck = true
				c.stuckWhat = fmt.Sprintf("%s, replayed after %d mutants to restore the swept state (event %d of its history), left the event loop blocked: %s", e, c.nMut, k+1, o.State)
				c.hist = h
				return
			}
		}
		if !c.w.Dead && c.exactly() {
			return
		}
	}
	t0 := time.Now()
	defer func() {
		if os.Getenv("VERIF_DEBUG") != "" {
			fmt.Fprintf(os.Stderr, "DEBUG rebuild took %v\n", time.Since(t0))
		}
	}()
	c.close()
	h := c.hist
	*c = c07{driver: c.driver, tier: c.tier, seq: c.seq, nMut: c.nMut, swept: true, baseTokens: c.baseTokens, baseSess: c.baseSess}
	c.build()
	for _, e := range h {
		c.hist = append(c.hist, e)
		c.prefix(e)
	}
}

// state: the structural projection that decides whether the reached state still stands (nodes, sessions, their
// rule-id sets, queue lengths, data-plane keys). Per-URR counters and flags may drift between mutants: they do
// not change which handler paths a datagram reaches.
func (c *c07) state() string {
	return c.w.V.Dump(pfcp.DumpOpt{NoTrans: true, NoExtra: true, NoSeq: true, QLenOnly: true, IDsOnly: true}) + c.dpDump()
}

// one delivers a mutant twice and probes liveness; returns whether the state changed.
func (c *c07) one(j *sworld.Judge, m mutant, baseName string, baseline *string) (changed bool) {
	c.seq++
	c.nMut++
	raw := stamp(m, c.seq)
	bSess := c.sessUP[1]
	var bDump string
	if bSess != 0 {
		bDump = c.w.V.SessDumps()[bSess]
	}
	site := func() string { return classOf(baseName, m.desc) }
	ev := &seqx.Event{Op: "Raw", A: []int64{int64(c.w.Blk.B), int64(c.w.Blk.C)}, S: hex.EncodeToString(raw), N: fmt.Sprintf("datagram[%s: %s]", baseName, m.desc)}
	fail := func(sig, f string, a ...interface{}) {
		j.Fail(sig, f, a...)
		j.Viols[len(j.Viols)-1].Ev = ev
	}
	// the mutant, a copy of itself, and a Heartbeat Request from another peer: sent back to back through the
	// real socket, judged when all three have been handled
	c.seq++
	var o sworld.StepObs
	ds := []sworld.Dgram{{Peer: 0, B: raw}, {Peer: 0, B: raw}, {Peer: 2, B: smf.Heartbeat(c.seq)}}
	if c.tier != "thorough" && strings.HasPrefix(m.desc, "octet ") {
		// quick: single-octet replacements are sent once (the retransmission path is exercised by every other mutant)
		ds = ds[1:]
	}
	if c.fw != nil {
		o = c.fw.SendUDPBatch(ds)
	} else {
		o = c.w.SendUDPBatch(ds)
	}
	if os.Getenv("VERIF_DEBUG") != "" {
		fmt.Fprintf(os.Stderr, "DEBUG one [%s: %s]: fatal=%v alive=%v state=%q out=%v dp=%s bSess=%#x nodes=%v\n", baseName, m.desc, o.Fatal, o.Alive, o.State, o.Out, c.dpDump(), bSess, c.w.V.NodeIDs())
	}
	if o.Fatal || !o.Alive {
		msg := pfcp.VFatalMsg()
		if o.Fatal {
			fail("fatal:"+fatalSite(msg), "the UPF panicked / requested a fatal exit on a datagram (%s of %s, %d octets: %s): %s", m.desc, baseName, len(raw), hexShort(raw), short(msg, 500))
		} else {
			fail("stops-serving:"+site(), "the PFCP event loop terminated after a datagram (%s of %s, %d octets: %s)", m.desc, baseName, len(raw), hexShort(raw))
		}
		return true
	}
	if o.State != "" {
		c.stuck = true
		fail("stops-serving:"+site(), "the UPF stops serving after a datagram (%s of %s, %d octets: %s): %s", m.desc, baseName, len(raw), hexShort(raw), o.State)
		return true
	}
	if len(o.Out[2]) != 1 || o.Out[2][0].Type != smf.MHeartbeatRsp || o.Out[2][0].Seq != c.seq {
		fail("stops-serving:"+site(), "after a datagram (%s of %s, %d octets: %s) a Heartbeat Request is no longer answered (loop alive=%v, state %q)", m.desc, baseName, len(raw), hexShort(raw), o.Alive, o.State)
		return true
	}
	// how many session-level mutants still reach a live session (a sweep whose mutants are all answered "context
	// not found" exercises nothing behind the session lookup)
	if len(raw) > 1 && raw[1] >= 52 && raw[1] <= 55 && len(o.Out[0]) > 0 {
		c.sessMut++
		if o.Out[0][0].Cause() != smf.CauseContextNotFound {
			c.sessLive++
		}
	}
	// sessions not addressed by the offending message are intact: B's session, unless the mutant names it
	if bSess != 0 {
		addressed := false
		if pm, err := smf.Parse(raw); err == nil || pm != nil {
			if pm != nil && pm.HasSEID && pm.SEID == bSess {
				addressed = true
			}
			if pm != nil && pm.NodeID() == c.w.PeerIP(1) && !(pm.Type >= 50 && pm.Type <= 57) {
				addressed = true // a node-level message for B's node (see below)
			}
		}
		if len(raw) >= 16 && raw[0]&1 != 0 {
			var s uint64
			for i := 4; i < 12; i++ {
				s = s<<8 | uint64(raw[i])
			}
			if s == bSess {
				addressed = true
			}
		}
		if strings.Contains(hex.EncodeToString(raw), hex.EncodeToString(c.w.Blk.IP(3))) && !(len(raw) > 1 && raw[1] >= 50 && raw[1] <= 57) {
			// B's node id occurs in a node-level datagram (e.g. a one-bit change of A's in an Association Setup
			// Request, which legitimately ends B's sessions). A session-level message naming B's node id (an
			// establishment for B's node, the takeover of A's session onto B's id) does not address B's session.
			addressed = true
		}
		if !addressed && c.w.V.SessDumps()[bSess] != bDump {
			fail("foreign-session-disturbed:"+site(), "a datagram from A (%s of %s: %s) that does not address B's session %#x changed it: %s -> %s", m.desc, baseName, hexShort(raw), bSess, bDump, c.w.V.SessDumps()[bSess])
		}
	}
	if baseline != nil && !c.stillStands() {
		return true
	}
	return false
}

func hexShort(b []byte) string {
	if len(b) > 48 {
		return hex.EncodeToString(b[:48]) + "..."
	}
	return hex.EncodeToString(b)
}

func short(s string, n int) string {
	if len(s) > n {
		return s[:n] + "..."
	}
	return s
}

// classOf: stable description of a mutant for finding signatures (no offsets / values)
func classOf(base, desc string) string {
	d := desc
	for _, cut := range []string{" at ", " = ", " set to ", " (was"} {
		if i := strings.Index(d, cut); i > 0 {
			d = d[:i]
		}
	}
	if strings.HasPrefix(d, "octet ") {
		d = "octet replacement"
	}
	if strings.HasPrefix(d, "truncated to 0 ") {
		d = "empty datagram"
	} else if strings.HasPrefix(d, "truncated") {
		d = "truncation"
	}
	return d
}

func fatalSite(msg string) string {
	lines := strings.Split(msg, "\n")
	head := lines[0]
	// drop the operands of the runtime error (indices, lengths): one defect, one signature
	head = regexp.MustCompile(`\[[^\]]*\]`).ReplaceAllString(head, "")
	head = regexp.MustCompile(`[0-9]+`).ReplaceAllString(head, "N")
	head = strings.TrimSpace(strings.ReplaceAll(head, " with capacity", ""))
	if len(head) > 70 {
		head = head[:70]
	}
	for _, l := range lines[1:] {
		if strings.HasPrefix(l, "\t") || strings.Contains(l, "runtime") || strings.Contains(l, ".main.func1") || strings.Contains(l, "zz_verif") || strings.Contains(l, "/verif/") {
			continue
		}
		if strings.Contains(l, "(") && strings.Contains(l, ".") {
			f := l
			if i := strings.LastIndex(f, "("); i > 0 {
				f = f[:i]
			}
			return head + "@" + f[strings.LastIndex(f, "/")+1:]
		}
	}
	return head
}

func (c *c07) sweep(j *sworld.Judge) int64 {
	start := c.nMut
	t0 := time.Now()
	baseline := c.state()
	c.baseTokens, c.baseSess = c.w.V.RuleTokens()
	target := c.sessUP[0]
	if target == 0 {
		target = 1
	}
	txs := c.txSeq
	if !c.hasTx {
		txs = 77
	}
	stride := 1
	if c.tier != "thorough" {
		stride = 1
	}
	origA, origB := c.sessUP[0], c.sessUP[1]
	remapped := 0
	defer func() {
		if os.Getenv("VERIF_DEBUG") != "" {
			fmt.Fprintf(os.Stderr, "DEBUG sweep: %d mutants re-addressed after rebuilds\n", remapped)
		}
	}()
	sigs := map[string]bool{}
	seenSig := map[string]int{}
	often := false
	sinceRebuild := 0
	for bi, b := range bases(c.w.PeerIP(0), c.gnb(), target, txs) {
		if c.parts > 0 && bi%c.parts != c.part {
			continue
		}
		if f := os.Getenv("VERIF_C07_BASE"); f != "" && !strings.Contains(b.name, f) { // debugging aid
			continue
		}
		if c.tier != "thorough" && c.driver == "gtp5g" && strings.Contains(b.name, "update+create+remove") {
			// quick, real driver: the largest base costs 30-100 ms per mutant through the simulated kernel (about
			// 4 minutes per state): left to the thorough tier; the model data plane sweeps it in every state
			continue
		}
		muts := structural(b.b, c.seidClasses())
		if c.tier != "thorough" && strings.Contains(b.name, "update+create+remove") {
			// quick: the largest base gets the structure-aware mutations only
		} else if c.driver == "mdp" || c.tier == "thorough" {
			muts = append(muts, bytewise(b.b, stride)...)
		} else {
			// gtp5g quick: octet replacements only inside the IE area of the session messages (the driver's decoders)
			if strings.HasPrefix(b.name, "SessionEstablishment") || strings.HasPrefix(b.name, "SessionModification") {
				muts = append(muts, bytewise(b.b, 1)...)
			}
		}
		if c.tier == "thorough" && (strings.HasPrefix(b.name, "SessionEstablishmentRequest") || strings.HasPrefix(b.name, "SessionModificationRequest(update+query)")) {
			// pairs of structure-aware mutations: the second applied to the result of the first
			first := structural(b.b, nil)
			for i := 0; i < len(first); i += 3 {
				for _, m2 := range structural(first[i].b, nil) {
					muts = append(muts, mutant{b: m2.b, desc: first[i].desc + " + " + m2.desc, hdr: first[i].hdr || m2.hdr})
				}
			}
		}
		muts = append(muts, mutant{b: b.b, desc: "unmodified", hdr: false})
		if os.Getenv("VERIF_DEBUG") != "" {
			fmt.Fprintf(os.Stderr, "DEBUG sweep %s base %s: %d mutants (so far %d, %v)\n", c.driver, b.name, len(muts), c.nMut-start, time.Since(t0))
		}
		for _, m := range muts {
			nv := len(j.Viols)
			sinceRebuild++
			// the state is rebuilt after a mutant changed it, and the rebuilt sessions may have been given other
			// SEIDs than the ones the base datagrams were built with: a mutant that addresses A's (B's) session
			// keeps addressing it
			if b := m.b; len(b) >= 12 && b[0]&1 != 0 {
				s := binary.BigEndian.Uint64(b[4:12])
				to := s
				if origA != 0 && s == origA && c.sessUP[0] != 0 {
					to = c.sessUP[0]
				} else if origB != 0 && s == origB && c.sessUP[1] != 0 {
					to = c.sessUP[1]
				}
				if to != s {
					nb := append([]byte{}, b...)
					binary.BigEndian.PutUint64(nb[4:12], to)
					m.b = nb
					remapped++
				}
			}
			changed := c.one(j, m, b.name, &baseline)
			if c.stuck {
				// the event loop is blocked for good: reported; this instance (and its server) cannot be swept further
				return c.nMut - start
			}
			if changed || sinceRebuild >= 500 {
				sinceRebuild = 0
				c.rebuild()
				if c.stuck {
					j.Fail("stops-serving:valid traffic after mutants", "the UPF stops serving: %s", c.stuckWhat)
					return c.nMut - start
				}
				if !c.exactly() {
					evid.Infra("C07: rebuilding the state by replaying its history gave a different state:\n%s\n---\n%s", baseline, c.state())
				}
			}
			// keep one violation per signature
			if len(j.Viols) > nv {
				var keep []seqx.Viol
				for _, v := range j.Viols[:nv] {
					keep = append(keep, v)
				}
				for _, v := range j.Viols[nv:] {
					if !sigs[v.Sig] {
						sigs[v.Sig] = true
						keep = append(keep, v)
					}
					seenSig[v.Sig]++
					if seenSig[v.Sig] >= 3 {
						often = true
					}
				}
				j.Viols = keep
			}
			if len(sigs) >= 6 || often {
				// enough: the tree is broken (every further crash costs a rebuild of the state)
				return c.nMut - start
			}
		}
	}
	return c.nMut - start
}

func estMsg(seq uint32, ip string, rules interface{}) []byte {
	return bases2est(seq, ip, rules)
}

func RunC07(tier string) {
	run := evid.NewRun("C07", tier)
	smp := &evid.Samples{N: 10}
	var total seqx.Stats
	var muts int64
	A, B := int64(0), int64(1)
	e := func(op string, p int64) seqx.Event { return seqx.Ev(op, p) }
	base := []seqx.Event{e("Assoc", A), e("Assoc", B), e("Est", A), e("Est", B)}
	with := func(x ...seqx.Event) []seqx.Event { return append(append([]seqx.Event{}, base...), x...) }
	targets := [][]seqx.Event{
		{},
		{e("Assoc", A)},
		{e("Assoc", A), e("Est", A)},
		base,
		with(e("Del", A)),
		with(e("Report", A)),
		with(e("Push", A)),
		with(e("Del", A), e("Est", A)),
	}
	drivers := []string{"mdp", "gtp5g"}
	stats := make([]seqx.Stats, len(drivers))
	var wg sync.WaitGroup
	for i, drv := range drivers {
		wg.Add(1)
		go func(i int, drv string) {
			defer wg.Done()
			spec := c07Spec(tier, drv)
			if tier == "thorough" {
				stats[i] = seqx.Explore(run, spec, tier, smp)
				return
			}
			// quick: a mutation sweep in representative reached states (empty, associated, one session, two sessions
			// on two peers, released slot, outstanding report request, queued packets, re-used SEID)
			tg := targets
			if drv == "gtp5g" {
				tg = [][]seqx.Event{targets[2], targets[3], targets[5], targets[7]}
			}
			// every state's sweep is split into five shares of the base datagrams (five jobs)
			var split [][]seqx.Event
			for _, h := range tg {
				for part := int64(0); part < 5; part++ {
					x := seqx.Ev("Part", part, 5)
					x.N = fmt.Sprintf("[bases %d mod 5]", part)
					split = append(split, append(append([]seqx.Event{}, h...), x))
				}
			}
			stats[i] = seqx.ExploreTargets(run, spec, tier, split, smp)
		}(i, drv)
		if tier == "thorough" {
			wg.Wait() // the breadth-first search uses all cores itself
		}
	}
	wg.Wait()
	for i, drv := range drivers {
		st := stats[i]
		seqx.Merge(run, drv, st, &total)
		for k, v := range st.Tags {
			if strings.HasPrefix(k, "mutants=") {
				var n int64
				fmt.Sscanf(k, "mutants=%d", &n)
				muts += n * v
			}
		}
	}
	smp.Offer("datagram[SessionEstablishmentRequest: length of IE type 2 at 33 set to 0xffff]")
	smp.Offer("datagram[SessionModificationRequest(update+query): header SEID 0x8000000000000001]")
	run.Set("mutant_sequences", muts)
	var tk []string
	for k := range total.Tags {
		tk = append(tk, k)
	}
	sort.Strings(tk)
	seqx.Finish(run, total, smp, fmt.Sprintf("states: quick = eight representative reached states (empty, associated, one session, two sessions on two peers, released slot, outstanding report request, queued packets, re-used SEID); thorough = all histories of Assoc/Est/Del/Report/Push on two peers to depth %d; per state: 15 base datagrams x (every octet x 7 (quick 3) replacement values, every truncation, extensions by 1..4, every structure-aware single mutation; thorough: pairs on two bases); session-level mutants follow the swept session's current SEID across rebuilds of the state; each mutant sent twice (quick: single-octet replacements once) through the real UDP socket and followed by a Heartbeat from another peer; quick with the real driver leaves out the largest Modification base; drivers: model data plane and real gtp5g driver over the simulated kernel", map[string]int{"quick": 2, "thorough": 4}[tier]))
	run.Assumption("the property's quantifier 'all byte strings' is decided for the stated finite mutation space only")
	run.Assumption("a panic in a goroutine other than the loop/receiver kills the worker process and is reported by the explorer as a crash with its stack")
	run.Finish()
}
