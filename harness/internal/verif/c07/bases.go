//go:build verif

package c07

import (
	"net"
	"time"

	"github.com/wmnsk/go-pfcp/ie"
	"github.com/wmnsk/go-pfcp/message"
)

func mar(m message.Message) []byte {
	b := make([]byte, m.MarshalLen())
	if err := m.MarshalTo(b); err != nil {
		panic(err)
	}
	return b
}

func createRules(id uint32, gnb string) []*ie.IE {
	return []*ie.IE{
		ie.NewCreatePDR(ie.NewPDRID(uint16(id)), ie.NewPrecedence(255),
			ie.NewPDI(ie.NewSourceInterface(ie.SrcInterfaceCore), ie.NewFTEID(0x01, 0x11121314, net.ParseIP("10.11.12.13").To4(), nil, 0),
				ie.NewNetworkInstance("internet"), ie.NewUEIPAddress(2, "10.60.0.1", "", 0, 0),
				ie.NewSDFFilter("permit out 17 from 10.1.2.0/24 80,8080-8090 to assigned 1-2", "", "", "", 7)),
			ie.NewOuterHeaderRemoval(0, 0), ie.NewFARID(id), ie.NewQERID(id), ie.NewURRID(id)),
		ie.NewCreateFAR(ie.NewFARID(id), ie.NewApplyAction(0x0c),
			ie.NewForwardingParameters(ie.NewDestinationInterface(ie.DstInterfaceAccess), ie.NewNetworkInstance("internet"),
				ie.NewOuterHeaderCreation(0x0100, 0x61626364, gnb, "", 0, 0, 0), ie.NewForwardingPolicy("pol")),
			ie.NewBARID(uint8(id))),
		ie.NewCreateQER(ie.NewQERID(id), ie.NewQERCorrelationID(9), ie.NewGateStatus(0, 0), ie.NewMBR(0x0102030405, 0x1112131415),
			ie.NewGBR(1000, 2000), ie.NewQFI(37), ie.NewRQI(1), ie.NewPagingPolicyIndicator(3)),
		ie.NewCreateURR(ie.NewURRID(id), ie.NewMeasurementMethod(0, 1, 1), ie.NewReportingTriggers(0x03, 0x01),
			ie.NewMeasurementPeriod(3600*time.Second), ie.NewMeasurementInformation(0x10),
			ie.NewVolumeThreshold(7, 1000, 2000, 3000), ie.NewVolumeQuota(5, 4000, 0, 6000)),
		ie.NewCreateBAR(ie.NewBARID(uint8(id)), ie.NewDownlinkDataNotificationDelay(100*time.Millisecond), ie.NewSuggestedBufferingPacketsCount(9)),
	}
}

func updateRules(id uint32, gnb string) []*ie.IE {
	return []*ie.IE{
		ie.NewUpdatePDR(ie.NewPDRID(uint16(id)), ie.NewPrecedence(100),
			ie.NewPDI(ie.NewSourceInterface(ie.SrcInterfaceAccess), ie.NewFTEID(0x01, 0x21222324, net.ParseIP("10.11.12.14").To4(), nil, 0),
				ie.NewUEIPAddress(2, "10.60.0.2", "", 0, 0), ie.NewSDFFilter("permit out ip from any to assigned", "", "", "", 0)),
			ie.NewOuterHeaderRemoval(0, 0), ie.NewFARID(id), ie.NewQERID(id), ie.NewURRID(id)),
		ie.NewUpdateFAR(ie.NewFARID(id), ie.NewApplyAction(0x02),
			ie.NewUpdateForwardingParameters(ie.NewDestinationInterface(ie.DstInterfaceAccess),
				ie.NewOuterHeaderCreation(0x0100, 0x71727374, gnb, "", 0, 0, 0), ie.NewForwardingPolicy("pol2")),
			ie.NewBARID(uint8(id))),
		ie.NewUpdateQER(ie.NewQERID(id), ie.NewGateStatus(1, 1), ie.NewMBR(5, 6), ie.NewGBR(7, 8), ie.NewQFI(9)),
		ie.NewUpdateURR(ie.NewURRID(id), ie.NewMeasurementMethod(0, 1, 0), ie.NewReportingTriggers(0x02, 0x00, 0x01),
			ie.NewMeasurementPeriod(7200*time.Second), ie.NewMeasurementInformation(0x00),
			ie.NewVolumeThreshold(1, 9, 0, 0), ie.NewVolumeQuota(2, 0, 8, 0)),
		ie.NewUpdateBARWithinSessionModificationRequest(ie.NewBARID(uint8(id)), ie.NewDownlinkDataNotificationDelay(50*time.Millisecond)),
		ie.NewQueryURR(ie.NewURRID(id)),
	}
}

func removeRules(id uint32) []*ie.IE {
	return []*ie.IE{ie.NewRemovePDR(ie.NewPDRID(uint16(id))), ie.NewRemoveFAR(ie.NewFARID(id)), ie.NewRemoveQER(ie.NewQERID(id)),
		ie.NewRemoveURR(ie.NewURRID(id)), ie.NewRemoveBAR(ie.NewBARID(uint8(id)))}
}

type base struct {
	name string
	b    []byte
}

// bases builds the valid base datagrams for a state: peerIP = the sender's node id, seid = a live session of
// the sender (or 1), txSeq = sequence number of an outstanding Session Report Request (or an arbitrary one).
func bases(peerIP, gnb string, seid uint64, txSeq uint32) []base {
	rts := ie.NewRecoveryTimeStamp(time.Unix(1600000000, 0))
	node := ie.NewNodeID(peerIP, "", "")
	est := append([]*ie.IE{node, ie.NewFSEID(0x10, net.ParseIP(peerIP).To4(), nil)}, createRules(2, gnb)...)
	mod := append(append(updateRules(1, gnb), createRules(3, gnb)...), removeRules(1)...)
	return []base{
		{"HeartbeatRequest", mar(message.NewHeartbeatRequest(1, rts, nil))},
		{"AssociationSetupRequest", mar(message.NewAssociationSetupRequest(1, node, rts))},
		{"SessionEstablishmentRequest", mar(message.NewSessionEstablishmentRequest(0, 0, 0, 1, 0, est...))},
		{"SessionModificationRequest(update+query)", mar(message.NewSessionModificationRequest(0, 0, seid, 1, 0, updateRules(1, gnb)...))},
		{"SessionModificationRequest(update+create+remove)", mar(message.NewSessionModificationRequest(0, 0, seid, 1, 0, mod...))},
		{"SessionModificationRequest(node id + update)", mar(message.NewSessionModificationRequest(0, 0, seid, 1, 0, append([]*ie.IE{node}, updateRules(1, gnb)...)...))},
		{"SessionDeletionRequest", mar(message.NewSessionDeletionRequest(0, 0, seid, 1, 0))},
		{"SessionReportResponse", mar(message.NewSessionReportResponse(0, 0, seid, txSeq, 0, ie.NewCause(ie.CauseRequestAccepted)))},
		{"SessionReportResponse(SEID 0)", mar(message.NewSessionReportResponse(0, 0, 0, txSeq, 0, ie.NewCause(ie.CauseSessionContextNotFound)))},
		{"HeartbeatResponse", mar(message.NewHeartbeatResponse(1, rts))},
		{"AssociationUpdateRequest", mar(message.NewAssociationUpdateRequest(1, node))},
		{"AssociationReleaseRequest", mar(message.NewAssociationReleaseRequest(1, node))},
		{"PFDManagementRequest", mar(message.NewPFDManagementRequest(1))},
		{"SessionSetDeletionRequest", mar(message.NewSessionSetDeletionRequest(1, node, nil))},
		{"SessionEstablishmentResponse", mar(message.NewSessionEstablishmentResponse(0, 0, seid, 1, 0, ie.NewCause(ie.CauseRequestAccepted)))},
	}
}

func bases2est(seq uint32, ip string, rules interface{}) []byte {
	ies := append([]*ie.IE{ie.NewNodeID(ip, "", ""), ie.NewFSEID(0x10, net.ParseIP(ip).To4(), nil)}, rules.([]*ie.IE)...)
	return mar(message.NewSessionEstablishmentRequest(0, 0, 0, seq, 0, ies...))
}
