//go:build verif

// Package c07: no datagram sequence can take the control plane down.
package c07

import (
	"encoding/binary"
	"fmt"
)

// grouped IE types whose payload is itself a list of IEs (TS 29.244 table 8.1.2-1)
var grouped = map[uint16]bool{1: true, 2: true, 3: true, 4: true, 5: true, 6: true, 7: true, 8: true, 9: true, 10: true, 11: true, 12: true,
	13: true, 14: true, 15: true, 16: true, 17: true, 18: true, 77: true, 78: true, 79: true, 80: true, 83: true, 85: true, 86: true, 87: true}

type node struct {
	off     int // offset of the IE header in the message
	plen    int // payload length
	typ     uint16
	parents []int // offsets of the enclosing IEs' headers (outermost first)
}

func hdrLen(msg []byte) int {
	if len(msg) >= 1 && msg[0]&1 != 0 {
		return 16
	}
	return 8
}

func walkIEs(msg []byte, from, to int, parents []int, out *[]node) {
	for off := from; off+4 <= to; {
		t := binary.BigEndian.Uint16(msg[off:])
		l := int(binary.BigEndian.Uint16(msg[off+2:]))
		if off+4+l > to {
			return
		}
		*out = append(*out, node{off: off, plen: l, typ: t, parents: append([]int{}, parents...)})
		if grouped[t] {
			walkIEs(msg, off+4, off+4+l, append(append([]int{}, parents...), off), out)
		}
		off += 4 + l
	}
}

func walk(msg []byte) []node {
	var out []node
	h := hdrLen(msg)
	if len(msg) < h {
		return nil
	}
	walkIEs(msg, h, len(msg), nil, &out)
	return out
}

// splice replaces msg[a:b] by repl and adjusts the length fields of the given enclosing IEs and of the message.
func splice(msg []byte, a, b int, repl []byte, parents []int) []byte {
	out := append(append(append([]byte{}, msg[:a]...), repl...), msg[b:]...)
	d := len(repl) - (b - a)
	for _, p := range parents {
		binary.BigEndian.PutUint16(out[p+2:], uint16(int(binary.BigEndian.Uint16(out[p+2:]))+d))
	}
	binary.BigEndian.PutUint16(out[2:], uint16(int(binary.BigEndian.Uint16(out[2:]))+d))
	return out
}

type mutant struct {
	b    []byte
	desc string
	hdr  bool // the mutation touched the header (do not re-stamp the sequence number)
}

var quickVals bool

var byteVals = func(b byte) []byte {
	if quickVals {
		return []byte{0x00, 0xff, b ^ 0x01}
	}
	return []byte{0x00, 0x01, 0x7f, 0x80, 0xff, b ^ 0x01, b ^ 0x80}
}

// structural returns the structure-aware single mutations of msg; seids = header SEID classes to try.
func structural(msg []byte, seids []uint64) []mutant {
	var out []mutant
	add := func(b []byte, hdr bool, f string, a ...interface{}) {
		out = append(out, mutant{b: b, desc: fmt.Sprintf(f, a...), hdr: hdr})
	}
	cp := func() []byte { return append([]byte{}, msg...) }
	for _, n := range walk(msg) {
		end := n.off + 4 + n.plen
		add(splice(msg, n.off, end, nil, n.parents), false, "delete IE type %d at %d", n.typ, n.off)
		add(splice(msg, end, end, msg[n.off:end], n.parents), false, "duplicate IE type %d at %d", n.typ, n.off)
		e := splice(msg, n.off+4, end, nil, n.parents)
		binary.BigEndian.PutUint16(e[n.off+2:], 0)
		add(e, false, "empty IE type %d at %d", n.typ, n.off)
		// 0xfffc..0xffff: length + 4-octet header wraps around 16 bits; 0x7fff/0x8000: sign boundary
		for _, l := range []int{0, 1, n.plen - 1, n.plen + 1, 0x7fff, 0x8000, 0xfffb, 0xfffc, 0xfffd, 0xfffe, 0xffff} {
			if l < 0 || l == n.plen {
				continue
			}
			m := cp()
			binary.BigEndian.PutUint16(m[n.off+2:], uint16(l))
			add(m, false, "length of IE type %d at %d set to %d (was %d)", n.typ, n.off, l, n.plen)
		}
		for _, t := range []uint16{0, 0x7ffe, n.typ | 0x8000, 2, 56} {
			if t == n.typ {
				continue
			}
			m := cp()
			binary.BigEndian.PutUint16(m[n.off:], t)
			add(m, false, "type of IE %d at %d set to %d", n.typ, n.off, t)
		}
		// shrink the payload by one octet / grow it by one (lengths kept consistent): under- and over-long values
		if n.plen > 0 && !grouped[n.typ] {
			add(splice(msg, end-1, end, nil, append(append([]int{}, n.parents...), n.off)), false, "payload of IE type %d at %d shortened by one octet", n.typ, n.off)
			add(splice(msg, end, end, []byte{0xff}, append(append([]int{}, n.parents...), n.off)), false, "payload of IE type %d at %d extended by one octet", n.typ, n.off)
			// longer over-long values (a decoder that copes with one spare octet may still index past a fixed-size field)
			add(splice(msg, end, end, []byte{0x00, 0x00}, append(append([]int{}, n.parents...), n.off)), false, "payload of IE type %d at %d extended by two octets", n.typ, n.off)
			add(splice(msg, end, end, []byte{0x01, 0x02, 0x03, 0x04, 0x05, 0x06, 0x07, 0x08}, append(append([]int{}, n.parents...), n.off)), false, "payload of IE type %d at %d extended by eight octets", n.typ, n.off)
		}
	}
	// header
	ml := int(binary.BigEndian.Uint16(msg[2:]))
	for _, l := range []int{0, 1, 4, ml - 1, ml + 1, ml - 4, 0x7fff, 0x8000, 0xfffb, 0xfffc, 0xfffd, 0xfffe, 0xffff} {
		if l < 0 || l == ml {
			continue
		}
		m := cp()
		binary.BigEndian.PutUint16(m[2:], uint16(l))
		add(m, true, "message length field %d (was %d)", l, ml)
	}
	for _, f := range []byte{msg[0] ^ 0x01, msg[0] ^ 0x02, msg[0] ^ 0x04, msg[0]&0x1f | 0x00, msg[0]&0x1f | 0x40, msg[0]&0x1f | 0xe0, msg[0] | 0x18} {
		m := cp()
		m[0] = f
		add(m, true, "flags octet %#x (was %#x)", f, msg[0])
	}
	for _, t := range []byte{0, 2, 3, 4, 6, 7, 8, 9, 10, 12, 13, 14, 15, 49, 51, 53, 55, 56, 57, 58, 99, 255} {
		if t == msg[1] {
			continue
		}
		m := cp()
		m[1] = t
		add(m, true, "message type %d (was %d)", t, msg[1])
	}
	if msg[0]&1 != 0 && len(msg) >= 16 {
		for _, s := range seids {
			m := cp()
			binary.BigEndian.PutUint64(m[4:], s)
			add(m, false, "header SEID %#x", s)
		}
		for _, q := range []uint32{0, 0xffffff} {
			m := cp()
			m[12], m[13], m[14] = byte(q>>16), byte(q>>8), byte(q)
			add(m, true, "sequence number %#x", q)
		}
	}
	return out
}

// bytewise returns every single-octet replacement, truncation and extension of msg.
func bytewise(msg []byte, stride int) []mutant {
	var out []mutant
	for i := 0; i < len(msg); i += stride {
		for _, v := range byteVals(msg[i]) {
			if v == msg[i] {
				continue
			}
			m := append([]byte{}, msg...)
			m[i] = v
			out = append(out, mutant{b: m, desc: fmt.Sprintf("octet %d = %#02x (was %#02x)", i, v, msg[i]), hdr: i < hdrLen(msg)})
		}
	}
	for l := 0; l < len(msg); l += stride {
		out = append(out, mutant{b: append([]byte{}, msg[:l]...), desc: fmt.Sprintf("truncated to %d of %d octets", l, len(msg)), hdr: true})
	}
	for k := 1; k <= 4; k++ {
		m := append([]byte{}, msg...)
		for i := 0; i < k; i++ {
			m = append(m, byte(0xa0+i))
		}
		out = append(out, mutant{b: m, desc: fmt.Sprintf("extended by %d octets", k), hdr: true})
	}
	return out
}

// stamp writes a fresh sequence number unless the mutation is about the header itself.
func stamp(m mutant, seq uint32) []byte {
	b := append([]byte{}, m.b...)
	if m.hdr {
		return b
	}
	off := 4
	if len(b) >= 1 && b[0]&1 != 0 {
		off = 12
	}
	if len(b) >= off+3 {
		b[off], b[off+1], b[off+2] = byte(seq>>16), byte(seq>>8), byte(seq)
	}
	return b
}
