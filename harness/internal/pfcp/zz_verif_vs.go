//go:build verif && vsched

package pfcp

import (
	"net"
	"fmt"
	"sync"

	"github.com/free5gc/go-upf/internal/forwarder"
	"github.com/free5gc/go-upf/internal/report"
	"github.com/free5gc/go-upf/pkg/factory"
)

// VSStart creates and starts a server from inside a vsched-managed thread (no waiting: the scheduler decides
// when the loop runs).
func VSStart(cfg *factory.Config, d forwarder.Driver, wg *sync.WaitGroup) *VServer {
	VQuietLog()
	v := &VServer{S: NewPfcpServer(cfg, d), fatal0: vFatal.Load()}
	d.HandleReport(v.S)
	v.S.Start(wg)
	return v
}

func (v *VServer) RcvCh() chan ReceivePacket       { return v.S.rcvCh }
func (v *VServer) SrCh() chan report.SessReport    { return v.S.srCh }
func (v *VServer) TrToCh() chan TransactionTimeout { return v.S.trToCh }
func (v *VServer) HasConn() bool                   { return v.S.conn != nil }
func (v *VServer) CloseConn() {
	if v.S.conn != nil {
		_ = v.S.conn.Close()
	}
}
func (v *VServer) NSess() int {
	n := 0
	for _, s := range v.S.lnode.sess {
		if s != nil {
			n++
		}
	}
	return n
}

// Summary: a cheap digest of the server state for the scheduler's global state key.
func (v *VServer) Summary() string {
	out := fmt.Sprintf("n%d rx%d tx%d seq%d free%v|", len(v.S.rnodes), len(v.S.rxTrans), len(v.S.txTrans), v.S.txSeq, v.S.lnode.free)
	for i, s := range v.S.lnode.sess {
		if s != nil {
			out += fmt.Sprintf("%d:%d/%d/%d/%d;", i, len(s.PDRIDs), len(s.FARIDs), len(s.URRIDs), len(s.q))
			for id, u := range s.URRIDs {
				out += fmt.Sprintf("u%d.%d.%v,", id, u.SEQN, u.removed)
			}
		}
	}
	return out
}

// VSetQlen scales the per-PDR buffer queue of one session (the source constant BUFFQ_LEN is untouched); it must
// be called before the first packet is buffered for that PDR.
func (v *VServer) VSetQlen(seid uint64, n int) bool {
	sess, err := v.S.lnode.Sess(seid)
	if err != nil {
		return false
	}
	sess.qlen = n
	return true
}

// VQLen: packets buffered for (session, PDR).
func (v *VServer) VQLen(seid uint64, pdr uint16) int {
	sess, err := v.S.lnode.Sess(seid)
	if err != nil {
		return -1
	}
	return sess.Len(pdr)
}

// Pending: a datagram is waiting in the server socket's receive queue.
func (v *VServer) Pending() bool { return v.pendingDatagrams() > 0 }

// LocalAddr of the server socket ("" before it exists).
func (v *VServer) LocalAddr() *net.UDPAddr {
	if v.S.conn == nil {
		return nil
	}
	a, _ := v.S.conn.LocalAddr().(*net.UDPAddr)
	return a
}
