//go:build verif

package pfcp

// In-package harness (compiled in by -overlay, never part of /repo): event injection, quiescence
// detection and a canonical dump of the private state of the real PfcpServer.

import (
	"bytes"
	"crypto/sha256"
	"encoding/hex"
	"fmt"
	"io"
	stdlog "log"
	"net"
	_ "os"
	"runtime"
	"sort"
	"strings"
	"sync"
	"sync/atomic"
	"syscall"
	"unsafe"
	"time"

	"github.com/sirupsen/logrus"

	"github.com/free5gc/go-upf/internal/forwarder"
	"github.com/free5gc/go-upf/internal/logger"
	"github.com/free5gc/go-upf/internal/report"
	"github.com/free5gc/go-upf/internal/verif/deepdump"
	"github.com/free5gc/go-upf/internal/verif/gstate"
	"github.com/free5gc/go-upf/pkg/factory"
)

var (
	vFatal    atomic.Int64 // number of fatal-exit requests (logger.Fatalf) seen
	vFatalMsg atomic.Value
	vLogOnce  sync.Once
)

type vHook struct{}

func (vHook) Levels() []logrus.Level { return []logrus.Level{logrus.FatalLevel} }
func (vHook) Fire(e *logrus.Entry) error {
	m := e.Message
	if len(m) > 1500 {
		m = m[:1500]
	}
	vFatalMsg.Store(m)
	return nil
}

// VQuietLog silences the logger and turns a fatal exit into an observable event instead of os.Exit.
func VQuietLog() {
	vLogOnce.Do(func() {
		logger.Log.SetOutput(io.Discard)
		stdlog.SetOutput(io.Discard) // go-gtp5gnl prints unknown attributes with the standard logger
		logger.Log.SetLevel(logrus.FatalLevel)
		logger.Log.ExitFunc = func(int) { vFatal.Add(1) }
		logger.Log.AddHook(vHook{})
	})
}

func VFatalCount() int64 { return vFatal.Load() }
func VFatalMsg() string {
	s, _ := vFatalMsg.Load().(string)
	return s
}

// VServer wraps one real PfcpServer whose main loop runs in its own goroutine, exactly as in production.
type VServer struct {
	S      *PfcpServer
	wg     sync.WaitGroup
	fatal0 int64
	buf    []byte
	gid    string // goroutine id of the event loop
	rgid   string // goroutine id of the receiver
}

// VStart creates and starts a server and waits until its loop is serving.
func VStart(cfg *factory.Config, d forwarder.Driver) (*VServer, error) {
	// The listen address can be busy for a moment (the descriptor of the previous server on this address is closed
	// only when its receiver goroutine has been scheduled once more; on a loaded machine that can lag): a loop
	// that is gone right after the start is retried a few times before it counts.
	var v *VServer
	var err error
	for try := 0; try < 5; try++ {
		if v, err = vStartOnce(cfg, d); err == nil {
			return v, nil
		}
		probe := ""
		if a, e := net.ResolveUDPAddr("udp4", cfg.Pfcp.Addr+":8805"); e == nil {
			if c, e := net.ListenUDP("udp4", a); e != nil {
				probe = e.Error()
			} else {
				_ = c.Close()
				probe = "the address can be bound now"
			}
		}
		err = fmt.Errorf("%v [bind probe: %s]", err, probe)
		time.Sleep(time.Duration(100*(try+1)) * time.Millisecond)
	}
	return nil, err
}

func vStartOnce(cfg *factory.Config, d forwarder.Driver) (*VServer, error) {
	VQuietLog()
	v := &VServer{S: NewPfcpServer(cfg, d), fatal0: vFatal.Load(), buf: make([]byte, 256<<10)}
	d.HandleReport(v.S)
	v.S.Start(&v.wg)
	dl := time.Now().Add(10 * time.Second)
	for {
		st := v.loopState()
		if st == "select" {
			return v, nil
		}
		if (st == "gone" && time.Now().After(dl.Add(-9*time.Second))) || time.Now().After(dl) {
			return nil, fmt.Errorf("server loop did not start serving (state %q; listen %s)\n%s", st, v.S.listen, v.VGoroutines())
		}
		runtime.Gosched()
	}
}

// loopState returns the wait state of the goroutine running (*PfcpServer).main: "select", "gone" or
// another runtime state ("runnable", "running", "chan send", "IO wait", ...). The goroutine is found by
// its function name once (while parked) and by its goroutine id from then on: a goroutine that is inside
// a system call on another thread is listed without frames ("stack unavailable").
func (v *VServer) loopState() string {
	for {
		n := runtime.Stack(v.buf, true)
		if n < len(v.buf) {
			if v.gid == "" {
				id, st := findGoroutine(v.buf[:n], "pfcp.(*PfcpServer).main(")
				if st == "select" {
					v.gid = id
					vKnownLoops.Store(id, true)
				}
				return st
			}
			return stateOf(v.buf[:n], v.gid)
		}
		v.buf = make([]byte, 2*len(v.buf))
	}
}

func header(g []byte) (id, st string) {
	// "goroutine 12 [select, 3 minutes]:"
	if !bytes.HasPrefix(g, []byte("goroutine ")) {
		return "", ""
	}
	a := bytes.IndexByte(g, '[')
	b := bytes.IndexByte(g, ']')
	if a < 0 || b < a {
		return "", "unknown"
	}
	id = string(bytes.TrimSpace(g[len("goroutine "):a]))
	st = string(g[a+1 : b])
	if i := strings.IndexByte(st, ','); i >= 0 {
		st = st[:i]
	}
	return id, st
}

// vKnownLoops: goroutine ids of the loop goroutines of earlier servers of this process. A loop that a finding left
// blocked for good (e.g. in a channel send) outlives its server; the next server's loop must not be mistaken for it.
var vKnownLoops sync.Map

func findGoroutine(dump []byte, fn string) (id, st string) {
	for _, g := range bytes.Split(dump, []byte("\n\n")) {
		if !bytes.Contains(g, []byte(fn)) {
			continue
		}
		id, st = header(g)
		if _, old := vKnownLoops.Load(id); old {
			continue
		}
		return id, st
	}
	return "", "gone"
}

func stateOf(dump []byte, gid string) string {
	for _, g := range bytes.Split(dump, []byte("\n\n")) {
		id, st := header(g)
		if id == gid {
			return st
		}
	}
	return "gone"
}

// VGoroutines returns the full goroutine dump (diagnostics).
func (v *VServer) VGoroutines() string {
	n := runtime.Stack(v.buf, true)
	return string(v.buf[:n])
}

// Quiesce waits until every queued event has been handled: the three queues are empty and the loop
// goroutine is parked in its select. Returns false if the loop goroutine no longer exists.
// There is no time-based verdict here: the wait ends on a state, the deadline only guards the harness.
func (v *VServer) Quiesce() (alive bool, state string) {
	dl := time.Now().Add(60 * time.Second)
	spins := 0
	for {
		if len(v.S.rcvCh) == 0 && len(v.S.srCh) == 0 && len(v.S.trToCh) == 0 {
			st := v.loopState()
			if st == "select" {
				return true, st
			}
			if st == "gone" {
				return false, st
			}
			if time.Now().After(dl) {
				return true, "stuck:" + st
			}
		} else {
			// events are queued: either the loop is about to take them, or it no longer exists
			if spins%64 == 63 && v.loopState() == "gone" {
				return false, "gone"
			}
			if time.Now().After(dl) {
				return true, "stuck:queues"
			}
		}
		if spins%256 == 255 {
			if why := v.loopSelfBlocked(); why != "" {
				return true, "stuck:" + why
			}
		}
		spins++
		if spins < 200 {
			runtime.Gosched()
		} else {
			time.Sleep(20 * time.Microsecond)
		}
	}
}

// loopSelfBlocked: the loop goroutine is blocked in a send to one of its OWN input queues (NotifyTransTimeout ->
// trToCh, NotifySessReport -> srCh). Only the loop receives from these channels, so it can never be released:
// a verdict from the goroutine's state and stack, needing no deadline.
func (v *VServer) loopSelfBlocked() string {
	if v.gid == "" {
		return ""
	}
	n := runtime.Stack(v.buf, true)
	for n >= len(v.buf) {
		v.buf = make([]byte, 2*len(v.buf))
		n = runtime.Stack(v.buf, true)
	}
	for _, g := range bytes.Split(v.buf[:n], []byte("\n\n")) {
		id, st := header(g)
		if id != v.gid {
			continue
		}
		if st != "chan send" {
			return ""
		}
		for _, fn := range []string{"pfcp.(*PfcpServer).NotifyTransTimeout(", "pfcp.(*PfcpServer).NotifySessReport("} {
			if bytes.Contains(g, []byte(fn)) && bytes.Contains(g, []byte("pfcp.(*PfcpServer).main(")) {
				return "loop blocked in " + strings.TrimSuffix(fn, "(") + ", a send to a queue only the loop itself drains"
			}
		}
		return ""
	}
	return ""
}

// pendingDatagrams: octets waiting in the server socket's receive queue (0 = nothing queued).
func (v *VServer) pendingDatagrams() int {
	if v.S.conn == nil {
		return 0
	}
	rc, err := v.S.conn.SyscallConn()
	if err != nil {
		return 0
	}
	n := 0
	_ = rc.Control(func(fd uintptr) {
		n, _ = unixIoctlGetInt(int(fd), 0x541B) // FIONREAD / SIOCINQ
	})
	return n
}

// QuiesceUDP is Quiesce for datagrams sent to the real socket: additionally the socket's receive queue is
// empty and the receiver goroutine is parked in its read.
func (v *VServer) QuiesceUDP() (alive bool, state string) {
	dl := time.Now().Add(60 * time.Second)
	uspins := 0
	for {
		if v.pendingDatagrams() == 0 {
			d := gstate.Dump()
			if v.rgid == "" {
				id, _ := gstate.Find(d, "pfcp.(*PfcpServer).receiver(")
				v.rgid = id
			}
			rst := "gone"
			if v.rgid != "" {
				rst = gstate.StateOf(d, v.rgid)
			}
			if rst == "IO wait" || rst == "gone" {
				alive, st := v.Quiesce()
				if !alive || strings.HasPrefix(st, "stuck") {
					return alive, st
				}
				if v.pendingDatagrams() == 0 {
					if rst == "gone" {
						return true, "receiver-gone"
					}
					if gstate.StateOf(gstate.Dump(), v.rgid) == "IO wait" && v.IdleNow() {
						return true, st
					}
				}
			}
		}
		if time.Now().After(dl) {
			return true, "stuck:udp"
		}
		uspins++
		if uspins%4096 == 4095 {
			if why := v.loopSelfBlocked(); why != "" {
				return true, "stuck:" + why
			}
		}
		runtime.Gosched()
	}
}

func unixIoctlGetInt(fd int, req uint) (int, error) {
	var v int32
	_, _, e := syscall.Syscall(syscall.SYS_IOCTL, uintptr(fd), uintptr(req), uintptr(unsafe.Pointer(&v)))
	if e != 0 {
		return 0, e
	}
	return int(v), nil
}

// RuleTokens lists nodes, sessions and their rule ids as tokens ("n:<id>", "s:<seid>", "s:<seid>:F1", ...).
func (v *VServer) RuleTokens() (tokens map[string]bool, sessions int) {
	tokens = map[string]bool{}
	for id := range v.S.rnodes {
		tokens["n:"+id] = true
	}
	for i, s := range v.S.lnode.sess {
		if s == nil {
			continue
		}
		sessions++
		_ = i
		owner := "?"
		if s.rnode != nil {
			owner = s.rnode.ID
		}
		p := fmt.Sprintf("s:%s/%#x", owner, s.RemoteID) // by owner and CP SEID: the SEID value may change when the state is rebuilt
		tokens[p] = true
		for id := range s.PDRIDs {
			tokens[fmt.Sprintf("%s:P%d", p, id)] = true
		}
		for id := range s.FARIDs {
			tokens[fmt.Sprintf("%s:F%d", p, id)] = true
		}
		for id := range s.QERIDs {
			tokens[fmt.Sprintf("%s:Q%d", p, id)] = true
		}
		for id := range s.URRIDs {
			tokens[fmt.Sprintf("%s:U%d", p, id)] = true
		}
		for id := range s.BARIDs {
			tokens[fmt.Sprintf("%s:B%d", p, id)] = true
		}
		for id, q := range s.q {
			if len(q) > 0 {
				tokens[fmt.Sprintf("%s:q%d", p, id)] = true
			}
		}
	}
	tokens[fmt.Sprintf("tx:%v", len(v.S.txTrans) > 0)] = true
	return
}

// IdleNow: queues empty and the loop parked in its select at this instant.
func (v *VServer) IdleNow() bool {
	return len(v.S.rcvCh) == 0 && len(v.S.srCh) == 0 && len(v.S.trToCh) == 0 && v.loopState() == "select"
}

func (v *VServer) Fatal() bool { return vFatal.Load() != v.fatal0 }

// InjectPacket delivers one datagram to the loop exactly as the receiver goroutine does.
func (v *VServer) InjectPacket(from net.Addr, b []byte) {
	v.S.rcvCh <- ReceivePacket{RemoteAddr: from, Buf: append([]byte{}, b...)}
}

// InjectReport delivers a session report as buffnetlink / perio do (through the public entry point).
func (v *VServer) InjectReport(sr report.SessReport) { v.S.NotifySessReport(sr) }

// Expire makes the transaction's timer "have fired": the real timer (configured far in the future) is
// stopped and the timeout is posted through the public notification entry point, as the callback does.
func (v *VServer) Expire(tx bool, id string) {
	if tx {
		if t, ok := v.S.txTrans[id]; ok && t.timer != nil {
			t.timer.Stop()
		}
		v.S.NotifyTransTimeout(TX, id)
	} else {
		if r, ok := v.S.rxTrans[id]; ok && r.timer != nil {
			r.timer.Stop()
		}
		v.S.NotifyTransTimeout(RX, id)
	}
}

// FireOnly makes the timer of a transmit transaction "have fired" without delivering its notification yet: the
// callback of a real timer runs on its own goroutine and may reach the loop's queue after a datagram that was
// received in the meantime. Call Expire later to deliver the (then possibly stale) notification.
// Only while the loop is idle (no concurrent access to the table).
func (v *VServer) FireOnly(id string) {
	if t, ok := v.S.txTrans[id]; ok && t.timer != nil {
		t.timer.Stop()
	}
}

// FireOnlyRx is FireOnly for a receive transaction's retention timer.
func (v *VServer) FireOnlyRx(id string) {
	if r, ok := v.S.rxTrans[id]; ok && r.timer != nil {
		r.timer.Stop()
	}
}

// NodeIDs lists the associated node ids with their addresses (debugging aid).
func (v *VServer) NodeIDs() []string {
	var out []string
	for id, n := range v.S.rnodes {
		out = append(out, fmt.Sprintf("%s@%v(%d sess)", id, n.addr, len(n.sess)))
	}
	sort.Strings(out)
	return out
}

func (v *VServer) RxIDs() []string {
	var out []string
	for k := range v.S.rxTrans {
		out = append(out, k)
	}
	sort.Strings(out)
	return out
}

func (v *VServer) TxIDs() []string {
	var out []string
	for k := range v.S.txTrans {
		out = append(out, k)
	}
	sort.Strings(out)
	return out
}

// VTx describes one outstanding UPF-initiated request.
type VTx struct {
	ID      string
	Seq     uint32
	Addr    string
	Retrans int
	Max     int
	Timeout time.Duration
	Req     []byte
}

func (v *VServer) Tx() []VTx {
	var out []VTx
	for k, t := range v.S.txTrans {
		out = append(out, VTx{ID: k, Seq: t.seq, Addr: t.raddr.String(), Retrans: int(t.retransCount), Max: int(t.maxRetrans),
			Timeout: t.retransTimeout, Req: append([]byte{}, t.msgBuf...)})
	}
	sort.Slice(out, func(i, j int) bool { return out[i].ID < out[j].ID })
	return out
}

// VRx describes one retained received request.
type VRx struct {
	ID      string
	Seq     uint32
	Addr    string
	Timeout time.Duration
	Rsp     []byte
}

func (v *VServer) Rx() []VRx {
	var out []VRx
	for k, r := range v.S.rxTrans {
		out = append(out, VRx{ID: k, Seq: r.seq, Addr: r.raddr.String(), Timeout: r.timeout, Rsp: append([]byte{}, r.msgBuf...)})
	}
	sort.Slice(out, func(i, j int) bool { return out[i].ID < out[j].ID })
	return out
}

// PendingTimers counts transaction timers that are still armed (Stop() on a copy is not possible, so
// this is only used after the server has stopped: a timer is "pending" if its field is non-nil).
func (v *VServer) PendingTimers() int {
	n := 0
	for _, t := range v.S.txTrans {
		if t.timer != nil {
			n++
		}
	}
	for _, r := range v.S.rxTrans {
		if r.timer != nil {
			n++
		}
	}
	return n
}

func (v *VServer) SetTxSeq(x uint32) { v.S.txSeq = x }
func (v *VServer) TxSeq() uint32     { return v.S.txSeq }

// Stop stops the server as app.go does and joins its goroutines.
func (v *VServer) Stop() {
	v.S.Stop()
	done := make(chan struct{})
	go func() { v.wg.Wait(); close(done) }()
	select {
	case <-done:
	case <-time.After(20 * time.Second):
	}
}

func h8(b []byte) string {
	if len(b) == 0 {
		return "-"
	}
	s := sha256.Sum256(b)
	return hex.EncodeToString(s[:4])
}

// SessDump is the canonical dump of one session (all fields a property can observe).
func sessDump(s *Sess, lab func(uint64) string, noSeq ...bool) string {
	qLenOnly := len(noSeq) > 1 && noSeq[1]
	idsOnly := len(noSeq) > 2 && noSeq[2]
	var sb strings.Builder
	node := "?"
	if s.rnode != nil {
		node = s.rnode.ID
	}
	fmt.Fprintf(&sb, "L=%s R=%#x node=%s", lab(s.LocalID), s.RemoteID, node)
	var pdr []int
	for id := range s.PDRIDs {
		pdr = append(pdr, int(id))
	}
	sort.Ints(pdr)
	sb.WriteString(" PDR[")
	for _, id := range pdr {
		var us []int
		for u := range s.PDRIDs[uint16(id)].RelatedURRIDs {
			us = append(us, int(u))
		}
		sort.Ints(us)
		fmt.Fprintf(&sb, "%d:%v ", id, us)
	}
	sb.WriteString("]")
	ids32 := func(name string, m map[uint32]struct{}) {
		var x []int
		for id := range m {
			x = append(x, int(id))
		}
		sort.Ints(x)
		fmt.Fprintf(&sb, " %s%v", name, x)
	}
	ids32("FAR", s.FARIDs)
	ids32("QER", s.QERIDs)
	var urr []int
	for id := range s.URRIDs {
		urr = append(urr, int(id))
	}
	sort.Ints(urr)
	sb.WriteString(" URR[")
	for _, id := range urr {
		u := s.URRIDs[uint32(id)]
		if len(noSeq) > 0 && noSeq[0] {
			u = &URRInfo{removed: u.removed, MeasureMethod: u.MeasureMethod, MeasureInformation: u.MeasureInformation, refPdrNum: u.refPdrNum}
		}
		if idsOnly {
			u = &URRInfo{}
		}
		fmt.Fprintf(&sb, "%d:{rm=%v seq=%d ref=%d m=%v%v%v i=%v%v%v%v%v} ", id, u.removed, u.SEQN, u.refPdrNum,
			b2i(u.DURAT), b2i(u.VOLUM), b2i(u.EVENT), b2i(u.MBQE), b2i(u.INAM), b2i(u.RADI), b2i(u.ISTM), b2i(u.MNOP))
	}
	sb.WriteString("]")
	var bar []int
	for id := range s.BARIDs {
		bar = append(bar, int(id))
	}
	sort.Ints(bar)
	fmt.Fprintf(&sb, " BAR%v", bar)
	var qs []int
	for id := range s.q {
		qs = append(qs, int(id))
	}
	sort.Ints(qs)
	sb.WriteString(" Q[")
	for _, id := range qs {
		q := s.q[uint16(id)]
		n := len(q)
		fmt.Fprintf(&sb, "%d:%d(", id, n)
		// peek: rotate the FIFO once (the loop is parked, nobody else touches it)
		for i := 0; i < n && !qLenOnly; i++ {
			p := <-q
			sb.WriteString(h8(p))
			sb.WriteString(",")
			q <- p
		}
		sb.WriteString(") ")
	}
	sb.WriteString("]")
	return sb.String()
}

func b2i(b bool) int {
	if b {
		return 1
	}
	return 0
}

// SessDumps returns local SEID -> canonical dump for every live session.
func (v *VServer) SessDumps() map[uint64]string {
	out := map[uint64]string{}
	for i, s := range v.S.lnode.sess {
		if s != nil {
			out[uint64(i+1)] = sessDump(s, rawLabel)
		}
	}
	return out
}

// Queue returns the packets queued for (seid, pdr) in order (nil if none).
func (v *VServer) Queue(seid uint64, pdr uint16) [][]byte {
	i := int(seid) - 1
	if seid == 0 || i < 0 || i >= len(v.S.lnode.sess) || v.S.lnode.sess[i] == nil {
		return nil
	}
	q, ok := v.S.lnode.sess[i].q[pdr]
	if !ok {
		return nil
	}
	var out [][]byte
	n := len(q)
	for k := 0; k < n; k++ {
		p := <-q
		out = append(out, p)
		q <- p
	}
	return out
}

// Dump is the canonical dump of the whole server state. Parts can be left out by a property's projection.
type DumpOpt struct {
	NoTrans bool // leave out transaction tables and the sequence counter
	// Label, if set, names sessions by a logical label instead of the SEID value, and the dump lists
	// sessions sorted by label with only the number of slots and free entries: states that differ only
	// in which SEID value a session got (Go map iteration order decides the free-list order when a node
	// is reset) are the same state up to renaming of SEIDs, and no oracle depends on the value.
	Label func(uint64) string
	NoSeq bool // leave out the per-URR UR-SEQN counters (properties that cannot observe them)
	QLenOnly bool // queues by length only (payload names are a renaming)
	IDsOnly  bool // sessions by their rule-id sets only (no per-URR details)
	NoExtra  bool // skip the reflective unknown-field dump (sweeps that compare thousands of states with large transaction tables)
}

func rawLabel(x uint64) string { return fmt.Sprintf("%#x", x) }

func (v *VServer) Dump(o DumpOpt) string {
	var sb strings.Builder
	s := v.S
	var nodes []string
	for id := range s.rnodes {
		nodes = append(nodes, id)
	}
	sort.Strings(nodes)
	lab := o.Label
	if lab == nil {
		lab = rawLabel
	}
	for _, id := range nodes {
		n := s.rnodes[id]
		var ss []string
		for k := range n.sess {
			ss = append(ss, lab(k))
		}
		sort.Strings(ss)
		fmt.Fprintf(&sb, "node %s id=%s addr=%s sess=%v\n", id, n.ID, n.addr, ss)
	}
	if o.Label == nil {
		fmt.Fprintf(&sb, "slots=%d free=%v\n", len(s.lnode.sess), s.lnode.free)
		for i, x := range s.lnode.sess {
			if x == nil {
				fmt.Fprintf(&sb, "slot %d nil\n", i+1)
			} else {
				fmt.Fprintf(&sb, "slot %d %s\n", i+1, sessDump(x, lab, o.NoSeq, o.QLenOnly, o.IDsOnly))
			}
		}
	} else {
		dup := false
		seenFree := map[uint64]bool{}
		for _, f := range s.lnode.free {
			if seenFree[f] {
				dup = true
			}
			seenFree[f] = true
		}
		fmt.Fprintf(&sb, "slots=%d free=%d dupfree=%v\n", len(s.lnode.sess), len(s.lnode.free), dup)
		var ds []string
		for i, x := range s.lnode.sess {
			if x != nil {
				d := sessDump(x, lab, o.NoSeq, o.QLenOnly, o.IDsOnly)
				if x.LocalID != uint64(i+1) {
					d += fmt.Sprintf(" MISPLACED(slot %d holds LocalID %#x)", i+1, x.LocalID)
				}
				ds = append(ds, d)
			}
		}
		sort.Strings(ds)
		for _, d := range ds {
			sb.WriteString("sess " + d + "\n")
		}
	}
	// state the hand-written dump does not know (fields added by a change to the implementation)
	if o.NoExtra {
	} else if x := deepdump.Extra(s, knownFields); x != "" {
		sb.WriteString("extra " + x + "\n")
	}
	if !o.NoTrans {
		for _, r := range v.Rx() {
			fmt.Fprintf(&sb, "rx %s rsp=%s\n", r.ID, h8(r.Rsp))
		}
		for _, t := range v.Tx() {
			fmt.Fprintf(&sb, "tx %s n=%d req=%s\n", t.ID, t.Retrans, h8(t.Req))
		}
		fmt.Fprintf(&sb, "txSeq=%d\n", s.txSeq)
	}
	return sb.String()
}

// knownFields: what the hand-written dumps already cover ("!" = do not traverse).
var knownFields = deepdump.Known{
	"pfcp.PfcpServer":    {"cfg!", "listen", "nodeID", "rcvCh!", "srCh!", "trToCh!", "conn!", "recoveryTime!", "driver!", "lnode", "rnodes", "txTrans", "rxTrans", "txSeq", "log!"},
	"pfcp.LocalNode":     {"sess", "free"},
	"pfcp.RemoteNode":    {"ID", "addr!", "local!", "sess", "driver!", "log!"},
	"pfcp.Sess":          {"rnode!", "LocalID", "RemoteID", "PDRIDs", "FARIDs", "QERIDs", "URRIDs", "BARIDs", "q!", "qlen", "log!"},
	"pfcp.PDRInfo":       {"RelatedURRIDs"},
	"pfcp.URRInfo":       {"removed", "SEQN", "MeasureMethod", "MeasureInformation", "refPdrNum"},
	"report.MeasureMethod":      {"DURAT", "VOLUM", "EVENT"},
	"report.MeasureInformation": {"MBQE", "INAM", "RADI", "ISTM", "MNOP", "SSPOC", "ASPOC", "CIAM"},
	"pfcp.TxTransaction": {"server!", "raddr!", "seq", "id", "retransTimeout", "maxRetrans", "req!", "msgBuf", "timer!", "retransCount", "log!"},
	"pfcp.RxTransaction": {"server!", "raddr!", "seq", "id", "timeout", "msgBuf", "timer!", "log!"},
}

// Addr is the server's listen address.
func (v *VServer) Addr() *net.UDPAddr {
	a, _ := net.ResolveUDPAddr("udp4", v.S.listen)
	return a
}

// RecoveryTime exposes the process-wide recovery time stamp (compared for equality only).
func (v *VServer) RecoveryTime() time.Time { return v.S.recoveryTime }
