//go:build verif && !vsched

package perio

import (
	"runtime"
	"sort"
	"strings"
	"time"

	"github.com/free5gc/go-upf/internal/verif/deepdump"
	"github.com/free5gc/go-upf/internal/verif/gstate"
)

// VTick posts one tick of the given period, exactly as the period's ticker goroutine does.
func (s *Server) VTick(period time.Duration) {
	s.evtCh <- Event{eType: TYPE_PERIO_TIMEOUT, period: period}
}

// VQuiesce waits until the server goroutine has handled every queued event (event channel empty and the
// goroutine parked in its receive) and returns false if the goroutine no longer exists.
func (s *Server) VQuiesce(gid *string) (alive bool, state string) {
	dl := time.Now().Add(60 * time.Second)
	for {
		if len(s.evtCh) == 0 {
			d := gstate.Dump()
			if *gid == "" {
				id, _ := gstate.Find(d, "perio.(*Server).Serve(")
				*gid = id
			}
			if *gid == "" {
				return false, "gone"
			}
			st, top := gstate.Top(d, *gid)
			// idle = parked in the receive of Serve's own range loop (not in a receive deeper in the call
			// chain, e.g. waiting for a netlink reply inside the query callback)
			if st == "chan receive" && strings.Contains(top, "perio.(*Server).Serve(") {
				return true, st
			}
			if st == "gone" {
				return false, st
			}
		}
		if time.Now().After(dl) {
			return true, "stuck"
		}
		runtime.Gosched()
	}
}

// VGroups returns period -> sorted (seid, urr) pairs currently registered.
func (s *Server) VGroups() map[time.Duration][][2]uint64 {
	out := map[time.Duration][][2]uint64{}
	for p, g := range s.perioList {
		var l [][2]uint64
		for seid, us := range g.urrids {
			for u := range us {
				l = append(l, [2]uint64{seid, uint64(u)})
			}
		}
		sort.Slice(l, func(i, j int) bool { return l[i][0] < l[j][0] || (l[i][0] == l[j][0] && l[i][1] < l[j][1]) })
		out[p] = l
	}
	return out
}

// VExtra renders state of the server that VGroups does not know (fields added by a change to the code).
func (s *Server) VExtra() string {
	return deepdump.Extra(s, deepdump.Known{
		"perio.Server":     {"evtCh!", "perioList", "handler!", "queryURR!"},
		"perio.PERIOGroup": {"urrids", "period", "ticker!", "stopCh!"},
	})
}

// VTickers counts live ticker goroutines (by their function name in the goroutine dump).
func VTickers() int { return gstate.Count(gstate.Dump(), "perio.(*PERIOGroup).newTicker.func1(") }

func VServers() int { return gstate.Count(gstate.Dump(), "perio.(*Server).Serve(") }
