//go:build verif && vsched

package perio

import "fmt"

// VEvtCh exposes the event channel (virtual capacity overrides, naming).
func (s *Server) VEvtCh() chan Event { return s.evtCh }

// VSummary: registered (period, seid, urr) triples, for the scheduler's global state key.
func (s *Server) VSummary() string {
	out := ""
	for p, g := range s.perioList {
		n := 0
		for _, us := range g.urrids {
			n += len(us)
		}
		out += fmt.Sprintf("%v:%d/%d;", p, len(g.urrids), n)
	}
	return out
}
