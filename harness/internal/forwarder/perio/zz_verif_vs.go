//go:build verif && vsched

package perio

import (
	"fmt"
	"sort"
	"strings"
)

// VEvtCh exposes the event channel (virtual capacity overrides, naming).
func (s *Server) VEvtCh() chan Event { return s.evtCh }

// VSummary: registered (period, seid, urr) triples, sorted, for the scheduler's global state key.
func (s *Server) VSummary() string {
	var l []string
	for p, g := range s.perioList {
		for seid, us := range g.urrids {
			for u := range us {
				l = append(l, fmt.Sprintf("%v/%d/%d", p, seid, u))
			}
		}
		if len(g.urrids) == 0 {
			l = append(l, fmt.Sprintf("%v/-", p))
		}
	}
	sort.Strings(l)
	return strings.Join(l, ";")
}
