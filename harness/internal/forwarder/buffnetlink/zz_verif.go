//go:build verif

package buffnetlink

import (
	"syscall"

	"github.com/khirono/go-nl"
)

// VNewServer builds the buffering listener without a gtp5g multicast group: the harness hands it the
// notifications (genuine netlink messages) through ServeMsg. A plain generic-netlink socket is opened so
// that Close() has a handler to pop and a connection to close, as in production.
func VNewServer(mux *nl.Mux) (*Server, error) {
	conn, err := nl.Open(syscall.NETLINK_GENERIC)
	if err != nil {
		return nil, err
	}
	s := &Server{mux: mux, conn: conn}
	if err := mux.PushHandler(conn, s); err != nil {
		conn.Close()
		return nil, err
	}
	return s, nil
}

// VNotify delivers one notification (genl header + attributes) exactly as the mux goroutine would.
func (s *Server) VNotify(genlPayload []byte) bool {
	return s.ServeMsg(&nl.Msg{Header: nl.Header{Len: uint32(16 + len(genlPayload)), Type: 0x1d}, Body: genlPayload})
}
