//go:build verif

package forwarder

import (
	"fmt"
	"net"
	"sync"
	"time"

	"github.com/khirono/go-nl"

	"github.com/free5gc/go-gtp5gnl"
	"github.com/free5gc/go-upf/internal/forwarder/buffnetlink"
	"github.com/free5gc/go-upf/internal/forwarder/perio"
	"github.com/free5gc/go-upf/internal/logger"
)

var vMuxDone sync.Map

// VNewGtp5g assembles the real gtp5g driver around a simulated netlink endpoint: real nl.Mux, real
// nl.Client / gtp5gnl request code, real perio.Server, real buffnetlink.Server (fed by the harness), real
// UDP socket for re-injected packets. mk returns a fresh connection to the simulated kernel.
func VNewGtp5g(wg *sync.WaitGroup, mk func() nl.Conner, famID int, linkIndex int, gtpu *net.UDPConn) (*Gtp5g, error) {
	g := &Gtp5g{log: logger.FwderLog.WithField("verif", "gtp5g")}
	mux, err := nl.NewMux()
	if err != nil {
		return nil, fmt.Errorf("nl.NewMux: %w", err)
	}
	done := make(chan struct{})
	vMuxDone.Store(g, done)
	wg.Add(1)
	go func() {
		defer wg.Done()
		defer close(done)
		_ = mux.Serve()
	}()
	g.mux = mux
	g.link = &Gtp5gLink{mux: mux, conn: gtpu, client: nl.NewClient(mk(), mux), link: &gtp5gnl.Link{Name: "upfgtp", Index: linkIndex}, log: g.log}
	cc, pc := mk(), mk()
	vConns.Store(g, [2]nl.Conner{cc, pc})
	g.client = &gtp5gnl.Client{Client: nl.NewClient(cc, mux), ID: famID}
	g.psClient = &gtp5gnl.Client{Client: nl.NewClient(pc, mux), ID: famID}
	bs, err := buffnetlink.VNewServer(mux)
	if err != nil {
		return nil, fmt.Errorf("buffnetlink: %w", err)
	}
	g.bsnl = bs
	ps, err := perio.OpenServer(wg)
	if err != nil {
		return nil, err
	}
	g.ps = ps
	return g, nil
}

func (g *Gtp5g) VBuff() *buffnetlink.Server { return g.bsnl }
func (g *Gtp5g) VPerio() *perio.Server      { return g.ps }
func (g *Gtp5g) VCheckVersion() error        { return g.checkVersion() }
func (g *Gtp5g) VQueryMulti(m map[uint64][]uint32) (map[uint64][]uint32, error) {
	r, err := g.queryMultiURR(m, true)
	out := map[uint64][]uint32{}
	for seid, us := range r {
		for _, u := range us {
			out[seid] = append(out[seid], u.URRID)
		}
	}
	return out, err
}

// VCloseRaw releases the OS resources of the driver without going through the periodic server's event channel
// (clean-up after a scheduler-controlled execution has ended).
func (g *Gtp5g) VCloseRaw() {
	if _, done := vClosed.LoadAndDelete(g); done {
		return
	}
	if g.link != nil && g.link.conn != nil {
		_ = g.link.conn.Close()
	}
	if g.bsnl != nil {
		g.bsnl.Close()
	}
	if g.mux != nil {
		g.mux.Close()
		// go-nl's Mux closes one of its descriptors twice (Close and again when Serve returns): wait until Serve
		// has returned before anything else opens descriptors, or the second close hits a stranger
		if d, ok := vMuxDone.Load(g); ok {
			select {
			case <-d.(chan struct{}):
			case <-time.After(5 * time.Second):
			}
			vMuxDone.Delete(g)
		}
	}
}

var vConns sync.Map // *Gtp5g -> the two simulated-kernel connections standing in for g.conn and g.psConn

var vClosed sync.Map // *Gtp5g -> true: closed through VClose (the clean-up must not close again)

// VClose closes the driver exactly as pkg/app does at shutdown (Gtp5g.Close), then waits for go-nl's Mux goroutine
// to return (see VCloseRaw) and tells the clean-up that nothing is left to release.
func (g *Gtp5g) VClose() {
	// g.conn / g.psConn are concrete *nl.Conn fields and stay nil here; the connections standing in for them are
	// closed first, which is also where Gtp5g.Close closes them (conn, psConn, link, mux, bsnl, ps)
	if v, ok := vConns.LoadAndDelete(g); ok {
		for _, c := range v.([2]nl.Conner) {
			c.Close()
		}
	}
	g.Close()
	if d, ok := vMuxDone.Load(g); ok {
		select {
		case <-d.(chan struct{}):
		case <-time.After(5 * time.Second):
		}
		vMuxDone.Delete(g)
	}
	vClosed.Store(g, true)
}
