//go:build verif

package forwarder

import (
	"net"

	"github.com/free5gc/go-upf/internal/logger"
)

// VNewGtp5gForWrite builds a driver object that can only re-inject packets (WritePacket) through conn.
func VNewGtp5gForWrite(conn *net.UDPConn) *Gtp5g {
	log := logger.FwderLog.WithField("verif", "write")
	return &Gtp5g{log: log, link: &Gtp5gLink{conn: conn, log: log}}
}
