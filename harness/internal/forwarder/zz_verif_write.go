//go:build verif

package forwarder

import (
	"net"

	"github.com/wmnsk/go-pfcp/ie"

	"github.com/free5gc/go-upf/internal/logger"
)

// VNewGtp5gForWrite builds a driver object that can only re-inject packets (WritePacket) through conn.
func VNewGtp5gForWrite(conn *net.UDPConn) *Gtp5g {
	log := logger.FwderLog.WithField("verif", "write")
	return &Gtp5g{log: log, link: &Gtp5gLink{conn: conn, log: log}}
}

// VFlowDescAttrs returns the encoded netlink flow-description attributes the driver builds for a rule string.
func VFlowDescAttrs(s string, swap bool) ([]byte, error) {
	g := &Gtp5g{log: logger.FwderLog.WithField("verif", "fd")}
	al, err := g.newFlowDesc(s, swap)
	if err != nil {
		return nil, err
	}
	b := make([]byte, al.Len())
	_, err = al.Encode(b)
	return b, err
}

// VSdfFilterAttrs returns the encoded SDF-filter attributes the driver builds for an SDF Filter IE.
func VSdfFilterAttrs(i *ie.IE, srcIf uint8) ([]byte, error) {
	g := &Gtp5g{log: logger.FwderLog.WithField("verif", "sdf")}
	al, err := g.newSdfFilter(i, srcIf)
	if err != nil {
		return nil, err
	}
	b := make([]byte, al.Len())
	_, err = al.Encode(b)
	return b, err
}

// VPdiAttrs returns the encoded PDI attributes the driver builds for a PDI IE.
func VPdiAttrs(i *ie.IE) ([]byte, error) {
	g := &Gtp5g{log: logger.FwderLog.WithField("verif", "pdi")}
	al, err := g.newPdi(i)
	if err != nil {
		return nil, err
	}
	b := make([]byte, al.Len())
	_, err = al.Encode(b)
	return b, err
}
