#!/bin/bash
# Build the framework from files on disk only (offline) and warm the go build cache for every flavour.
set -u
cd "$(dirname "$0")"
export GOFLAGS=-mod=mod GOPROXY=off GOSUMDB=off GOTOOLCHAIN=local
mkdir -p .build evidence replays
fl="plain"
[ -d tools/rewrite ] && fl="$fl vs vsr"
fl="$fl race"
./check build $fl || exit 1
echo "setup ok"
